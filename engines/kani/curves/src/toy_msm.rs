//! TOY environments for the generic window loop of `midnight_curves::msm::msm_serial` (notes/K4.md).
//!
//! `msm_serial::<C>` touches `C` only through the group interface (`identity`, `double`, `+`, `+=`, `neg`) and the scalar
//! field only through `to_repr()` / `NUM_BITS`: the byte length of the scalar field is what drives the window count.
//! Unlike `toy.rs` (whose curve-level operations are `unimplemented!()`), the types here carry a REAL group law and a
//! scalar field that is DIFFERENT from the base field and needs at least one full byte with the top bit reachable.
//!
//! Group elements are given by an `Elem` instance; `GA<E>` / `GJ<E>` wrap it into the `CurveAffine` / `CurveExt` pair:
//!   * `E139`  : the curve y^2 = x^3 + 2 over F_139, 163 points (prime), generator (3, 53); scalar field F_163
//!               (one byte, scalars 128..=162 have the top bit set). Affine textbook law, inversion by table.
//!               Found by brute force (python: point count of y^2 = x^3 + b over F_p, p = 1 mod 3, 100 <= p < 290);
//!               `E139_MULTIPLES` (k*G for k = 0..163, computed by an independent python implementation) is what the
//!               Kani harness `c12::toy_e139_is_a_group_of_order_163` compares the law against.
//!   * `Dlog<S>`: the cyclic group (Z_q, +) of the one-byte scalar field S = F_163: "points" are discrete logarithms.
//!   * `Lin<S, R>`: the free module of rank R: a point is the coefficient vector of a formal combination of R independent
//!               generators (integers, compared modulo q = |S|). An identity between group expressions holds in EVERY
//!               abelian group of exponent q for EVERY choice of R points iff it holds for the generators of this one
//!               (universal property), provided the code under test does not branch on point values (msm_serial does
//!               not; `E139` / `Dlog` cover identity / repeated / opposite bases explicitly).
//!               No multiplication and no reduction in the group law, so scalar fields of 2 and 3 bytes are affordable.
//! The toy types are the ENVIRONMENT the real generic code is instantiated at, never the code under test.
use super::*;
use core::fmt::Debug;
use core::marker::PhantomData;

// one-byte fields (constants from python: generator, 2-adicity, root of unity, delta = g^(2^s), zeta = g^((p-1)/3))
toy_field!(F139, u16, 139, gen = 2, s = 1, root = 138, root_inv = 138, delta = 4, two_inv = 70, zeta = 96, modulus = "0x8b", bits = 8);
toy_field!(F163, u16, 163, gen = 2, s = 1, root = 162, root_inv = 162, delta = 4, two_inv = 82, zeta = 104, modulus = "0xa3", bits = 8);

/// prime fields of 2 and 3 bytes (scalar fields only: `to_repr`, `NUM_BITS` and the constants are what is used)
macro_rules! toy_wide_field {
    ($F:ident, $q:expr, bytes = $nb:expr, gen = $g:expr, s = $s:expr, root = $root:expr, root_inv = $rinv:expr, delta = $delta:expr,
     two_inv = $tinv:expr, zeta = $zeta:expr, modulus = $mstr:expr, bits = $bits:expr) => {
        #[derive(Clone, Copy, Debug, Default, PartialEq, Eq, Hash, PartialOrd, Ord)]
        pub struct $F(pub u32);
        impl $F {
            pub const Q: u32 = $q;
            #[inline]
            fn red(x: u64) -> Self {
                $F((x % ($q as u64)) as u32)
            }
        }
        impl ConstantTimeEq for $F {
            fn ct_eq(&self, o: &Self) -> Choice {
                Choice::from((self.0 == o.0) as u8)
            }
        }
        impl ConditionallySelectable for $F {
            fn conditional_select(a: &Self, b: &Self, c: Choice) -> Self {
                if c.unwrap_u8() == 1 {
                    *b
                } else {
                    *a
                }
            }
        }
        impl Neg for $F {
            type Output = $F;
            fn neg(self) -> $F {
                $F::red(($q as u64) - self.0 as u64)
            }
        }
        impl Add for $F {
            type Output = $F;
            fn add(self, o: $F) -> $F {
                $F::red(self.0 as u64 + o.0 as u64)
            }
        }
        impl Sub for $F {
            type Output = $F;
            fn sub(self, o: $F) -> $F {
                $F::red(self.0 as u64 + ($q as u64) - o.0 as u64)
            }
        }
        impl Mul for $F {
            type Output = $F;
            fn mul(self, o: $F) -> $F {
                $F::red(self.0 as u64 * o.0 as u64)
            }
        }
        impl<'a> Add<&'a $F> for $F {
            type Output = $F;
            fn add(self, o: &'a $F) -> $F {
                self + *o
            }
        }
        impl<'a> Sub<&'a $F> for $F {
            type Output = $F;
            fn sub(self, o: &'a $F) -> $F {
                self - *o
            }
        }
        impl<'a> Mul<&'a $F> for $F {
            type Output = $F;
            fn mul(self, o: &'a $F) -> $F {
                self * *o
            }
        }
        impl AddAssign for $F {
            fn add_assign(&mut self, o: $F) {
                *self = *self + o
            }
        }
        impl SubAssign for $F {
            fn sub_assign(&mut self, o: $F) {
                *self = *self - o
            }
        }
        impl MulAssign for $F {
            fn mul_assign(&mut self, o: $F) {
                *self = *self * o
            }
        }
        impl<'a> AddAssign<&'a $F> for $F {
            fn add_assign(&mut self, o: &'a $F) {
                *self = *self + *o
            }
        }
        impl<'a> SubAssign<&'a $F> for $F {
            fn sub_assign(&mut self, o: &'a $F) {
                *self = *self - *o
            }
        }
        impl<'a> MulAssign<&'a $F> for $F {
            fn mul_assign(&mut self, o: &'a $F) {
                *self = *self * *o
            }
        }
        impl Sum for $F {
            fn sum<I: Iterator<Item = $F>>(i: I) -> $F {
                i.fold($F(0), |a, b| a + b)
            }
        }
        impl<'a> Sum<&'a $F> for $F {
            fn sum<I: Iterator<Item = &'a $F>>(i: I) -> $F {
                i.fold($F(0), |a, b| a + *b)
            }
        }
        impl Product for $F {
            fn product<I: Iterator<Item = $F>>(i: I) -> $F {
                i.fold($F(1), |a, b| a * b)
            }
        }
        impl<'a> Product<&'a $F> for $F {
            fn product<I: Iterator<Item = &'a $F>>(i: I) -> $F {
                i.fold($F(1), |a, b| a * *b)
            }
        }
        impl From<u64> for $F {
            fn from(v: u64) -> $F {
                $F::red(v)
            }
        }
        impl Field for $F {
            const ZERO: Self = $F(0);
            const ONE: Self = $F(1);
            fn random(mut rng: impl RngCore) -> Self {
                $F::from(rng.next_u64())
            }
            fn square(&self) -> Self {
                *self * *self
            }
            fn double(&self) -> Self {
                *self + *self
            }
            /// Fermat (never called by the code under test)
            fn invert(&self) -> CtOption<Self> {
                let mut r = $F(1);
                let mut b = *self;
                let mut e: u32 = $q - 2;
                while e > 0 {
                    if e & 1 == 1 {
                        r = r * b;
                    }
                    b = b * b;
                    e >>= 1;
                }
                CtOption::new(r, Choice::from((self.0 != 0) as u8))
            }
            fn sqrt_ratio(_n: &Self, _d: &Self) -> (Choice, Self) {
                unimplemented!()
            }
        }
        impl PrimeField for $F {
            type Repr = [u8; $nb];
            fn from_repr(r: [u8; $nb]) -> CtOption<Self> {
                let mut v: u32 = 0;
                let mut i = $nb;
                while i > 0 {
                    i -= 1;
                    v = (v << 8) | r[i] as u32;
                }
                CtOption::new($F(v), Choice::from((v < $q) as u8))
            }
            fn to_repr(&self) -> [u8; $nb] {
                let mut r = [0u8; $nb];
                let mut i = 0;
                while i < $nb {
                    r[i] = (self.0 >> (8 * i)) as u8;
                    i += 1;
                }
                r
            }
            fn is_odd(&self) -> Choice {
                Choice::from((self.0 & 1) as u8)
            }
            const MODULUS: &'static str = $mstr;
            const NUM_BITS: u32 = $bits;
            const CAPACITY: u32 = $bits - 1;
            const TWO_INV: Self = $F($tinv);
            const MULTIPLICATIVE_GENERATOR: Self = $F($g);
            const S: u32 = $s;
            const ROOT_OF_UNITY: Self = $F($root);
            const ROOT_OF_UNITY_INV: Self = $F($rinv);
            const DELTA: Self = $F($delta);
        }
        impl WithSmallOrderMulGroup<3> for $F {
            const ZETA: Self = $F($zeta);
        }
    };
}

// 65521 = largest prime below 2^16, 16777213 = largest prime below 2^24 (both 1 mod 3); constants from python
toy_wide_field!(F65521, 65521, bytes = 2, gen = 17, s = 4, root = 61640, root_inv = 19685, delta = 39958, two_inv = 32761, zeta = 16673,
    modulus = "0xfff1", bits = 16);
toy_wide_field!(F16777213, 16777213, bytes = 3, gen = 5, s = 2, root = 12384695, root_inv = 4392518, delta = 625, two_inv = 8388607,
    zeta = 5097910, modulus = "0xfffffd", bits = 24);

/// what the harnesses need from a toy scalar field: its size and the integer -> element map
pub trait ToyScalar: PrimeField + WithSmallOrderMulGroup<3> + Ord {
    const Q: u32;
    /// number of bytes of `to_repr()`
    const NB: usize;
    /// `v` must be < Q
    fn from_u32(v: u32) -> Self;
}
impl ToyScalar for F163 {
    const Q: u32 = 163;
    const NB: usize = 1;
    fn from_u32(v: u32) -> Self {
        F163(v as u8)
    }
}
impl ToyScalar for F65521 {
    const Q: u32 = 65521;
    const NB: usize = 2;
    fn from_u32(v: u32) -> Self {
        F65521(v)
    }
}
impl ToyScalar for F16777213 {
    const Q: u32 = 16777213;
    const NB: usize = 3;
    fn from_u32(v: u32) -> Self {
        F16777213(v)
    }
}

/// A group given by its law. `Default` must be the identity.
pub trait Elem: Copy + Clone + Debug + Default + PartialEq + Eq + Send + Sync + 'static {
    type Base: WithSmallOrderMulGroup<3> + Ord;
    type Scalar: ToyScalar;
    fn id() -> Self;
    fn is_id(&self) -> bool;
    fn gadd(self, o: Self) -> Self;
    fn gneg(self) -> Self;
    fn gdbl(self) -> Self {
        self.gadd(self)
    }
    /// equality as group elements
    fn same(&self, o: &Self) -> bool;
    fn xy(&self) -> Option<(Self::Base, Self::Base)> {
        unimplemented!()
    }
    fn on_curve(_x: Self::Base, _y: Self::Base) -> Option<Self> {
        unimplemented!()
    }
    fn curve_b() -> Self::Base {
        unimplemented!()
    }
}

/// k * p by plain double-and-add over the little-endian bytes of the scalar (the `Mul` impls of the wrappers)
fn env_mul<E: Elem>(p: E, k: &E::Scalar) -> E {
    let repr = k.to_repr();
    let bytes = repr.as_ref();
    let mut r = E::id();
    let mut i = bytes.len() * 8;
    while i > 0 {
        i -= 1;
        r = r.gdbl();
        if (bytes[i / 8] >> (i % 8)) & 1 == 1 {
            r = r.gadd(p);
        }
    }
    r
}

// ---------------------------------------------------------------------------------------------
// y^2 = x^3 + 2 over F_139: 163 points
#[derive(Clone, Copy, Debug, Default, PartialEq, Eq)]
pub struct E139 {
    pub x: F139,
    pub y: F139,
    pub finite: bool, // false = identity, so that `Default` is the identity (with x = y = 0)
}
impl E139 {
    pub const B: F139 = F139(2);
    pub fn pt(x: u8, y: u8) -> Self {
        E139 { x: F139(x), y: F139(y), finite: true }
    }
}
impl Elem for E139 {
    type Base = F139;
    type Scalar = F163;
    fn id() -> Self {
        E139 { x: F139(0), y: F139(0), finite: false }
    }
    fn is_id(&self) -> bool {
        !self.finite
    }
    fn gneg(self) -> Self {
        E139 { x: self.x, y: -self.y, finite: self.finite }
    }
    /// textbook affine chord-and-tangent law (a = 0; no point has y = 0 because the order is odd)
    fn gadd(self, o: Self) -> Self {
        if self.is_id() {
            return o;
        }
        if o.is_id() {
            return self;
        }
        let lambda = if self.x == o.x {
            if self.y + o.y == F139(0) {
                return Self::id();
            }
            let xx = self.x * self.x;
            (xx + xx + xx) * (self.y + self.y).invert().unwrap()
        } else {
            (o.y - self.y) * (o.x - self.x).invert().unwrap()
        };
        let x3 = lambda * lambda - self.x - o.x;
        E139 { x: x3, y: lambda * (self.x - x3) - self.y, finite: true }
    }
    fn same(&self, o: &Self) -> bool {
        self.x.0 == o.x.0 && self.y.0 == o.y.0 && self.finite == o.finite
    }
    fn xy(&self) -> Option<(F139, F139)> {
        if self.is_id() {
            None
        } else {
            Some((self.x, self.y))
        }
    }
    fn on_curve(x: F139, y: F139) -> Option<Self> {
        if y * y == x * x * x + Self::B {
            Some(E139 { x, y, finite: true })
        } else {
            None
        }
    }
    fn curve_b() -> F139 {
        Self::B
    }
}

/// k * (3, 53) for k = 0..163 on y^2 = x^3 + 2 over F_139, (0, 0) standing for the identity at k = 0.
/// Computed by an independent python implementation of the affine law (notes/K4.md has the script).
pub const E139_MULTIPLES: [(u8, u8); 163] = include!("toy_msm_e139_table.in");

// ---------------------------------------------------------------------------------------------
/// (Z_q, +), q = |S| < 256: the point k stands for k * G of any group of prime order q
#[derive(Clone, Copy, Debug, PartialEq, Eq)]
pub struct Dlog<S: ToyScalar>(pub u32, pub PhantomData<S>);
impl<S: ToyScalar> Default for Dlog<S> {
    fn default() -> Self {
        Dlog(0, PhantomData)
    }
}
impl<S: ToyScalar> Elem for Dlog<S> {
    type Base = F13;
    type Scalar = S;
    fn id() -> Self {
        Dlog(0, PhantomData)
    }
    fn is_id(&self) -> bool {
        self.0 == 0
    }
    fn gadd(self, o: Self) -> Self {
        let s = self.0 + o.0;
        Dlog(if s >= S::Q { s - S::Q } else { s }, PhantomData)
    }
    fn gneg(self) -> Self {
        Dlog(if self.0 == 0 { 0 } else { S::Q - self.0 }, PhantomData)
    }
    fn same(&self, o: &Self) -> bool {
        self.0 == o.0
    }
}

// ---------------------------------------------------------------------------------------------
/// free module of rank R: coefficient vector of a formal combination of R independent points (integers; equality
/// modulo q = |S|). The harness bounds make overflow impossible (coefficients stay below 2^(8 * NB + 3)); Kani checks it.
#[derive(Clone, Copy, Debug, PartialEq, Eq)]
pub struct Lin<S: ToyScalar, const R: usize>(pub [i64; R], pub PhantomData<S>);
impl<S: ToyScalar, const R: usize> Default for Lin<S, R> {
    fn default() -> Self {
        Lin([0; R], PhantomData)
    }
}
impl<S: ToyScalar, const R: usize> Lin<S, R> {
    pub fn generator(i: usize) -> Self {
        let mut c = [0i64; R];
        c[i] = 1;
        Lin(c, PhantomData)
    }
}
impl<S: ToyScalar, const R: usize> Elem for Lin<S, R> {
    type Base = F13;
    type Scalar = S;
    fn id() -> Self {
        Lin([0; R], PhantomData)
    }
    fn is_id(&self) -> bool {
        let mut i = 0;
        while i < R {
            if self.0[i] % (S::Q as i64) != 0 {
                return false;
            }
            i += 1;
        }
        true
    }
    fn gadd(self, o: Self) -> Self {
        let mut c = self.0;
        let mut i = 0;
        while i < R {
            c[i] += o.0[i];
            i += 1;
        }
        Lin(c, PhantomData)
    }
    fn gneg(self) -> Self {
        let mut c = self.0;
        let mut i = 0;
        while i < R {
            c[i] = -c[i];
            i += 1;
        }
        Lin(c, PhantomData)
    }
    fn same(&self, o: &Self) -> bool {
        let mut i = 0;
        while i < R {
            if (self.0[i] - o.0[i]) % (S::Q as i64) != 0 {
                return false;
            }
            i += 1;
        }
        true
    }
}

// ---------------------------------------------------------------------------------------------
/// (Z, +) with equality modulo q = |S|: a point is an integer weight w, standing for w * P of one formal point P.
/// Code that uses its points only through the group operations and never looks at them (`LOOKED` below stays 0)
/// computes sum_i c_i(scalars) * B_i with coefficients c_i that do not depend on the bases; running it on the weights
/// (w_1, .., w_n) and finding sum_i s_i * w_i modulo q for ALL small w (the unit vectors among them) fixes c_i = s_i
/// modulo q, i.e. the result is sum_i s_i * B_i in every abelian group of exponent q. One machine word per point, no
/// multiplication and no reduction in the group law: scalar fields of 2 and 3 bytes are affordable.
#[derive(Clone, Copy, Debug, PartialEq, Eq)]
pub struct Zp<S: ToyScalar>(pub i32, pub PhantomData<S>);
impl<S: ToyScalar> Default for Zp<S> {
    fn default() -> Self {
        Zp(0, PhantomData)
    }
}
/// ghost: how often the code under test inspected a point (is_identity / equality / coordinates). One struct with a
/// magic word: separate zero-initialised statics alias promoted constants under Kani 0.68 (notes/K3.md).
pub struct Ghost {
    pub magic: u32,
    pub looked: u32,
}
pub static mut GHOST: Ghost = Ghost { magic: 0x4b34_6d73, looked: 0 };
pub fn looked() -> u32 {
    unsafe { GHOST.looked }
}
pub fn reset_looked() {
    unsafe { GHOST.looked = 0 }
}
fn note_look() {
    unsafe { GHOST.looked = GHOST.looked.saturating_add(1) }
}
impl<S: ToyScalar> Zp<S> {
    pub fn w(v: i32) -> Self {
        Zp(v, PhantomData)
    }
    /// equality as group elements, for the harness (does not count as a look)
    pub fn congruent(&self, o: &Self) -> bool {
        self.0 == o.0 || (self.0 - o.0) % (S::Q as i32) == 0
    }
}
impl<S: ToyScalar> Elem for Zp<S> {
    type Base = F13;
    type Scalar = S;
    fn id() -> Self {
        Zp(0, PhantomData)
    }
    fn is_id(&self) -> bool {
        note_look();
        self.0 % (S::Q as i32) == 0
    }
    fn gadd(self, o: Self) -> Self {
        Zp(self.0 + o.0, PhantomData)
    }
    fn gneg(self) -> Self {
        Zp(-self.0, PhantomData)
    }
    fn same(&self, o: &Self) -> bool {
        note_look();
        self.congruent(o)
    }
    fn xy(&self) -> Option<(F13, F13)> {
        note_look();
        unimplemented!()
    }
}

// ---------------------------------------------------------------------------------------------
// the CurveAffine / CurveExt pair over an `Elem`
// (the scalar field is a second type parameter, always `S`, only so that `Mul<S>` and `Mul<&S>` are coherent)
#[derive(Clone, Copy, Debug, Default)]
pub struct GA<E: Elem, S = <E as Elem>::Scalar>(pub E, pub PhantomData<S>);
#[derive(Clone, Copy, Debug, Default)]
pub struct GJ<E: Elem, S = <E as Elem>::Scalar>(pub E, pub PhantomData<S>);
impl<S: ToyScalar, E: Elem<Scalar = S>> GA<E, S> {
    pub fn new(e: E) -> Self {
        GA(e, PhantomData)
    }
}
impl<S: ToyScalar, E: Elem<Scalar = S>> GJ<E, S> {
    pub fn new(e: E) -> Self {
        GJ(e, PhantomData)
    }
}

macro_rules! ct_impls {
    ($T:ident) => {
        impl<S: ToyScalar, E: Elem<Scalar = S>> PartialEq for $T<E, S> {
            fn eq(&self, o: &Self) -> bool {
                self.0.same(&o.0)
            }
        }
        impl<S: ToyScalar, E: Elem<Scalar = S>> Eq for $T<E, S> {}
        impl<S: ToyScalar, E: Elem<Scalar = S>> ConstantTimeEq for $T<E, S> {
            fn ct_eq(&self, o: &Self) -> Choice {
                Choice::from(self.0.same(&o.0) as u8)
            }
        }
        impl<S: ToyScalar, E: Elem<Scalar = S>> ConditionallySelectable for $T<E, S> {
            fn conditional_select(a: &Self, b: &Self, c: Choice) -> Self {
                if c.unwrap_u8() == 1 {
                    *b
                } else {
                    *a
                }
            }
        }
        impl<S: ToyScalar, E: Elem<Scalar = S>> Neg for $T<E, S> {
            type Output = $T<E, S>;
            fn neg(self) -> $T<E, S> {
                $T::new(self.0.gneg())
            }
        }
        impl<S: ToyScalar, E: Elem<Scalar = S>> Mul<S> for $T<E, S> {
            type Output = GJ<E, S>;
            fn mul(self, k: S) -> GJ<E, S> {
                GJ::new(env_mul(self.0, &k))
            }
        }
        impl<'a, S: ToyScalar, E: Elem<Scalar = S>> Mul<&'a S> for $T<E, S> {
            type Output = GJ<E, S>;
            fn mul(self, k: &'a S) -> GJ<E, S> {
                GJ::new(env_mul(self.0, k))
            }
        }
        impl<S: ToyScalar, E: Elem<Scalar = S>> GroupEncoding for $T<E, S> {
            type Repr = [u8; 2];
            fn from_bytes(_b: &[u8; 2]) -> CtOption<Self> {
                unimplemented!()
            }
            fn from_bytes_unchecked(_b: &[u8; 2]) -> CtOption<Self> {
                unimplemented!()
            }
            fn to_bytes(&self) -> [u8; 2] {
                unimplemented!()
            }
        }
    };
}
ct_impls!(GA);
ct_impls!(GJ);

impl<S: ToyScalar, E: Elem<Scalar = S>> From<GJ<E, S>> for GA<E, S> {
    fn from(j: GJ<E, S>) -> GA<E, S> {
        GA::new(j.0)
    }
}
impl<S: ToyScalar, E: Elem<Scalar = S>> From<GA<E, S>> for GJ<E, S> {
    fn from(a: GA<E, S>) -> GJ<E, S> {
        GJ::new(a.0)
    }
}
impl<S: ToyScalar, E: Elem<Scalar = S>> Add for GA<E, S> {
    type Output = GJ<E, S>;
    fn add(self, o: GA<E, S>) -> GJ<E, S> {
        GJ::new(self.0.gadd(o.0))
    }
}
impl<S: ToyScalar, E: Elem<Scalar = S>> Sub for GA<E, S> {
    type Output = GJ<E, S>;
    fn sub(self, o: GA<E, S>) -> GJ<E, S> {
        GJ::new(self.0.gadd(o.0.gneg()))
    }
}
macro_rules! j_ops {
    ($R:ident) => {
        impl<S: ToyScalar, E: Elem<Scalar = S>> Add<$R<E, S>> for GJ<E, S> {
            type Output = GJ<E, S>;
            fn add(self, o: $R<E, S>) -> GJ<E, S> {
                GJ::new(self.0.gadd(o.0))
            }
        }
        impl<'a, S: ToyScalar, E: Elem<Scalar = S>> Add<&'a $R<E, S>> for GJ<E, S> {
            type Output = GJ<E, S>;
            fn add(self, o: &'a $R<E, S>) -> GJ<E, S> {
                GJ::new(self.0.gadd(o.0))
            }
        }
        impl<S: ToyScalar, E: Elem<Scalar = S>> Sub<$R<E, S>> for GJ<E, S> {
            type Output = GJ<E, S>;
            fn sub(self, o: $R<E, S>) -> GJ<E, S> {
                GJ::new(self.0.gadd(o.0.gneg()))
            }
        }
        impl<'a, S: ToyScalar, E: Elem<Scalar = S>> Sub<&'a $R<E, S>> for GJ<E, S> {
            type Output = GJ<E, S>;
            fn sub(self, o: &'a $R<E, S>) -> GJ<E, S> {
                GJ::new(self.0.gadd(o.0.gneg()))
            }
        }
        impl<S: ToyScalar, E: Elem<Scalar = S>> AddAssign<$R<E, S>> for GJ<E, S> {
            fn add_assign(&mut self, o: $R<E, S>) {
                self.0 = self.0.gadd(o.0)
            }
        }
        impl<'a, S: ToyScalar, E: Elem<Scalar = S>> AddAssign<&'a $R<E, S>> for GJ<E, S> {
            fn add_assign(&mut self, o: &'a $R<E, S>) {
                self.0 = self.0.gadd(o.0)
            }
        }
        impl<S: ToyScalar, E: Elem<Scalar = S>> SubAssign<$R<E, S>> for GJ<E, S> {
            fn sub_assign(&mut self, o: $R<E, S>) {
                self.0 = self.0.gadd(o.0.gneg())
            }
        }
        impl<'a, S: ToyScalar, E: Elem<Scalar = S>> SubAssign<&'a $R<E, S>> for GJ<E, S> {
            fn sub_assign(&mut self, o: &'a $R<E, S>) {
                self.0 = self.0.gadd(o.0.gneg())
            }
        }
    };
}
j_ops!(GJ);
j_ops!(GA);
impl<S: ToyScalar, E: Elem<Scalar = S>> MulAssign<S> for GJ<E, S> {
    fn mul_assign(&mut self, k: S) {
        self.0 = env_mul(self.0, &k)
    }
}
impl<'a, S: ToyScalar, E: Elem<Scalar = S>> MulAssign<&'a S> for GJ<E, S> {
    fn mul_assign(&mut self, k: &'a S) {
        self.0 = env_mul(self.0, k)
    }
}
impl<S: ToyScalar, E: Elem<Scalar = S>> Sum for GJ<E, S> {
    fn sum<I: Iterator<Item = GJ<E, S>>>(i: I) -> GJ<E, S> {
        i.fold(GJ::new(E::id()), |a, b| a + b)
    }
}
impl<'a, S: ToyScalar, E: Elem<Scalar = S>> Sum<&'a GJ<E, S>> for GJ<E, S> {
    fn sum<I: Iterator<Item = &'a GJ<E, S>>>(i: I) -> GJ<E, S> {
        i.fold(GJ::new(E::id()), |a, b| a + b)
    }
}
impl<S: ToyScalar, E: Elem<Scalar = S>> Group for GJ<E, S> {
    type Scalar = S;
    fn random(_rng: impl RngCore) -> Self {
        unimplemented!()
    }
    fn identity() -> Self {
        GJ::new(E::id())
    }
    fn generator() -> Self {
        unimplemented!()
    }
    fn is_identity(&self) -> Choice {
        Choice::from(self.0.is_id() as u8)
    }
    fn double(&self) -> Self {
        GJ::new(self.0.gdbl())
    }
}
impl<S: ToyScalar, E: Elem<Scalar = S>> PrimeGroup for GJ<E, S> {}
impl<S: ToyScalar, E: Elem<Scalar = S>> Curve for GJ<E, S> {
    type AffineRepr = GA<E, S>;
    fn to_affine(&self) -> GA<E, S> {
        GA::new(self.0)
    }
}
impl<S: ToyScalar, E: Elem<Scalar = S>> PrimeCurve for GJ<E, S> {
    type Affine = GA<E, S>;
}
impl<S: ToyScalar, E: Elem<Scalar = S>> PrimeCurveAffine for GA<E, S> {
    type Scalar = S;
    type Curve = GJ<E, S>;
    fn identity() -> Self {
        GA::new(E::id())
    }
    fn generator() -> Self {
        unimplemented!()
    }
    fn is_identity(&self) -> Choice {
        Choice::from(self.0.is_id() as u8)
    }
    fn to_curve(&self) -> GJ<E, S> {
        GJ::new(self.0)
    }
}
impl<S: ToyScalar, E: Elem<Scalar = S>> CurveExt for GJ<E, S> {
    type ScalarExt = S;
    type Base = E::Base;
    type AffineExt = GA<E, S>;
    const CURVE_ID: &'static str = "toy-msm";
    fn endo(&self) -> Self {
        unimplemented!()
    }
    fn jacobian_coordinates(&self) -> (E::Base, E::Base, E::Base) {
        unimplemented!()
    }
    fn hash_to_curve<'a>(_d: &'a str) -> Box<dyn Fn(&[u8]) -> Self + 'a> {
        unimplemented!()
    }
    fn is_on_curve(&self) -> Choice {
        unimplemented!()
    }
    fn a() -> E::Base {
        E::Base::ZERO
    }
    fn b() -> E::Base {
        E::curve_b()
    }
    fn new_jacobian(_x: E::Base, _y: E::Base, _z: E::Base) -> CtOption<Self> {
        unimplemented!()
    }
}
impl<S: ToyScalar, E: Elem<Scalar = S>> CurveAffine for GA<E, S> {
    type ScalarExt = S;
    type Base = E::Base;
    type CurveExt = GJ<E, S>;
    fn coordinates(&self) -> CtOption<Coordinates<Self>> {
        match self.0.xy() {
            Some((x, y)) => Coordinates::from_xy(x, y),
            None => CtOption::new(Coordinates::default(), Choice::from(0)),
        }
    }
    fn from_xy(x: E::Base, y: E::Base) -> CtOption<Self> {
        match E::on_curve(x, y) {
            Some(e) => CtOption::new(GA::new(e), Choice::from(1)),
            None => CtOption::new(GA::new(E::id()), Choice::from(0)),
        }
    }
    fn is_on_curve(&self) -> Choice {
        Choice::from(1)
    }
    fn a() -> E::Base {
        E::Base::ZERO
    }
    fn b() -> E::Base {
        E::curve_b()
    }
}
