//! Rust-level stubs that do not change behaviour (only cost): error construction without boxing.
use std::io;

/// `io::Error::new(kind, msg)` -> `io::Error::from(kind)`: same kind, no heap-allocated payload.
pub fn io_error_new<E>(kind: io::ErrorKind, _error: E) -> io::Error
where
    E: Into<Box<dyn std::error::Error + Send + Sync>>,
{
    io::Error::from(kind)
}

/// `zeroize::optimization_barrier` is an empty `asm!` statement (a compiler barrier, no semantics); Kani does
/// not support inline assembly. `blst_scalar` is zeroized on drop, so every harness that builds one needs this.
pub fn noop_barrier<T: ?Sized>(_val: &T) {}

/// Square root as an oracle: replaces `ff::helpers::sqrt_tonelli_shanks` (used by `Fq::sqrt`). Answers
/// nondeterministically (is_some, root) and records the radicand it was asked about.
/// Rust-level stub: Kani only. The native replay cannot apply it, so harnesses using it are registered
/// with `replay=False` (a FAILED verdict stays INCONCLUSIVE).
pub static mut SQRT: crate::ffi::Log<4, 1, 2> = crate::ffi::Log::new();
pub fn sqrt_oracle<F: ff::PrimeField, S: AsRef<[u64]>>(f: &F, _tm1d2: S) -> subtle::CtOption<F> {
    assert!(core::mem::size_of::<F>() == 32);
    let arg: [u64; 4] = unsafe { core::mem::transmute_copy(f) };
    let ans: bool = crate::vk::any();
    let out: [u64; 4] = crate::vk::any();
    unsafe { SQRT.rec([arg], out, ans) };
    let root: F = unsafe { core::mem::transmute_copy(&out) };
    subtle::CtOption::new(root, subtle::Choice::from(ans as u8))
}

// ---------------------------------------------------------------------------------------------
// Jubjub scalar multiplication / doubling as recording oracles (Rust-level stubs, Kani only).
use midnight_curves::JubjubExtended;

pub fn jj_limbs(p: &JubjubExtended) -> [u64; 20] {
    let c = p.verif_coords();
    let mut o = [0u64; 20];
    let mut i = 0;
    while i < 5 {
        let l = blst::blst_fr::from(c[i]).l;
        let mut j = 0;
        while j < 4 {
            o[4 * i + j] = l[j];
            j += 1;
        }
        i += 1;
    }
    o
}
pub fn jj_from_limbs(l: &[u64; 20]) -> JubjubExtended {
    let f = |i: usize| midnight_curves::Fq::from(blst::blst_fr { l: [l[4 * i], l[4 * i + 1], l[4 * i + 2], l[4 * i + 3]] });
    JubjubExtended::verif_from_coords([f(0), f(1), f(2), f(3), f(4)])
}

/// log of `JubjubExtended::multiply` (the 252-step double-and-add): argument point, scalar bytes, answer
pub static mut JJ_MUL: crate::ffi::Log<20, 1, 2> = crate::ffi::Log::new();
pub static mut JJ_MUL_BY: [u8; 32] = [0; 32];
/// replaces the private `JubjubExtended::multiply(self, by)`: answers an ARBITRARY extended point (all 20 limbs free)
pub fn jj_multiply_oracle(p: JubjubExtended, by: &[u8; 32]) -> JubjubExtended {
    let out: [u64; 20] = crate::vk::any();
    unsafe {
        JJ_MUL.rec([jj_limbs(&p)], out, false);
        JJ_MUL_BY = *by;
    }
    jj_from_limbs(&out)
}

/// log of `JubjubExtended::double`
pub static mut JJ_DBL: crate::ffi::Log<20, 1, 2> = crate::ffi::Log::new();
pub fn jj_double_oracle(p: &JubjubExtended) -> JubjubExtended {
    let out: [u64; 20] = crate::vk::any();
    unsafe { JJ_DBL.rec([jj_limbs(p)], out, false) };
    jj_from_limbs(&out)
}
