//! Rust-level stubs that do not change behaviour (only cost): error construction without boxing.
use std::io;

/// `io::Error::new(kind, msg)` -> `io::Error::from(kind)`: same kind, no heap-allocated payload.
pub fn io_error_new<E>(kind: io::ErrorKind, _error: E) -> io::Error
where
    E: Into<Box<dyn std::error::Error + Send + Sync>>,
{
    io::Error::from(kind)
}

/// `zeroize::optimization_barrier` is an empty `asm!` statement (a compiler barrier, no semantics); Kani does
/// not support inline assembly. `blst_scalar` is zeroized on drop, so every harness that builds one needs this.
pub fn noop_barrier<T: ?Sized>(_val: &T) {}
