//! Rust-level stubs that do not change behaviour (only cost): error construction without boxing.
use std::io;

/// `io::Error::new(kind, msg)` -> `io::Error::from(kind)`: same kind, no heap-allocated payload.
pub fn io_error_new<E>(kind: io::ErrorKind, _error: E) -> io::Error
where
    E: Into<Box<dyn std::error::Error + Send + Sync>>,
{
    io::Error::from(kind)
}

/// `zeroize::optimization_barrier` is an empty `asm!` statement (a compiler barrier, no semantics); Kani does
/// not support inline assembly. `blst_scalar` is zeroized on drop, so every harness that builds one needs this.
pub fn noop_barrier<T: ?Sized>(_val: &T) {}

/// Square root as an oracle: replaces `ff::helpers::sqrt_tonelli_shanks` (used by `Fq::sqrt`). Answers
/// nondeterministically (is_some, root) and records the radicand it was asked about.
/// Rust-level stub: Kani only. The native replay cannot apply it, so harnesses using it are registered
/// with `replay=False` (a FAILED verdict stays INCONCLUSIVE).
pub static mut SQRT: crate::ffi::Log<4, 1, 2> = crate::ffi::Log::new();
pub fn sqrt_oracle<F: ff::PrimeField, S: AsRef<[u64]>>(f: &F, _tm1d2: S) -> subtle::CtOption<F> {
    assert!(core::mem::size_of::<F>() == 32);
    let arg: [u64; 4] = unsafe { core::mem::transmute_copy(f) };
    let ans: bool = crate::vk::any();
    let out: [u64; 4] = crate::vk::any();
    unsafe { SQRT.rec([arg], out, ans) };
    let root: F = unsafe { core::mem::transmute_copy(&out) };
    subtle::CtOption::new(root, subtle::Choice::from(ans as u8))
}
