//! Hand-constructed REAL-blst demonstrations that accompany the oracle-level findings (native only,
//! `replay_real --witness <name>`): exit 1 = the real library shows the defect, 0 = it does not.
//! These are corroboration, not verdicts: the verdict comes from the Kani harness + its replay.
use group::UncompressedEncoding;
use midnight_curves::serde::SerdeObject;
use midnight_curves::{CurveAffine, G1Affine};

fn hex(s: &str) -> Vec<u8> {
    (0..s.len() / 2).map(|i| u8::from_str_radix(&s[2 * i..2 * i + 2], 16).unwrap()).collect()
}

/// (4, sqrt(4^3 + 4)) lies on y^2 = x^3 + 4 over Fp but r * P != O (computed with python big integers).
pub const G1_ON_CURVE_NOT_IN_SUBGROUP: &str = "0000000000000000000000000000000000000000000000000000000000000000000000000000000000000000000000040a989badd40d6212b33cffc3f3763e9bc760f988c9926b26da9dd85e928483446346b8ed00e1de5d5ea93e354abe706c";

pub fn run(name: &str) -> i32 {
    match name {
        "g1-uncompressed-subgroup" => {
            let b = hex(G1_ON_CURVE_NOT_IN_SUBGROUP);
            let mut u = <G1Affine as UncompressedEncoding>::Uncompressed::default();
            u.as_mut().copy_from_slice(&b);
            let a = <G1Affine as UncompressedEncoding>::from_uncompressed(&u);
            let s = <G1Affine as SerdeObject>::from_raw_bytes(&b);
            let mut rd: &[u8] = &b;
            let r = <G1Affine as SerdeObject>::read_raw(&mut rd);
            let acc = bool::from(a.is_some()) && s.is_some() && r.is_ok();
            println!("from_uncompressed.is_some={} from_raw_bytes.is_some={} read_raw.is_ok={}", bool::from(a.is_some()), s.is_some(), r.is_ok());
            if acc {
                let p = s.unwrap();
                let (on, tf) = (bool::from(CurveAffine::is_on_curve(&p)), bool::from(p.is_torsion_free()));
                println!("accepted point: is_on_curve={on} is_torsion_free={tf}");
                return if on && !tf { 1 } else { 0 };
            }
            0
        }
        "print-jubjub-subgroup-generator" => {
            use ff::PrimeField;
            use group::{Curve, Group};
            let g = midnight_curves::JubjubSubgroup::generator();
            let a: midnight_curves::JubjubAffine = midnight_curves::JubjubExtended::from(g).to_affine();
            println!("u={:?} v={:?}", a.get_u().to_repr(), a.get_v().to_repr());
            0
        }
        _ => {
            println!("unknown witness {name}");
            4
        }
    }
}


/// Oracle concretisation for the compressed projective decoders (`--scenario decode-offsubgroup g1p|g2p`):
/// searches a small x-coordinate whose unchecked decompression gives a curve point OUTSIDE the prime-order
/// subgroup and runs the REAL checked decoder `GroupEncoding::from_bytes` of the projective type on it.
/// exit 1 = the real decoder accepts a point outside the subgroup, 0 = it rejects.
pub fn decode_offsubgroup(which: &str) -> i32 {
    use group::GroupEncoding;
    use midnight_curves::{G1Affine, G1Projective, G2Affine, G2Projective};
    for x in 1u32..400 {
        for sign in [0u8, 0x20] {
            match which {
                "g1p" => {
                    let mut b = [0u8; 48];
                    b[44..48].copy_from_slice(&x.to_be_bytes());
                    b[0] |= 0x80 | sign;
                    let mut r = <G1Affine as GroupEncoding>::Repr::default();
                    r.as_mut().copy_from_slice(&b);
                    let p: Option<G1Affine> = Option::from(G1Affine::from_bytes_unchecked(&r));
                    let Some(p) = p else { continue };
                    if bool::from(p.is_torsion_free()) {
                        continue;
                    }
                    let mut rp = <G1Projective as GroupEncoding>::Repr::default();
                    rp.as_mut().copy_from_slice(&b);
                    let acc = bool::from(G1Projective::from_bytes(&rp).is_some());
                    println!("witness x={x} sign={sign:#x}: on E(Fp), outside G1; real G1Projective::from_bytes accepted={acc}");
                    return acc as i32;
                }
                "g2p" => {
                    // x = (c0 = x, c1 = 0): compressed G2 is c1 (48 bytes, flags in byte 0) followed by c0
                    let mut b = [0u8; 96];
                    b[92..96].copy_from_slice(&x.to_be_bytes());
                    b[0] |= 0x80 | sign;
                    let mut r = <G2Affine as GroupEncoding>::Repr::default();
                    r.as_mut().copy_from_slice(&b);
                    let p: Option<G2Affine> = Option::from(G2Affine::from_bytes_unchecked(&r));
                    let Some(p) = p else { continue };
                    if bool::from(p.is_torsion_free()) {
                        continue;
                    }
                    let mut rp = <G2Projective as GroupEncoding>::Repr::default();
                    rp.as_mut().copy_from_slice(&b);
                    let acc = bool::from(G2Projective::from_bytes(&rp).is_some());
                    println!("witness x=({x},0) sign={sign:#x}: on E'(Fp2), outside G2; real G2Projective::from_bytes accepted={acc}");
                    return acc as i32;
                }
                _ => return 4,
            }
        }
    }
    println!("no witness found");
    0
}
