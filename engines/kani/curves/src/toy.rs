//! TOY environment for the generic batch-affine code of `curves/src/msm.rs`: a prime field F_p with p = 13 or 31
//! in one byte and the short Weierstrass curve y^2 = x^3 + b over it, with just enough trait surface to satisfy
//! `C: CurveAffine`. `batch_add`, `Schedule`, `BucketAffine`, `Affine` only use `C::Base` arithmetic
//! (`+ - * square invert == ZERO ONE`) and carry `C` as a type parameter; every curve-level method they never call is
//! `unimplemented!()` (reaching one fails the harness). The toy types are the ENVIRONMENT the real generic code is
//! instantiated at, never the code under test; the reference group law in c12.rs is written from the textbook.
//!
//! Curves are chosen with ODD group order (no point with y = 0), like the prime-order groups the MSM is used with:
//! the doubling branch of `batch_add` divides by 2y.   (p, b, #E) = (13, 2, 19), (31, 3, 43).
use core::iter::{Product, Sum};
use core::ops::{Add, AddAssign, Mul, MulAssign, Neg, Sub, SubAssign};
use ff::{Field, PrimeField, WithSmallOrderMulGroup};
use group::prime::{PrimeCurve, PrimeCurveAffine, PrimeGroup};
use group::{Curve, Group, GroupEncoding};
use midnight_curves::{Coordinates, CurveAffine, CurveExt};
use rand_core::RngCore;
use subtle::{Choice, ConditionallySelectable, ConstantTimeEq, CtOption};

macro_rules! toy_field {
    ($F:ident, $W:ty, $p:expr, gen = $g:expr, s = $s:expr, root = $root:expr, root_inv = $rinv:expr, delta = $delta:expr,
     two_inv = $tinv:expr, zeta = $zeta:expr, modulus = $mstr:expr, bits = $bits:expr) => {
        #[derive(Clone, Copy, Debug, Default, PartialEq, Eq, Hash, PartialOrd, Ord)]
        pub struct $F(pub u8);
        impl $F {
            pub const P: u8 = $p;
            /// reduce a value < 2p by one conditional subtraction
            #[inline]
            pub const fn red1(x: $W) -> Self {
                $F((if x >= ($p as $W) { x - ($p as $W) } else { x }) as u8)
            }
            /// table of inverses (INV[0] = 0), computed at compile time by exhaustive search
            pub const INV: [u8; $p] = {
                let mut t = [0u8; $p];
                let mut a = 1usize;
                while a < $p {
                    let mut b = 1usize;
                    while b < $p {
                        if (a * b) % $p == 1 {
                            t[a] = b as u8;
                        }
                        b += 1;
                    }
                    a += 1;
                }
                t
            };
        }
        impl ConstantTimeEq for $F {
            fn ct_eq(&self, o: &Self) -> Choice {
                Choice::from((self.0 == o.0) as u8)
            }
        }
        impl ConditionallySelectable for $F {
            fn conditional_select(a: &Self, b: &Self, c: Choice) -> Self {
                if c.unwrap_u8() == 1 {
                    *b
                } else {
                    *a
                }
            }
        }
        impl Neg for $F {
            type Output = $F;
            fn neg(self) -> $F {
                $F::red1(($p as $W) - (self.0 as $W))
            }
        }
        impl<'a> Neg for &'a $F {
            type Output = $F;
            fn neg(self) -> $F {
                -*self
            }
        }
        impl Add for $F {
            type Output = $F;
            fn add(self, o: $F) -> $F {
                $F::red1(self.0 as $W + o.0 as $W)
            }
        }
        impl Sub for $F {
            type Output = $F;
            fn sub(self, o: $F) -> $F {
                $F::red1(self.0 as $W + ($p as $W) - o.0 as $W)
            }
        }
        impl Mul for $F {
            type Output = $F;
            fn mul(self, o: $F) -> $F {
                $F(((self.0 as $W * o.0 as $W) % ($p as $W)) as u8)
            }
        }
        impl<'a> Add<&'a $F> for $F {
            type Output = $F;
            fn add(self, o: &'a $F) -> $F {
                self + *o
            }
        }
        impl<'a> Sub<&'a $F> for $F {
            type Output = $F;
            fn sub(self, o: &'a $F) -> $F {
                self - *o
            }
        }
        impl<'a> Mul<&'a $F> for $F {
            type Output = $F;
            fn mul(self, o: &'a $F) -> $F {
                self * *o
            }
        }
        impl AddAssign for $F {
            fn add_assign(&mut self, o: $F) {
                *self = *self + o
            }
        }
        impl SubAssign for $F {
            fn sub_assign(&mut self, o: $F) {
                *self = *self - o
            }
        }
        impl MulAssign for $F {
            fn mul_assign(&mut self, o: $F) {
                *self = *self * o
            }
        }
        impl<'a> AddAssign<&'a $F> for $F {
            fn add_assign(&mut self, o: &'a $F) {
                *self = *self + *o
            }
        }
        impl<'a> SubAssign<&'a $F> for $F {
            fn sub_assign(&mut self, o: &'a $F) {
                *self = *self - *o
            }
        }
        impl<'a> MulAssign<&'a $F> for $F {
            fn mul_assign(&mut self, o: &'a $F) {
                *self = *self * *o
            }
        }
        impl Sum for $F {
            fn sum<I: Iterator<Item = $F>>(i: I) -> $F {
                i.fold($F(0), |a, b| a + b)
            }
        }
        impl<'a> Sum<&'a $F> for $F {
            fn sum<I: Iterator<Item = &'a $F>>(i: I) -> $F {
                i.fold($F(0), |a, b| a + *b)
            }
        }
        impl Product for $F {
            fn product<I: Iterator<Item = $F>>(i: I) -> $F {
                i.fold($F(1), |a, b| a * b)
            }
        }
        impl<'a> Product<&'a $F> for $F {
            fn product<I: Iterator<Item = &'a $F>>(i: I) -> $F {
                i.fold($F(1), |a, b| a * *b)
            }
        }
        impl From<u64> for $F {
            fn from(v: u64) -> $F {
                $F((v % ($p as u64)) as u8)
            }
        }
        impl Field for $F {
            const ZERO: Self = $F(0);
            const ONE: Self = $F(1);
            fn random(mut rng: impl RngCore) -> Self {
                $F::from(rng.next_u64())
            }
            fn square(&self) -> Self {
                *self * *self
            }
            fn double(&self) -> Self {
                *self + *self
            }
            /// inverse by table lookup (elements are always reduced: 0 <= self.0 < p)
            fn invert(&self) -> CtOption<Self> {
                CtOption::new($F(Self::INV[self.0 as usize]), Choice::from((self.0 != 0) as u8))
            }
            fn sqrt_ratio(_n: &Self, _d: &Self) -> (Choice, Self) {
                unimplemented!()
            }
        }
        impl PrimeField for $F {
            type Repr = [u8; 1];
            fn from_repr(r: [u8; 1]) -> CtOption<Self> {
                CtOption::new($F(r[0]), Choice::from((r[0] < $p) as u8))
            }
            fn to_repr(&self) -> [u8; 1] {
                [self.0]
            }
            fn is_odd(&self) -> Choice {
                Choice::from(self.0 & 1)
            }
            const MODULUS: &'static str = $mstr;
            const NUM_BITS: u32 = $bits;
            const CAPACITY: u32 = $bits - 1;
            const TWO_INV: Self = $F($tinv);
            const MULTIPLICATIVE_GENERATOR: Self = $F($g);
            const S: u32 = $s;
            const ROOT_OF_UNITY: Self = $F($root);
            const ROOT_OF_UNITY_INV: Self = $F($rinv);
            const DELTA: Self = $F($delta);
        }
        impl WithSmallOrderMulGroup<3> for $F {
            const ZETA: Self = $F($zeta);
        }
    };
}

// 13 - 1 = 2^2 * 3, generator 2: root = 2^3 = 8 (8^2 = -1), 8 * 5 = 1, delta = 2^4 = 3, zeta = 2^4 = 3 (3^3 = 1), 2 * 7 = 1
toy_field!(F13, u8, 13, gen = 2, s = 2, root = 8, root_inv = 5, delta = 3, two_inv = 7, zeta = 3, modulus = "0xd", bits = 4);
// 31 - 1 = 2 * 15, generator 3: root = 3^15 = -1, delta = 3^2 = 9, zeta = 3^10 = 25 (25^3 = 1), 2 * 16 = 1
toy_field!(F31, u16, 31, gen = 3, s = 1, root = 30, root_inv = 30, delta = 9, two_inv = 16, zeta = 25, modulus = "0x1f", bits = 5);

macro_rules! unimpl_op {
    ($Tr:ident, $m:ident, $L:ty, $R:ty, $O:ty) => {
        impl $Tr<$R> for $L {
            type Output = $O;
            fn $m(self, _o: $R) -> $O {
                unimplemented!()
            }
        }
        impl<'a> $Tr<&'a $R> for $L {
            type Output = $O;
            fn $m(self, _o: &'a $R) -> $O {
                unimplemented!()
            }
        }
    };
}
macro_rules! unimpl_assign {
    ($Tr:ident, $m:ident, $L:ty, $R:ty) => {
        impl $Tr<$R> for $L {
            fn $m(&mut self, _o: $R) {
                unimplemented!()
            }
        }
        impl<'a> $Tr<&'a $R> for $L {
            fn $m(&mut self, _o: &'a $R) {
                unimplemented!()
            }
        }
    };
}

macro_rules! toy_curve {
    ($A:ident, $J:ident, $F:ident, b = $b:expr) => {
        /// affine point: `inf` or (x, y)
        #[derive(Clone, Copy, Debug, Default, PartialEq, Eq)]
        pub struct $A {
            pub x: $F,
            pub y: $F,
            pub inf: bool,
        }
        /// "projective" companion type (only a type-level requirement of `CurveAffine`; never computed with)
        #[derive(Clone, Copy, Debug, Default, PartialEq, Eq)]
        pub struct $J(pub $A);

        impl $A {
            pub const B: $F = $F($b);
            pub fn on_curve(x: $F, y: $F) -> bool {
                y * y == x * x * x + Self::B
            }
        }
        impl ConstantTimeEq for $A {
            fn ct_eq(&self, o: &Self) -> Choice {
                Choice::from((self == o) as u8)
            }
        }
        impl ConditionallySelectable for $A {
            fn conditional_select(a: &Self, b: &Self, c: Choice) -> Self {
                if c.unwrap_u8() == 1 {
                    *b
                } else {
                    *a
                }
            }
        }
        impl ConstantTimeEq for $J {
            fn ct_eq(&self, o: &Self) -> Choice {
                Choice::from((self == o) as u8)
            }
        }
        impl ConditionallySelectable for $J {
            fn conditional_select(a: &Self, b: &Self, c: Choice) -> Self {
                if c.unwrap_u8() == 1 {
                    *b
                } else {
                    *a
                }
            }
        }
        impl Neg for $A {
            type Output = $A;
            fn neg(self) -> $A {
                $A { x: self.x, y: -self.y, inf: self.inf }
            }
        }
        impl Neg for $J {
            type Output = $J;
            fn neg(self) -> $J {
                $J(-self.0)
            }
        }
        impl From<$J> for $A {
            fn from(j: $J) -> $A {
                j.0
            }
        }
        impl From<$A> for $J {
            fn from(a: $A) -> $J {
                $J(a)
            }
        }
        impl Add for $A {
            type Output = $J;
            fn add(self, _o: $A) -> $J {
                unimplemented!()
            }
        }
        impl Sub for $A {
            type Output = $J;
            fn sub(self, _o: $A) -> $J {
                unimplemented!()
            }
        }
        unimpl_op!(Mul, mul, $A, $F, $J);
        unimpl_op!(Mul, mul, $J, $F, $J);
        unimpl_op!(Add, add, $J, $J, $J);
        unimpl_op!(Sub, sub, $J, $J, $J);
        unimpl_op!(Add, add, $J, $A, $J);
        unimpl_op!(Sub, sub, $J, $A, $J);
        unimpl_assign!(AddAssign, add_assign, $J, $J);
        unimpl_assign!(SubAssign, sub_assign, $J, $J);
        unimpl_assign!(AddAssign, add_assign, $J, $A);
        unimpl_assign!(SubAssign, sub_assign, $J, $A);
        unimpl_assign!(MulAssign, mul_assign, $J, $F);
        impl Sum for $J {
            fn sum<I: Iterator<Item = $J>>(_i: I) -> $J {
                unimplemented!()
            }
        }
        impl<'a> Sum<&'a $J> for $J {
            fn sum<I: Iterator<Item = &'a $J>>(_i: I) -> $J {
                unimplemented!()
            }
        }
        impl Group for $J {
            type Scalar = $F;
            fn random(_rng: impl RngCore) -> Self {
                unimplemented!()
            }
            fn identity() -> Self {
                $J($A { x: $F(0), y: $F(0), inf: true })
            }
            fn generator() -> Self {
                unimplemented!()
            }
            fn is_identity(&self) -> Choice {
                Choice::from(self.0.inf as u8)
            }
            fn double(&self) -> Self {
                unimplemented!()
            }
        }
        impl GroupEncoding for $J {
            type Repr = [u8; 2];
            fn from_bytes(_b: &[u8; 2]) -> CtOption<Self> {
                unimplemented!()
            }
            fn from_bytes_unchecked(_b: &[u8; 2]) -> CtOption<Self> {
                unimplemented!()
            }
            fn to_bytes(&self) -> [u8; 2] {
                unimplemented!()
            }
        }
        impl GroupEncoding for $A {
            type Repr = [u8; 2];
            fn from_bytes(_b: &[u8; 2]) -> CtOption<Self> {
                unimplemented!()
            }
            fn from_bytes_unchecked(_b: &[u8; 2]) -> CtOption<Self> {
                unimplemented!()
            }
            fn to_bytes(&self) -> [u8; 2] {
                unimplemented!()
            }
        }
        impl PrimeGroup for $J {}
        impl Curve for $J {
            type AffineRepr = $A;
            fn to_affine(&self) -> $A {
                self.0
            }
        }
        impl PrimeCurve for $J {
            type Affine = $A;
        }
        impl PrimeCurveAffine for $A {
            type Scalar = $F;
            type Curve = $J;
            fn identity() -> Self {
                $A { x: $F(0), y: $F(0), inf: true }
            }
            fn generator() -> Self {
                unimplemented!()
            }
            fn is_identity(&self) -> Choice {
                Choice::from(self.inf as u8)
            }
            fn to_curve(&self) -> $J {
                $J(*self)
            }
        }
        impl CurveExt for $J {
            type ScalarExt = $F;
            type Base = $F;
            type AffineExt = $A;
            const CURVE_ID: &'static str = "toy";
            fn endo(&self) -> Self {
                unimplemented!()
            }
            fn jacobian_coordinates(&self) -> ($F, $F, $F) {
                unimplemented!()
            }
            fn hash_to_curve<'a>(_d: &'a str) -> Box<dyn Fn(&[u8]) -> Self + 'a> {
                unimplemented!()
            }
            fn is_on_curve(&self) -> Choice {
                unimplemented!()
            }
            fn a() -> $F {
                $F(0)
            }
            fn b() -> $F {
                $A::B
            }
            fn new_jacobian(_x: $F, _y: $F, _z: $F) -> CtOption<Self> {
                unimplemented!()
            }
        }
        impl CurveAffine for $A {
            type ScalarExt = $F;
            type Base = $F;
            type CurveExt = $J;
            fn coordinates(&self) -> CtOption<Coordinates<Self>> {
                Coordinates::from_xy(self.x, self.y)
            }
            fn from_xy(x: $F, y: $F) -> CtOption<Self> {
                CtOption::new($A { x, y, inf: false }, Choice::from($A::on_curve(x, y) as u8))
            }
            fn is_on_curve(&self) -> Choice {
                Choice::from((self.inf || $A::on_curve(self.x, self.y)) as u8)
            }
            fn a() -> $F {
                $F(0)
            }
            fn b() -> $F {
                $A::B
            }
        }
    };
}

/// what the harnesses need beyond `CurveAffine`: the field size and a cheap byte -> field element map
pub trait ToyCurve: CurveAffine {
    const P: u8;
    /// `v` must be < P
    fn fe(v: u8) -> Self::Base;
}

toy_curve!(A13, J13, F13, b = 2);
toy_curve!(A31, J31, F31, b = 3);

impl ToyCurve for A13 {
    const P: u8 = 13;
    fn fe(v: u8) -> F13 {
        F13(v)
    }
}
impl ToyCurve for A31 {
    const P: u8 = 31;
    fn fe(v: u8) -> F31 {
        F31(v)
    }
}

// ---------------------------------------------------------------------------------------------
// Toy base fields for the generic extension-field code of curves/src/ff_ext (hook H8): q = 3 mod 4 so that
// -1 is a quadratic non-residue (what Algorithm 9 of eprint 2012/685 assumes: i^2 = -1), and q = 1 mod 3 for
// the cubic extension (a cubic non-residue exists).
use midnight_curves::ff_ext::verif::{VerifCubicBase, VerifQuadBase};
use midnight_curves::ff_ext::ExtField;

// 7 - 1 = 2 * 3, generator 3: root = 3^3 = 6, delta = 3^2 = 2, zeta = 2 (2^3 = 1), 2 * 4 = 1
toy_field!(Q7, u8, 7, gen = 3, s = 1, root = 6, root_inv = 6, delta = 2, two_inv = 4, zeta = 2, modulus = "0x7", bits = 3);
// 11 - 1 = 2 * 5, generator 2: root = 2^5 = 10, delta = 4, 2 * 6 = 1; no primitive cube root of unity (zeta unused)
toy_field!(Q11, u8, 11, gen = 2, s = 1, root = 10, root_inv = 10, delta = 4, two_inv = 6, zeta = 1, modulus = "0xb", bits = 4);
// 19 - 1 = 2 * 9, generator 2: root = 2^9 = 18, delta = 4, zeta = 2^6 = 7 (7^3 = 1), 2 * 10 = 1
toy_field!(Q19, u16, 19, gen = 2, s = 1, root = 18, root_inv = 18, delta = 4, two_inv = 10, zeta = 7, modulus = "0x13", bits = 5);
// same field as Q7 but tagged with a CUBIC non-residue (cubes mod 7 are {0, 1, 6})
toy_field!(C7, u8, 7, gen = 3, s = 1, root = 6, root_inv = 6, delta = 2, two_inv = 4, zeta = 2, modulus = "0x7", bits = 3);

macro_rules! quad_base {
    ($F:ident, $q:expr) => {
        impl ExtField for $F {
            const NON_RESIDUE: Self = $F($q - 1); // -1
            fn frobenius_map(&mut self, _power: usize) {}
        }
        impl VerifQuadBase for $F {
            const Q_MINUS_3_OVER_4: &'static [u64] = &[($q - 3) / 4];
            const Q_MINUS_1_OVER_2: &'static [u64] = &[($q - 1) / 2];
        }
    };
}
quad_base!(Q7, 7);
quad_base!(Q11, 11);
quad_base!(Q19, 19);
impl ExtField for C7 {
    const NON_RESIDUE: Self = C7(3);
    fn frobenius_map(&mut self, _power: usize) {}
}
impl VerifCubicBase for C7 {}

/// what the tower harnesses need from a toy base field
pub trait ToyBase: ExtField {
    const Q: u8;
    /// `v` must be < Q
    fn fe(v: u8) -> Self;
}
macro_rules! toy_base {
    ($($F:ident = $q:expr),*) => {$(
        impl ToyBase for $F {
            const Q: u8 = $q;
            fn fe(v: u8) -> Self {
                $F(v)
            }
        }
    )*};
}
toy_base!(Q7 = 7, Q11 = 11, Q19 = 19, C7 = 7);

// ---------------------------------------------------------------------------------------------
// toy groups with a real group law and a separate scalar field for the window loop of msm_serial (notes/K4.md)
#[path = "toy_msm.rs"]
pub mod msm;
