//! Engine K harness crate for /repo/curves (midnight-curves): properties C10, C11, C12.
//! See /verif/notes/K.md. Every `#[kani::proof]` function also compiles natively (src/vk.rs) so that the
//! replay binaries can re-execute a solver counterexample on the real code.
#![allow(clippy::all)]
#![allow(static_mut_refs)]
#![allow(unused_unsafe)]
pub mod c10;
pub mod c11;
pub mod c12;
pub mod ffi;
pub mod registry;
pub mod stubs;
pub mod toy;
pub mod vk;
#[cfg(not(kani))]
pub mod witness;
