//! C10 (field types), engine K part.
//!
//! Pure-Rust fields (Jubjub `Fr`, Curve25519 `Fp`): decoder canonicity over ALL byte strings, and the
//! carry-chain operations (add, sub, neg, double, ct_eq, conditional_select, is_zero, Ord) against
//! plain multi-limb integer arithmetic mod the modulus for ALL canonical operands. Multiplication,
//! squaring, inversion and everything that needs a symbolic Montgomery product as a VALUE belong
//! to engine M (CBMC does not finish on a symbolic 256x256 product).
//!
//! blst-backed fields (BLS12-381 scalar field `Fq`, base field `Fp`): wrapper contracts with the blst
//! functions as recording nondeterministic oracles (src/ffi.rs), plus the canonicity tests that are
//! written in Rust (`Fq::from_repr_vartime`, `Fp::from_bytes_le`, `Fp::from_u64s_le`) over all inputs.
use crate::ffi::*;
use crate::vcover;
use crate::vk::*;
use core::cmp::Ordering;
use ff::{Field, PrimeField};
use midnight_curves::curve25519::Fp as CFp;
use midnight_curves::serde::SerdeObject;
use midnight_curves::{Fp as BFp, Fq as BFq, Fr as JFr};
use subtle::{Choice, ConditionallySelectable, ConstantTimeEq};

// moduli as little-endian limbs; computed independently of the repository's constants
pub const JFR_M: [u64; 4] = [0xd0970e5ed6f72cb7, 0xa6682093ccc81082, 0x06673b0101343b00, 0x0e7db4ea6533afa9];
pub const P25519: [u64; 4] = [0xffffffffffffffed, 0xffffffffffffffff, 0xffffffffffffffff, 0x7fffffffffffffff];
pub const BLS_Q: [u64; 4] = [0xffffffff00000001, 0x53bda402fffe5bfe, 0x3339d80809a1d805, 0x73eda753299d7d48];
pub const BLS_P: [u64; 6] = [
    0xb9feffffffffaaab, 0x1eabfffeb153ffff, 0x6730d2a0f6b0f624, 0x64774b84f38512bf, 0x4b1ba7b6434bacd7, 0x1a0111ea397fe69a,
];
/// 2^512 mod q and 2^768 mod q (python: pow(2,512,q), pow(2,768,q))
pub const BLS_Q_R2: [u64; 4] = [0xc999e990f3f29c6d, 0x2b6cedcb87925c23, 0x05d314967254398f, 0x0748d9d99f59ff11];
pub const BLS_Q_R3: [u64; 4] = [0xc62c1807439b73af, 0x1b3e0d188cf06990, 0x73d13c71c7b5f418, 0x6e2a5bb9c8db33e9];

fn jfr(l: [u64; 4]) -> JFr {
    JFr::verif_from_limbs(l)
}
fn jfr_l(x: &JFr) -> [u64; 4] {
    x.verif_limbs()
}
fn cfp(l: [u64; 4]) -> CFp {
    CFp(l)
}
fn cfp_l(x: &CFp) -> [u64; 4] {
    x.0
}
fn bfq(l: [u64; 4]) -> BFq {
    BFq::from(blst::blst_fr { l })
}
fn bfq_l(x: &BFq) -> [u64; 4] {
    blst::blst_fr::from(*x).l
}
fn bfp(l: [u64; 6]) -> BFp {
    BFp::from(blst::blst_fp { l })
}
fn bfp_l(x: &BFp) -> [u64; 6] {
    blst::blst_fp::from(*x).l
}

fn canon4(m: &[u64; 4]) -> [u64; 4] {
    let a: [u64; 4] = any();
    assume(lt_le_limbs(&a, m));
    a
}

/// The limb-level harness family shared by the two pure-Rust Montgomery fields.
macro_rules! pure_field_harnesses {
    ($F:ty, $mk:ident, $lm:ident, $M:expr,
     $ct_eq:ident, $csel:ident, $is_zero:ident, $add:ident, $sub:ident, $neg:ident, $double:ident, $cancel:ident, $cancel2:ident) => {
        /// `ct_eq` / `==` <=> limb equality (all 2^512 limb pairs, canonical or not)
        #[cfg_attr(kani, kani::proof)]
        #[cfg_attr(kani, kani::unwind(34))]
        pub fn $ct_eq() {
            let (a, b): ([u64; 4], [u64; 4]) = (any(), any());
            let (x, y) = ($mk(a), $mk(b));
            let same = a[0] == b[0] && a[1] == b[1] && a[2] == b[2] && a[3] == b[3];
            assert!(bool::from(x.ct_eq(&y)) == same);
            assert!((x == y) == same);
            vcover!(same);
            vcover!(!same);
        }
        /// `conditional_select(a, b, c)` = a if c == 0, b if c == 1
        #[cfg_attr(kani, kani::proof)]
        #[cfg_attr(kani, kani::unwind(34))]
        pub fn $csel() {
            let (a, b): ([u64; 4], [u64; 4]) = (any(), any());
            let c: bool = any();
            let r = <$F>::conditional_select(&$mk(a), &$mk(b), Choice::from(c as u8));
            assert!($lm(&r) == if c { b } else { a });
            vcover!(c && a != b);
            vcover!(!c && a != b);
        }
        /// `is_zero` <=> all limbs zero; `ZERO` has all limbs zero
        #[cfg_attr(kani, kani::proof)]
        #[cfg_attr(kani, kani::unwind(34))]
        pub fn $is_zero() {
            let a: [u64; 4] = any();
            let z: bool = $mk(a).is_zero().into();
            assert!(z == is_zero_n(&a));
            assert!($lm(&<$F>::ZERO) == [0u64; 4]);
            vcover!(z);
            vcover!(!z);
        }
        /// a + b == (a + b) mod m as integers, for all canonical a, b; result canonical
        #[cfg_attr(kani, kani::proof)]
        #[cfg_attr(kani, kani::unwind(34))]
        pub fn $add() {
            let (a, b) = (canon4(&$M), canon4(&$M));
            let r = $lm(&($mk(a) + $mk(b)));
            assert!(r == addmod(&a, &b, &$M));
            assert!(lt_le_limbs(&r, &$M));
            vcover!(!lt_le_limbs(&addn(&a, &b).0, &$M));
            vcover!(lt_le_limbs(&addn(&a, &b).0, &$M) && !addn(&a, &b).1);
        }
        /// a - b == (a - b) mod m as integers, for all canonical a, b; result canonical
        #[cfg_attr(kani, kani::proof)]
        #[cfg_attr(kani, kani::unwind(34))]
        pub fn $sub() {
            let (a, b) = (canon4(&$M), canon4(&$M));
            let r = $lm(&($mk(a) - $mk(b)));
            assert!(r == submod(&a, &b, &$M));
            assert!(lt_le_limbs(&r, &$M));
            vcover!(lt_le_limbs(&a, &b));
            vcover!(lt_le_limbs(&b, &a));
        }
        /// -a == (m - a) mod m, -0 == 0, result canonical
        #[cfg_attr(kani, kani::proof)]
        #[cfg_attr(kani, kani::unwind(34))]
        pub fn $neg() {
            let a = canon4(&$M);
            let r = $lm(&(-$mk(a)));
            assert!(r == negmod(&a, &$M));
            assert!(lt_le_limbs(&r, &$M));
            assert!($lm(&(-<$F>::ZERO)) == [0u64; 4]);
            vcover!(is_zero_n(&a));
            vcover!(!is_zero_n(&a));
        }
        /// double(a) == a + a == 2a mod m
        #[cfg_attr(kani, kani::proof)]
        #[cfg_attr(kani, kani::unwind(34))]
        pub fn $double() {
            let a = canon4(&$M);
            let d = $lm(&$mk(a).double());
            assert!(d == $lm(&($mk(a) + $mk(a))));
            assert!(d == addmod(&a, &a, &$M));
            vcover!(addn(&a, &a).1 || !lt_le_limbs(&addn(&a, &a).0, &$M));
            vcover!(lt_le_limbs(&addn(&a, &a).0, &$M));
        }
        /// -(-a) == a, a + (-a) == 0
        #[cfg_attr(kani, kani::proof)]
        #[cfg_attr(kani, kani::unwind(34))]
        pub fn $cancel() {
            let a = canon4(&$M);
            let x = $mk(a);
            assert!($lm(&(-(-x))) == a);
            assert!($lm(&(x + (-x))) == [0u64; 4]);
            vcover!(is_zero_n(&a));
            vcover!(!is_zero_n(&a));
        }
        /// (a - b) + b == a, (a + b) - b == a  (thorough: two chained carry chains are slow for the SAT solver)
        #[cfg_attr(kani, kani::proof)]
        #[cfg_attr(kani, kani::unwind(34))]
        pub fn $cancel2() {
            let (a, b) = (canon4(&$M), canon4(&$M));
            let (x, y) = ($mk(a), $mk(b));
            assert!($lm(&((x - y) + y)) == a);
            assert!($lm(&((x + y) - y)) == a);
            vcover!(lt_le_limbs(&a, &b));
            vcover!(lt_le_limbs(&b, &a));
        }
    };
}

pure_field_harnesses!(JFr, jfr, jfr_l, JFR_M, jfr_ct_eq, jfr_cond_select, jfr_is_zero, jfr_add, jfr_sub, jfr_neg, jfr_double, jfr_cancel, jfr_cancel2);
pure_field_harnesses!(CFp, cfp, cfp_l, P25519, cfp_ct_eq, cfp_cond_select, cfp_is_zero, cfp_add, cfp_sub, cfp_neg, cfp_double, cfp_cancel, cfp_cancel2);

// --------------------------------------------------------------------------- Jubjub Fr decoders

/// `Fr::from_repr(b).is_some() <=> b < r` over all 2^256 byte strings (also `from_bytes`)
#[cfg_attr(kani, kani::proof)]
#[cfg_attr(kani, kani::unwind(34))]
pub fn jfr_from_repr_canonical() {
    let b: [u8; 32] = any();
    let some: bool = JFr::from_repr(b).is_some().into();
    let some2: bool = JFr::from_bytes(&b).is_some().into();
    let lt = lt_le_limbs(&limbs_of_bytes::<4, 32>(&b), &JFR_M);
    assert!(some == lt);
    assert!(some2 == lt);
    vcover!(some);
    vcover!(!some);
}

/// `to_repr(from_repr(b)) == b` whenever `from_repr(b)` is `Some` (thorough: needs a symbolic x constant product)
#[cfg_attr(kani, kani::proof)]
#[cfg_attr(kani, kani::unwind(34))]
pub fn jfr_repr_roundtrip() {
    let b: [u8; 32] = any();
    let r = JFr::from_repr(b);
    let some: bool = r.is_some().into();
    if some {
        assert!(r.unwrap().to_repr() == b);
    }
    vcover!(some);
}

/// `Ord`/`PartialOrd` agree with the integer order of `to_repr` (both sides evaluate `to_repr` on the same operands)
#[cfg_attr(kani, kani::proof)]
#[cfg_attr(kani, kani::unwind(34))]
pub fn jfr_ord() {
    let (a, b) = (canon4(&JFR_M), canon4(&JFR_M));
    let (x, y) = (jfr(a), jfr(b));
    let o = x.cmp(&y);
    let spec = cmp_le_bytes(&x.to_repr(), &y.to_repr());
    assert!(o == spec);
    assert!(x.partial_cmp(&y) == Some(spec));
    vcover!(o == Ordering::Less);
    vcover!(o == Ordering::Greater);
}

// --------------------------------------------------------------------------- Curve25519 Fp decoders

/// `from_repr` / `from_bytes` are `Some` <=> b < 2^255 - 19, all 2^256 byte strings
#[cfg_attr(kani, kani::proof)]
#[cfg_attr(kani, kani::unwind(34))]
pub fn cfp_from_repr_canonical() {
    let b: [u8; 32] = any();
    let some: bool = CFp::from_repr(b.into()).is_some().into();
    let lt = lt_le_limbs(&limbs_of_bytes::<4, 32>(&b), &P25519);
    assert!(some == lt);
    vcover!(some);
    vcover!(!some);
}

/// same for the inherent `Fp::from_bytes`
#[cfg_attr(kani, kani::proof)]
#[cfg_attr(kani, kani::unwind(34))]
pub fn cfp_from_bytes_canonical() {
    let b: [u8; 32] = any();
    let some: bool = CFp::from_bytes(&b).is_some().into();
    let lt = lt_le_limbs(&limbs_of_bytes::<4, 32>(&b), &P25519);
    assert!(some == lt);
    vcover!(some);
    vcover!(!some);
}

/// SerdeObject::from_raw_bytes (checked): `Some` <=> length 32 and Montgomery limbs < p; value = the limbs;
/// from_raw_bytes_unchecked = the limbs; to_raw_bytes inverts it.
#[cfg_attr(kani, kani::proof)]
#[cfg_attr(kani, kani::unwind(34))]
pub fn cfp_from_raw_bytes_canonical() {
    let b: [u8; 32] = any();
    let l = limbs_of_bytes::<4, 32>(&b);
    let r = <CFp as SerdeObject>::from_raw_bytes(&b);
    assert!(r.is_some() == lt_le_limbs(&l, &P25519));
    if let Some(x) = r {
        assert!(x.0 == l);
    }
    let u = <CFp as SerdeObject>::from_raw_bytes_unchecked(&b);
    assert!(u.0 == l);
    vcover!(r.is_some());
    vcover!(r.is_none());
}

/// from_raw_bytes rejects every slice whose length is not 32
#[cfg_attr(kani, kani::proof)]
#[cfg_attr(kani, kani::unwind(42))]
pub fn cfp_from_raw_bytes_len() {
    let b: [u8; 40] = any();
    let n: usize = any();
    assume(n <= 40 && n != 32);
    assert!(<CFp as SerdeObject>::from_raw_bytes(&b[..n]).is_none());
    vcover!(n > 32);
    vcover!(n < 32);
}

/// SerdeObject::read_raw: Ok <=> limbs < p (32 bytes available)
#[cfg_attr(kani, kani::proof)]
#[cfg_attr(kani, kani::unwind(34))]
pub fn cfp_read_raw_canonical() {
    let b: [u8; 32] = any();
    let l = limbs_of_bytes::<4, 32>(&b);
    let mut rd: &[u8] = &b;
    let r = <CFp as SerdeObject>::read_raw(&mut rd);
    let ok = r.is_ok();
    assert!(ok == lt_le_limbs(&l, &P25519));
    if let Ok(x) = &r {
        assert!(x.0 == l);
    }
    vcover!(ok);
    vcover!(!ok);
    core::mem::forget(r);
}

/// to_raw_bytes(from_raw_bytes_unchecked(b)) == b
#[cfg_attr(kani, kani::proof)]
#[cfg_attr(kani, kani::unwind(34))]
pub fn cfp_raw_roundtrip() {
    let b: [u8; 32] = any();
    let u = <CFp as SerdeObject>::from_raw_bytes_unchecked(&b);
    let v = u.to_raw_bytes();
    assert!(v.len() == 32);
    let mut same = true;
    let mut i = 0;
    while i < 32 {
        same &= v[i] == b[i];
        i += 1;
    }
    assert!(same);
    vcover!(b[0] != 0);
    core::mem::forget(v);
}

#[cfg_attr(kani, kani::proof)]
#[cfg_attr(kani, kani::unwind(34))]
pub fn cfp_repr_roundtrip() {
    let b: [u8; 32] = any();
    let r = CFp::from_repr(b.into());
    let some: bool = r.is_some().into();
    if some {
        let back: [u8; 32] = r.unwrap().to_repr().into();
        assert!(back == b);
    }
    vcover!(some);
}

#[cfg_attr(kani, kani::proof)]
#[cfg_attr(kani, kani::unwind(34))]
pub fn cfp_ord() {
    let (a, b) = (canon4(&P25519), canon4(&P25519));
    let (x, y) = (cfp(a), cfp(b));
    let o = x.cmp(&y);
    let (rx, ry): ([u8; 32], [u8; 32]) = (x.to_repr().into(), y.to_repr().into());
    let spec = cmp_le_bytes(&rx, &ry);
    assert!(o == spec);
    assert!(x.partial_cmp(&y) == Some(spec));
    vcover!(o == Ordering::Less);
    vcover!(o == Ordering::Greater);
}

// --------------------------------------------------------------------------- BLS12-381 scalar field Fq (blst_fr)

/// from_bytes_le / from_repr: `Some` <=> blst_scalar_fr_check said yes FOR EXACTLY THESE BYTES;
/// the value is what blst_fr_from_uint64 returned for the little-endian limbs of these bytes.
#[cfg_attr(kani, kani::proof)]
#[cfg_attr(kani, kani::unwind(34))]
#[cfg_attr(kani, kani::stub(blst::blst_scalar_fr_check, stub_scalar_fr_check))]
#[cfg_attr(kani, kani::stub(zeroize::optimization_barrier, crate::stubs::noop_barrier))]
#[cfg_attr(kani, kani::stub(blst::blst_fr_from_uint64, stub_fr_from_uint64))]
pub fn bfq_from_bytes_le_contract() {
    let b: [u8; 32] = any();
    let via_repr: bool = any();
    let r = if via_repr { BFq::from_repr(b) } else { BFq::from_bytes_le(&b) };
    let some: bool = r.is_some().into();
    unsafe {
        assert!(FR_CHECK.n == 1 && FR_FROM_U64.n == 1);
        assert!(FR_CHECK.input == b);
        assert!(some == FR_CHECK.ok);
        assert!(FR_FROM_U64.a[0][0] == limbs_of_bytes::<4, 32>(&b));
        if some {
            assert!(bfq_l(&r.unwrap()) == FR_FROM_U64.r[0]);
        }
    }
    vcover!(some && via_repr);
    vcover!(some && !via_repr);
    vcover!(!some);
}

/// from_bytes_be = from_bytes_le on the reversed bytes
#[cfg_attr(kani, kani::proof)]
#[cfg_attr(kani, kani::unwind(34))]
#[cfg_attr(kani, kani::stub(blst::blst_scalar_fr_check, stub_scalar_fr_check))]
#[cfg_attr(kani, kani::stub(zeroize::optimization_barrier, crate::stubs::noop_barrier))]
#[cfg_attr(kani, kani::stub(blst::blst_fr_from_uint64, stub_fr_from_uint64))]
pub fn bfq_from_bytes_be_contract() {
    let b: [u8; 32] = any();
    let r = BFq::from_bytes_be(&b);
    let some: bool = r.is_some().into();
    let mut rev = [0u8; 32];
    let mut i = 0;
    while i < 32 {
        rev[i] = b[31 - i];
        i += 1;
    }
    unsafe {
        assert!(FR_CHECK.n == 1 && FR_CHECK.input == rev);
        assert!(some == FR_CHECK.ok);
        assert!(FR_FROM_U64.n == 1 && FR_FROM_U64.a[0][0] == limbs_of_bytes::<4, 32>(&rev));
        if some {
            assert!(bfq_l(&r.unwrap()) == FR_FROM_U64.r[0]);
        }
    }
    vcover!(some);
    vcover!(!some);
}

/// from_repr_vartime: the canonicity test is in Rust (`is_valid`): `Some` <=> b < q, all 2^256 byte strings
#[cfg_attr(kani, kani::proof)]
#[cfg_attr(kani, kani::unwind(34))]
#[cfg_attr(kani, kani::stub(blst::blst_fr_from_uint64, stub_fr_from_uint64))]
pub fn bfq_from_repr_vartime_canonical() {
    let b: [u8; 32] = any();
    let l = limbs_of_bytes::<4, 32>(&b);
    let r = BFq::from_repr_vartime(b);
    assert!(r.is_some() == lt_le_limbs(&l, &BLS_Q));
    unsafe {
        if let Some(x) = r {
            assert!(FR_FROM_U64.n == 1 && FR_FROM_U64.a[0][0] == l && bfq_l(&x) == FR_FROM_U64.r[0]);
        }
    }
    vcover!(r.is_some());
    vcover!(r.is_none());
}

/// from_u64s_le: `Some` <=> the check oracle accepted the scalar that blst_scalar_from_uint64 produced from these limbs
#[cfg_attr(kani, kani::proof)]
#[cfg_attr(kani, kani::unwind(34))]
#[cfg_attr(kani, kani::stub(blst::blst_scalar_fr_check, stub_scalar_fr_check))]
#[cfg_attr(kani, kani::stub(zeroize::optimization_barrier, crate::stubs::noop_barrier))]
#[cfg_attr(kani, kani::stub(blst::blst_scalar_from_uint64, stub_scalar_from_uint64))]
#[cfg_attr(kani, kani::stub(blst::blst_fr_from_scalar, stub_fr_from_scalar))]
pub fn bfq_from_u64s_le_contract() {
    let l: [u64; 4] = any();
    let r = BFq::from_u64s_le(&l);
    let some: bool = r.is_some().into();
    unsafe {
        assert!(SCALAR_FROM_U64.n == 1 && SCALAR_FROM_U64.out == l);
        assert!(FR_CHECK.n == 1 && FR_CHECK.input == SCALAR_FROM_U64.input);
        assert!(some == FR_CHECK.ok);
        assert!(FR_FROM_SCALAR.n == 1 && FR_FROM_SCALAR.input == SCALAR_FROM_U64.input);
        if some {
            assert!(bfq_l(&r.unwrap()) == FR_FROM_SCALAR.out);
        }
    }
    vcover!(some);
    vcover!(!some);
}

/// TryInto<Fq> for blst_scalar: Ok <=> check oracle said yes for that scalar
#[cfg_attr(kani, kani::proof)]
#[cfg_attr(kani, kani::unwind(34))]
#[cfg_attr(kani, kani::stub(blst::blst_scalar_fr_check, stub_scalar_fr_check))]
#[cfg_attr(kani, kani::stub(zeroize::optimization_barrier, crate::stubs::noop_barrier))]
#[cfg_attr(kani, kani::stub(blst::blst_fr_from_scalar, stub_fr_from_scalar))]
pub fn bfq_try_from_scalar_contract() {
    use core::convert::TryInto;
    let b: [u8; 32] = any();
    let s = blst::blst_scalar { b };
    let r: Result<BFq, _> = s.try_into();
    unsafe {
        assert!(FR_CHECK.n == 1 && FR_CHECK.input == b);
        assert!(r.is_ok() == FR_CHECK.ok);
        if let Ok(x) = &r {
            assert!(FR_FROM_SCALAR.n == 1 && FR_FROM_SCALAR.input == b && bfq_l(x) == FR_FROM_SCALAR.out);
        }
    }
    vcover!(r.is_ok());
    vcover!(r.is_err());
}

/// to_bytes_le / to_repr = little-endian bytes of the limbs blst_uint64_from_fr wrote for this element; to_bytes_be the reverse
#[cfg_attr(kani, kani::proof)]
#[cfg_attr(kani, kani::unwind(34))]
#[cfg_attr(kani, kani::stub(blst::blst_uint64_from_fr, stub_uint64_from_fr))]
pub fn bfq_to_bytes_contract() {
    let a: [u64; 4] = any();
    let x = bfq(a);
    let which: u8 = any();
    assume(which < 3);
    let out = if which == 0 {
        x.to_bytes_le()
    } else if which == 1 {
        x.to_repr()
    } else {
        let mut be = x.to_bytes_be();
        be.reverse();
        be
    };
    unsafe {
        assert!(U64_FROM_FR.n == 1 && U64_FROM_FR.a[0][0] == a);
        assert!(out == limbs4_to_bytes(&U64_FROM_FR.r[0]));
    }
    vcover!(which == 0);
    vcover!(which == 1);
    vcover!(which == 2);
}

/// Ord: integer order of the two `to_bytes_be` answers (first call = self, second = other)
#[cfg_attr(kani, kani::proof)]
#[cfg_attr(kani, kani::unwind(34))]
#[cfg_attr(kani, kani::stub(blst::blst_uint64_from_fr, stub_uint64_from_fr))]
pub fn bfq_ord_contract() {
    let (a, b): ([u64; 4], [u64; 4]) = (any(), any());
    let o = bfq(a).cmp(&bfq(b));
    unsafe {
        assert!(U64_FROM_FR.n == 2);
        assert!(U64_FROM_FR.a[0][0] == a && U64_FROM_FR.a[1][0] == b);
        let (ra, rb) = (U64_FROM_FR.r[0], U64_FROM_FR.r[1]);
        let spec = if lt_le_limbs(&ra, &rb) {
            Ordering::Less
        } else if lt_le_limbs(&rb, &ra) {
            Ordering::Greater
        } else {
            Ordering::Equal
        };
        assert!(o == spec);
    }
    vcover!(o == Ordering::Less);
    vcover!(o == Ordering::Greater);
    vcover!(o == Ordering::Equal);
}

/// ct_eq / == / is_zero / conditional_select on the raw limbs (pure Rust)
#[cfg_attr(kani, kani::proof)]
#[cfg_attr(kani, kani::unwind(34))]
pub fn bfq_eq_select() {
    let (a, b): ([u64; 4], [u64; 4]) = (any(), any());
    let c: bool = any();
    let (x, y) = (bfq(a), bfq(b));
    let same = a[0] == b[0] && a[1] == b[1] && a[2] == b[2] && a[3] == b[3];
    assert!(bool::from(x.ct_eq(&y)) == same);
    assert!((x == y) == same);
    assert!(bool::from(x.is_zero()) == is_zero_n(&a));
    let r = BFq::conditional_select(&x, &y, Choice::from(c as u8));
    assert!(bfq_l(&r) == if c { b } else { a });
    vcover!(same);
    vcover!(!same && c);
    vcover!(!same && !c);
}

/// from_uniform_bytes(b) = add(mul(lo, R2), mul(hi, R3)) with lo/hi the little-endian halves and
/// R2 = 2^512 mod q, R3 = 2^768 mod q (the blst multiplication/addition are uninterpreted oracles)
#[cfg_attr(kani, kani::proof)]
#[cfg_attr(kani, kani::unwind(66))]
#[cfg_attr(kani, kani::stub(blst::blst_fr_mul, stub_fr_mul))]
#[cfg_attr(kani, kani::stub(blst::blst_fr_add, stub_fr_add))]
pub fn bfq_from_uniform_bytes_contract() {
    use ff::FromUniformBytes;
    let b: [u8; 64] = any();
    let mut lo = [0u8; 32];
    let mut hi = [0u8; 32];
    let mut i = 0;
    while i < 32 {
        lo[i] = b[i];
        hi[i] = b[32 + i];
        i += 1;
    }
    let r = <BFq as FromUniformBytes<64>>::from_uniform_bytes(&b);
    unsafe {
        assert!(FR_MUL.n == 2 && FR_ADD.n == 1);
        assert!(FR_MUL.a[0][0] == limbs_of_bytes::<4, 32>(&lo) && FR_MUL.a[0][1] == BLS_Q_R2);
        assert!(FR_MUL.a[1][0] == limbs_of_bytes::<4, 32>(&hi) && FR_MUL.a[1][1] == BLS_Q_R3);
        assert!(FR_ADD.a[0][0] == FR_MUL.r[0] && FR_ADD.a[0][1] == FR_MUL.r[1]);
        assert!(bfq_l(&r) == FR_ADD.r[0]);
    }
    vcover!(b[0] != b[63]);
}

/// SerdeObject::from_raw_bytes is the CHECKED decoder of the trait ("Returns None if the bytes do not
/// represent a valid object"): it must reject Montgomery limbs >= q. [expected to FAIL on the pinned tree]
#[cfg_attr(kani, kani::proof)]
#[cfg_attr(kani, kani::unwind(34))]
pub fn bfq_from_raw_bytes_rejects_noncanonical() {
    let b: [u8; 32] = any();
    let r = <BFq as SerdeObject>::from_raw_bytes(&b);
    if r.is_some() {
        assert!(lt_le_limbs(&limbs_of_bytes::<4, 32>(&b), &BLS_Q), "Fq::from_raw_bytes accepted limbs >= q");
    }
    vcover!(r.is_some());
}

/// SerdeObject::read_raw (checked): Ok only for limbs < q. [expected to FAIL on the pinned tree]
#[cfg_attr(kani, kani::proof)]
#[cfg_attr(kani, kani::unwind(34))]
pub fn bfq_read_raw_rejects_noncanonical() {
    let b: [u8; 32] = any();
    let mut rd: &[u8] = &b;
    let r = <BFq as SerdeObject>::read_raw(&mut rd);
    let ok = r.is_ok();
    if ok {
        assert!(lt_le_limbs(&limbs_of_bytes::<4, 32>(&b), &BLS_Q), "Fq::read_raw accepted limbs >= q");
    }
    vcover!(ok);
    core::mem::forget(r);
}

/// raw plumbing: from_raw_bytes_unchecked = LE limbs; from_raw_bytes(len != 32) = None; to_raw_bytes inverts
#[cfg_attr(kani, kani::proof)]
#[cfg_attr(kani, kani::unwind(42))]
pub fn bfq_raw_plumbing() {
    let b: [u8; 40] = any();
    let n: usize = any();
    assume(n <= 40);
    let r = <BFq as SerdeObject>::from_raw_bytes(&b[..n]);
    if n != 32 {
        assert!(r.is_none());
    } else {
        let mut b32 = [0u8; 32];
        let mut i = 0;
        while i < 32 {
            b32[i] = b[i];
            i += 1;
        }
        let l = limbs_of_bytes::<4, 32>(&b32);
        assert!(bfq_l(&<BFq as SerdeObject>::from_raw_bytes_unchecked(&b32)) == l);
        if let Some(x) = r {
            assert!(bfq_l(&x) == l);
            let v = x.to_raw_bytes();
            assert!(v.len() == 32);
            let mut same = true;
            let mut i = 0;
            while i < 32 {
                same &= v[i] == b32[i];
                i += 1;
            }
            assert!(same);
            core::mem::forget(v);
        }
    }
    vcover!(n == 32 && r.is_some());
    vcover!(n < 32);
    vcover!(n > 32);
}

// --------------------------------------------------------------------------- BLS12-381 base field Fp (blst_fp)

/// from_bytes_le / from_repr: canonicity test is in Rust (`is_valid`): `Some` <=> b < p over all 2^384 byte strings;
/// value = what blst_fp_from_lendian returned for exactly these bytes
#[cfg_attr(kani, kani::proof)]
#[cfg_attr(kani, kani::unwind(50))]
#[cfg_attr(kani, kani::stub(blst::blst_fp_from_lendian, stub_fp_from_lendian))]
pub fn bfp_from_bytes_le_canonical() {
    let b: [u8; 48] = any();
    let via_repr: bool = any();
    let r = if via_repr { BFp::from_repr(b.into()) } else { BFp::from_bytes_le(&b) };
    let some: bool = r.is_some().into();
    assert!(some == lt_le_limbs(&limbs_of_bytes::<6, 48>(&b), &BLS_P));
    unsafe {
        assert!(FP_FROM_LE.n == 1 && FP_FROM_LE.input == b);
        if some {
            assert!(bfp_l(&r.unwrap()) == FP_FROM_LE.out);
        }
    }
    vcover!(some && via_repr);
    vcover!(some && !via_repr);
    vcover!(!some);
}

/// from_bytes_be: `Some` <=> big-endian integer < p
#[cfg_attr(kani, kani::proof)]
#[cfg_attr(kani, kani::unwind(50))]
#[cfg_attr(kani, kani::stub(blst::blst_fp_from_lendian, stub_fp_from_lendian))]
pub fn bfp_from_bytes_be_canonical() {
    let b: [u8; 48] = any();
    let r = BFp::from_bytes_be(&b);
    let some: bool = r.is_some().into();
    let mut rev = [0u8; 48];
    let mut i = 0;
    while i < 48 {
        rev[i] = b[47 - i];
        i += 1;
    }
    assert!(some == lt_le_limbs(&limbs_of_bytes::<6, 48>(&rev), &BLS_P));
    unsafe {
        assert!(FP_FROM_LE.n == 1 && FP_FROM_LE.input == rev);
        if some {
            assert!(bfp_l(&r.unwrap()) == FP_FROM_LE.out);
        }
    }
    vcover!(some);
    vcover!(!some);
}

/// from_u64s_le: `Some` <=> limbs < p (Rust `is_valid_u64`), value = blst_fp_from_uint64 answer for these limbs
#[cfg_attr(kani, kani::proof)]
#[cfg_attr(kani, kani::unwind(50))]
#[cfg_attr(kani, kani::stub(blst::blst_fp_from_uint64, stub_fp_from_uint64))]
pub fn bfp_from_u64s_le_canonical() {
    let l: [u64; 6] = any();
    let r = BFp::from_u64s_le(&l);
    let some: bool = r.is_some().into();
    assert!(some == lt_le_limbs(&l, &BLS_P));
    unsafe {
        assert!(FP_FROM_U64.n == 1 && FP_FROM_U64.a[0][0] == l);
        if some {
            assert!(bfp_l(&r.unwrap()) == FP_FROM_U64.r[0]);
        }
    }
    vcover!(some);
    vcover!(!some);
}

/// to_bytes_le / to_repr / to_bytes_be plumbing
#[cfg_attr(kani, kani::proof)]
#[cfg_attr(kani, kani::unwind(50))]
#[cfg_attr(kani, kani::stub(blst::blst_lendian_from_fp, stub_lendian_from_fp))]
pub fn bfp_to_bytes_contract() {
    let a: [u64; 6] = any();
    let x = bfp(a);
    let which: u8 = any();
    assume(which < 3);
    let out: [u8; 48] = if which == 0 {
        x.to_bytes_le()
    } else if which == 1 {
        let r = x.to_repr();
        let mut o = [0u8; 48];
        o.copy_from_slice(r.as_ref());
        o
    } else {
        let mut be = x.to_bytes_be();
        be.reverse();
        be
    };
    unsafe {
        assert!(LE_FROM_FP.n == 1 && LE_FROM_FP.a[0][0] == a);
        assert!(out == limbs6_to_bytes(&LE_FROM_FP.r[0]));
    }
    vcover!(which == 0);
    vcover!(which == 1);
    vcover!(which == 2);
}

#[cfg_attr(kani, kani::proof)]
#[cfg_attr(kani, kani::unwind(50))]
#[cfg_attr(kani, kani::stub(blst::blst_lendian_from_fp, stub_lendian_from_fp))]
pub fn bfp_ord_contract() {
    let (a, b): ([u64; 6], [u64; 6]) = (any(), any());
    let o = bfp(a).cmp(&bfp(b));
    unsafe {
        assert!(LE_FROM_FP.n == 2);
        assert!(LE_FROM_FP.a[0][0] == a && LE_FROM_FP.a[1][0] == b);
        let (ra, rb) = (LE_FROM_FP.r[0], LE_FROM_FP.r[1]);
        let spec = if lt_le_limbs(&ra, &rb) {
            Ordering::Less
        } else if lt_le_limbs(&rb, &ra) {
            Ordering::Greater
        } else {
            Ordering::Equal
        };
        assert!(o == spec);
    }
    vcover!(o == Ordering::Less);
    vcover!(o == Ordering::Greater);
    vcover!(o == Ordering::Equal);
}

#[cfg_attr(kani, kani::proof)]
#[cfg_attr(kani, kani::unwind(50))]
pub fn bfp_eq_select() {
    let (a, b): ([u64; 6], [u64; 6]) = (any(), any());
    let c: bool = any();
    let (x, y) = (bfp(a), bfp(b));
    let mut same = true;
    let mut i = 0;
    while i < 6 {
        same &= a[i] == b[i];
        i += 1;
    }
    assert!(bool::from(x.ct_eq(&y)) == same);
    assert!((x == y) == same);
    assert!(bool::from(x.is_zero()) == is_zero_n(&a));
    let r = BFp::conditional_select(&x, &y, Choice::from(c as u8));
    assert!(bfp_l(&r) == if c { b } else { a });
    vcover!(same);
    vcover!(!same && c);
    vcover!(!same && !c);
}

/// SerdeObject::from_raw_bytes (checked) must reject Montgomery limbs >= p. [expected to FAIL on the pinned tree]
#[cfg_attr(kani, kani::proof)]
#[cfg_attr(kani, kani::unwind(50))]
pub fn bfp_from_raw_bytes_rejects_noncanonical() {
    let b: [u8; 48] = any();
    let r = <BFp as SerdeObject>::from_raw_bytes(&b);
    if r.is_some() {
        assert!(lt_le_limbs(&limbs_of_bytes::<6, 48>(&b), &BLS_P), "Fp::from_raw_bytes accepted limbs >= p");
    }
    vcover!(r.is_some());
}

#[cfg_attr(kani, kani::proof)]
#[cfg_attr(kani, kani::unwind(50))]
pub fn bfp_read_raw_rejects_noncanonical() {
    let b: [u8; 48] = any();
    let mut rd: &[u8] = &b;
    let r = <BFp as SerdeObject>::read_raw(&mut rd);
    let ok = r.is_ok();
    if ok {
        assert!(lt_le_limbs(&limbs_of_bytes::<6, 48>(&b), &BLS_P), "Fp::read_raw accepted limbs >= p");
    }
    vcover!(ok);
    core::mem::forget(r);
}

#[cfg_attr(kani, kani::proof)]
#[cfg_attr(kani, kani::unwind(58))]
pub fn bfp_raw_plumbing() {
    let b: [u8; 56] = any();
    let n: usize = any();
    assume(n <= 56);
    let r = <BFp as SerdeObject>::from_raw_bytes(&b[..n]);
    if n != 48 {
        assert!(r.is_none());
    } else {
        let mut b48 = [0u8; 48];
        let mut i = 0;
        while i < 48 {
            b48[i] = b[i];
            i += 1;
        }
        let l = limbs_of_bytes::<6, 48>(&b48);
        assert!(bfp_l(&<BFp as SerdeObject>::from_raw_bytes_unchecked(&b48)) == l);
        if let Some(x) = r {
            assert!(bfp_l(&x) == l);
            let v = x.to_raw_bytes();
            assert!(v.len() == 48);
            let mut same = true;
            let mut i = 0;
            while i < 48 {
                same &= v[i] == b48[i];
                i += 1;
            }
            assert!(same);
            core::mem::forget(v);
        }
    }
    vcover!(n == 48 && r.is_some());
    vcover!(n < 48);
    vcover!(n > 48);
}

// --------------------------------------------------------------------------- BLS12-381 Fp2 decoder

/// `Fp2::from_repr` (PrimeField, the checked decoder of the quadratic extension) is total: it returns
/// `Some` exactly when both 48-byte halves are below p and never panics. [expected to FAIL on the pinned tree:
/// it unwraps the two `CtOption<Fp>` halves and always answers `Choice::from(1)`]
#[cfg_attr(kani, kani::proof)]
#[cfg_attr(kani, kani::unwind(98))]
#[cfg_attr(kani, kani::stub(blst::blst_fp_from_lendian, stub_fp_from_lendian))]
pub fn bfp2_from_repr_total() {
    use midnight_curves::bls12_381::Fp2;
    let b: [u8; 96] = any();
    let (mut lo, mut hi) = ([0u8; 48], [0u8; 48]);
    let mut i = 0;
    while i < 48 {
        lo[i] = b[i];
        hi[i] = b[48 + i];
        i += 1;
    }
    let mut repr = <Fp2 as PrimeField>::Repr::default();
    repr.as_mut().copy_from_slice(&b);
    let r = Fp2::from_repr(repr);
    let some: bool = r.is_some().into();
    let canonical = lt_le_limbs(&limbs_of_bytes::<6, 48>(&lo), &BLS_P) && lt_le_limbs(&limbs_of_bytes::<6, 48>(&hi), &BLS_P);
    assert!(some == canonical, "Fp2::from_repr accepted a non-canonical half");
    vcover!(some);
}

// =============================================================================================
// Generic extension-field code of curves/src/ff_ext (QuadExtField, sqrt_algo9, CubicExtField) instantiated at TOY
// base fields F_q (src/toy.rs, hook H8), against the schoolbook definitions, for EVERY element. The code is generic
// in the base field and only uses its field operations, so genericity is what carries the statement to the
// 254-bit towers; the toy field is the bound.
use crate::toy::{ToyBase, C7, Q11, Q19, Q7};
use midnight_curves::ff_ext::cubic::CubicExtField;
use midnight_curves::ff_ext::quadratic::QuadExtField;
use midnight_curves::ff_ext::verif::{VerifCubicBase, VerifQuadBase};
use midnight_curves::ff_ext::ExtField;

fn any_fe<F: ToyBase>() -> F {
    let v: u8 = any();
    assume(v < F::Q);
    F::fe(v)
}

/// schoolbook product in F[u]/(u^2 - NON_RESIDUE)
fn sb2_mul<F: ToyBase>(a: (F, F), b: (F, F)) -> (F, F) {
    (a.0 * b.0 + F::NON_RESIDUE * (a.1 * b.1), a.0 * b.1 + a.1 * b.0)
}

/// QuadExtField<F>: add, sub, neg, double, mul, square, conjugate, norm, invert, is_zero, frobenius_map
/// against the schoolbook definitions, all pairs of elements
fn quad_arith<F: ToyBase + VerifQuadBase>() {
    let (a, b): ((F, F), (F, F)) = ((any_fe(), any_fe()), (any_fe(), any_fe()));
    let (x, y) = (QuadExtField::new(a.0, a.1), QuadExtField::new(b.0, b.1));
    let mk = |p: (F, F)| QuadExtField::new(p.0, p.1);
    assert!(x + y == mk((a.0 + b.0, a.1 + b.1)));
    assert!(x - y == mk((a.0 - b.0, a.1 - b.1)));
    assert!(-x == mk((-a.0, -a.1)));
    assert!(Field::double(&x) == mk((a.0 + a.0, a.1 + a.1)));
    assert!(x * y == mk(sb2_mul(a, b)), "QuadExtField mul differs from the schoolbook product");
    assert!(Field::square(&x) == mk(sb2_mul(a, a)), "QuadExtField square differs from x*x");
    let mut c = x;
    c.conjugate();
    assert!(c == mk((a.0, -a.1)));
    assert!(x.norm() == a.0 * a.0 - F::NON_RESIDUE * (a.1 * a.1));
    let zero = a.0 == F::ZERO && a.1 == F::ZERO;
    assert!(bool::from(Field::is_zero(&x)) == zero);
    let inv = Field::invert(&x);
    assert!(bool::from(inv.is_some()) == !zero);
    if !zero {
        assert!(inv.unwrap() * x == QuadExtField::<F>::ONE, "QuadExtField invert: x * x^-1 != 1");
    }
    // frobenius_map(1) is x -> x^q (q-th power by repeated schoolbook multiplication), frobenius_map(2) the identity
    let mut p = (F::ONE, F::ZERO);
    let mut i = 0;
    while i < F::Q {
        p = sb2_mul(p, a);
        i += 1;
    }
    let mut f1 = x;
    f1.frobenius_map(1);
    assert!(f1 == mk(p), "frobenius_map(1) is not the q-th power");
    let mut f2 = x;
    f2.frobenius_map(2);
    assert!(f2 == x);
    vcover!(zero);
    vcover!(!zero && a.1 != F::ZERO && b.1 != F::ZERO);
}

/// `Field::sqrt` of QuadExtField<F> (Algorithm 9 of eprint 2012/685): Some exactly for the squares of F_{q^2}
/// (reference: exhaustive search over all q^2 candidates with the schoolbook product), and then root^2 = e
fn quad_sqrt<F: ToyBase + VerifQuadBase>() {
    let e: (F, F) = (any_fe(), any_fe());
    let x = QuadExtField::new(e.0, e.1);
    let r = Field::sqrt(&x);
    let some: bool = r.is_some().into();
    let root = r.unwrap_or(QuadExtField::<F>::ZERO);
    let mut exists = false;
    let mut root_ok = false;
    let mut i = 0;
    while i < F::Q {
        let mut j = 0;
        while j < F::Q {
            let y = (F::fe(i), F::fe(j));
            let is_root = sb2_mul(y, y) == e;
            exists |= is_root;
            if QuadExtField::new(y.0, y.1) == root {
                root_ok = is_root;
            }
            j += 1;
        }
        i += 1;
    }
    assert!(some == exists, "sqrt is Some for a non-square or None for a square");
    if some {
        assert!(root_ok, "sqrt returned x with x^2 != e");
    }
    vcover!(some && e.1 == F::ZERO && e.0 != F::ZERO, "square root of a base-field element");
    vcover!(some && e.1 != F::ZERO);
    vcover!(!some);
}

macro_rules! quad_harness {
    ($($arith:ident, $sqrt:ident = $F:ty),*) => {$(
        #[cfg_attr(kani, kani::proof)]
        #[cfg_attr(kani, kani::unwind(22))]
        pub fn $arith() {
            quad_arith::<$F>()
        }
        #[cfg_attr(kani, kani::proof)]
        #[cfg_attr(kani, kani::unwind(66))]
        pub fn $sqrt() {
            quad_sqrt::<$F>()
        }
    )*};
}
quad_harness!(quad_arith_q7, quad_sqrt_q7 = Q7, quad_arith_q11, quad_sqrt_q11 = Q11, quad_arith_q19, quad_sqrt_q19 = Q19);

/// schoolbook product in F[v]/(v^3 - NON_RESIDUE)
fn sb3_mul<F: ToyBase>(a: (F, F, F), b: (F, F, F)) -> (F, F, F) {
    let n = F::NON_RESIDUE;
    (
        a.0 * b.0 + n * (a.1 * b.2 + a.2 * b.1),
        a.0 * b.1 + a.1 * b.0 + n * (a.2 * b.2),
        a.0 * b.2 + a.1 * b.1 + a.2 * b.0,
    )
}

/// CubicExtField<F>: add, sub, neg, double, mul, square, invert against the schoolbook definitions, all pairs
fn cubic_arith<F: ToyBase + VerifCubicBase>() {
    let a: (F, F, F) = (any_fe(), any_fe(), any_fe());
    let b: (F, F, F) = (any_fe(), any_fe(), any_fe());
    let mk = |p: (F, F, F)| CubicExtField::new(p.0, p.1, p.2);
    let (x, y) = (mk(a), mk(b));
    assert!(x + y == mk((a.0 + b.0, a.1 + b.1, a.2 + b.2)));
    assert!(x - y == mk((a.0 - b.0, a.1 - b.1, a.2 - b.2)));
    assert!(-x == mk((-a.0, -a.1, -a.2)));
    assert!(Field::double(&x) == mk((a.0 + a.0, a.1 + a.1, a.2 + a.2)));
    assert!(x * y == mk(sb3_mul(a, b)), "CubicExtField mul differs from the schoolbook product");
    assert!(Field::square(&x) == mk(sb3_mul(a, a)), "CubicExtField square differs from x*x");
    let zero = a.0 == F::ZERO && a.1 == F::ZERO && a.2 == F::ZERO;
    let inv = Field::invert(&x);
    assert!(bool::from(inv.is_some()) == !zero);
    if !zero {
        assert!(inv.unwrap() * x == CubicExtField::<F>::ONE, "CubicExtField invert: x * x^-1 != 1");
    }
    vcover!(zero);
    vcover!(!zero && a.2 != F::ZERO && b.2 != F::ZERO);
}

#[cfg_attr(kani, kani::proof)]
#[cfg_attr(kani, kani::unwind(10))]
pub fn cubic_arith_c7() {
    cubic_arith::<C7>()
}

/// `Field::is_zero` of CubicExtField<F> holds exactly for the zero element. [expected to FAIL on the pinned tree:
/// the generic impl tests c0 and c1 only]
#[cfg_attr(kani, kani::proof)]
#[cfg_attr(kani, kani::unwind(10))]
pub fn cubic_is_zero_c7() {
    let a: (C7, C7, C7) = (any_fe(), any_fe(), any_fe());
    let x = CubicExtField::new(a.0, a.1, a.2);
    let zero = a.0 == C7::ZERO && a.1 == C7::ZERO && a.2 == C7::ZERO;
    assert!(bool::from(Field::is_zero(&x)) == zero, "CubicExtField::is_zero is true for a non-zero element");
    vcover!(zero);
    vcover!(!zero);
}
