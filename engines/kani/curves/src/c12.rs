//! C12, engine K part: the Booth window recoding `get_booth_index` (hook H5) that `msm_serial` and
//! `msm_best` rely on, for ALL scalars.
//!
//! Specification (written from the definition of signed Booth recoding, not from the code): with
//! b_k the k-th bit of the little-endian scalar (b_k = 0 for k < 0 and beyond the slice),
//!     d_i = sum_{j<c} b_{ic+j} 2^j  +  b_{ic-1}  -  2^c b_{ic+c-1}
//! so that sum_i d_i 2^{ci} telescopes to the scalar as soon as the top bit of the last window is 0.
use crate::vcover;
use crate::vk::{any, assume};
use midnight_curves::msm::verif_get_booth_index;

fn bit(el: &[u8], k: isize) -> i64 {
    if k < 0 || (k as usize) / 8 >= el.len() {
        0
    } else {
        ((el[(k as usize) / 8] >> ((k as usize) % 8)) & 1) as i64
    }
}

pub fn booth_spec(el: &[u8], i: usize, c: usize) -> i64 {
    let base = (i * c) as isize;
    let mut h: i64 = 0;
    let mut j = 0;
    while j < c {
        h += bit(el, base + j as isize) << j;
        j += 1;
    }
    h + bit(el, base - 1) - (bit(el, base + c as isize - 1) << c)
}

/// all 32-byte scalars, window size c, every window index 0..=256/c (msm_serial uses 0..=8*len/c, msm_best 0..=NUM_BITS/c):
/// digit == Booth definition, |digit| <= 2^(c-1) (bucket index |d|-1 < 2^(c-1) = number of buckets)
fn booth_digit(c: usize) {
    let el: [u8; 32] = any();
    let i: usize = any();
    assume(i <= 256 / c);
    let d = verif_get_booth_index(i, c, &el) as i64;
    assert!(d == booth_spec(&el, i, c), "digit differs from the Booth definition");
    let half = 1i64 << (c - 1);
    assert!(d <= half && d >= -half, "digit out of bucket range");
    if d != 0 {
        assert!(((if d < 0 { -d } else { d }) as usize) - 1 < (1usize << (c - 1)));
    }
    vcover!(d < 0);
    vcover!(d > 0);
    vcover!(i == 256 / c);
    vcover!(i == 0 && d != 0);
}

macro_rules! booth_harness {
    ($($name:ident = $c:expr),*) => {$(
        #[cfg_attr(kani, kani::proof)]
        #[cfg_attr(kani, kani::unwind(18))]
        pub fn $name() {
            booth_digit($c)
        }
    )*};
}
booth_harness!(
    booth_c1 = 1, booth_c2 = 2, booth_c3 = 3, booth_c4 = 4, booth_c5 = 5, booth_c6 = 6, booth_c7 = 7, booth_c8 = 8,
    booth_c9 = 9, booth_c10 = 10, booth_c11 = 11, booth_c12 = 12, booth_c13 = 13, booth_c14 = 14, booth_c15 = 15,
    booth_c16 = 16
);

/// msm_serial only visits windows 0..=8m/c where m = number of significant bytes of the largest scalar:
/// for every scalar whose bytes >= m are zero, every window above that is 0 (nothing is lost) and the last
/// visited window is non-negative (its borrow bit is beyond the scalar, so the sum telescopes exactly).
#[cfg_attr(kani, kani::proof)]
#[cfg_attr(kani, kani::unwind(34))]
pub fn booth_windows_above_are_zero() {
    let mut el: [u8; 32] = any();
    let m: usize = any();
    assume(m <= 32);
    let mut k = 0;
    while k < 32 {
        if k >= m {
            el[k] = 0;
        }
        k += 1;
    }
    let c: usize = any();
    assume(c >= 1 && c <= 16);
    let last = 8 * m / c; // number_of_windows - 1 in msm_serial
    let i: usize = any();
    assume(i >= last && i <= 300);
    let d = verif_get_booth_index(i, c, &el);
    if i > last {
        assert!(d == 0, "a window that msm_serial skips carries a non-zero digit");
    } else {
        assert!(d >= 0, "the top window has a negative digit: the borrow would be lost");
    }
    vcover!(i == last && d > 0);
    vcover!(i > last && m == 32);
    vcover!(m == 0);
}

/// msm_best visits windows 0..=NUM_BITS/c: for scalars below 2^255 (Fq: NUM_BITS = 255) the top window is
/// non-negative and the next one is zero; same for 2^252 (Jubjub Fr: NUM_BITS = 252).
#[cfg_attr(kani, kani::proof)]
#[cfg_attr(kani, kani::unwind(34))]
pub fn booth_top_window_msm_best() {
    let mut el: [u8; 32] = any();
    let jubjub: bool = any();
    let nbits: usize = if jubjub { 252 } else { 255 };
    if jubjub {
        el[31] &= 0x0f;
    } else {
        el[31] &= 0x7f;
    }
    let c: usize = any();
    assume(c >= 1 && c <= 16);
    let last = nbits / c;
    let next: bool = any();
    let d = verif_get_booth_index(if next { last + 1 } else { last }, c, &el);
    if next {
        assert!(d == 0);
    } else {
        assert!(d >= 0);
    }
    vcover!(!next && d > 0);
    vcover!(next);
}

/// Telescoping on short scalars (the function takes any slice): for ALL 4-byte scalars,
/// sum_{i=0}^{32/c} d_i 2^{ci} == scalar (msm_serial's window count for 4 significant bytes).
fn booth_telescopes(c: usize) {
    let el: [u8; 4] = any();
    let n = 32 / c + 1;
    let mut acc: i64 = 0;
    let mut i = 0;
    while i < n {
        let d = verif_get_booth_index(i, c, &el) as i64;
        acc += d << (c * i);
        i += 1;
    }
    assert!(acc == u32::from_le_bytes(el) as i64, "Booth digits do not sum to the scalar");
    vcover!(el[3] >= 0x80);
    vcover!(el[0] & 1 == 1);
}

macro_rules! telescope_harness {
    ($($name:ident = $c:expr),*) => {$(
        #[cfg_attr(kani, kani::proof)]
        #[cfg_attr(kani, kani::unwind(35))]
        pub fn $name() {
            booth_telescopes($c)
        }
    )*};
}
telescope_harness!(
    booth_telescope_c1 = 1, booth_telescope_c2 = 2, booth_telescope_c3 = 3, booth_telescope_c4 = 4, booth_telescope_c5 = 5,
    booth_telescope_c7 = 7, booth_telescope_c8 = 8, booth_telescope_c11 = 11, booth_telescope_c13 = 13, booth_telescope_c16 = 16
);
