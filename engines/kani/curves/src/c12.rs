//! C12, engine K part: the Booth window recoding `get_booth_index` (hook H5) that `msm_serial` and
//! `msm_best` rely on, for ALL scalars.
//!
//! Specification (written from the definition of signed Booth recoding, not from the code): with
//! b_k the k-th bit of the little-endian scalar (b_k = 0 for k < 0 and beyond the slice),
//!     d_i = sum_{j<c} b_{ic+j} 2^j  +  b_{ic-1}  -  2^c b_{ic+c-1}
//! so that sum_i d_i 2^{ci} telescopes to the scalar as soon as the top bit of the last window is 0.
use crate::vcover;
use crate::vk::{any, assume};
use midnight_curves::msm::verif_get_booth_index;

fn bit(el: &[u8], k: isize) -> i64 {
    if k < 0 || (k as usize) / 8 >= el.len() {
        0
    } else {
        ((el[(k as usize) / 8] >> ((k as usize) % 8)) & 1) as i64
    }
}

pub fn booth_spec(el: &[u8], i: usize, c: usize) -> i64 {
    let base = (i * c) as isize;
    let mut h: i64 = 0;
    let mut j = 0;
    while j < c {
        h += bit(el, base + j as isize) << j;
        j += 1;
    }
    h + bit(el, base - 1) - (bit(el, base + c as isize - 1) << c)
}

/// all 32-byte scalars, window size c, every window index 0..=256/c (msm_serial uses 0..=8*len/c, msm_best 0..=NUM_BITS/c):
/// digit == Booth definition, |digit| <= 2^(c-1) (bucket index |d|-1 < 2^(c-1) = number of buckets)
fn booth_digit(c: usize) {
    let el: [u8; 32] = any();
    let i: usize = any();
    assume(i <= 256 / c);
    let d = verif_get_booth_index(i, c, &el) as i64;
    assert!(d == booth_spec(&el, i, c), "digit differs from the Booth definition");
    let half = 1i64 << (c - 1);
    assert!(d <= half && d >= -half, "digit out of bucket range");
    if d != 0 {
        assert!(((if d < 0 { -d } else { d }) as usize) - 1 < (1usize << (c - 1)));
    }
    vcover!(d < 0);
    vcover!(d > 0);
    vcover!(i == 256 / c);
    vcover!(i == 0 && d != 0);
}

macro_rules! booth_harness {
    ($($name:ident = $c:expr),*) => {$(
        #[cfg_attr(kani, kani::proof)]
        #[cfg_attr(kani, kani::unwind(18))]
        pub fn $name() {
            booth_digit($c)
        }
    )*};
}
booth_harness!(
    booth_c1 = 1, booth_c2 = 2, booth_c3 = 3, booth_c4 = 4, booth_c5 = 5, booth_c6 = 6, booth_c7 = 7, booth_c8 = 8,
    booth_c9 = 9, booth_c10 = 10, booth_c11 = 11, booth_c12 = 12, booth_c13 = 13, booth_c14 = 14, booth_c15 = 15,
    booth_c16 = 16
);

/// msm_serial only visits windows 0..=8m/c where m = number of significant bytes of the largest scalar:
/// for every scalar whose bytes >= m are zero, every window above that is 0 (nothing is lost) and the last
/// visited window is non-negative (its borrow bit is beyond the scalar, so the sum telescopes exactly).
#[cfg_attr(kani, kani::proof)]
#[cfg_attr(kani, kani::unwind(34))]
pub fn booth_windows_above_are_zero() {
    let mut el: [u8; 32] = any();
    let m: usize = any();
    assume(m <= 32);
    let mut k = 0;
    while k < 32 {
        if k >= m {
            el[k] = 0;
        }
        k += 1;
    }
    let c: usize = any();
    assume(c >= 1 && c <= 16);
    let last = 8 * m / c; // number_of_windows - 1 in msm_serial
    let i: usize = any();
    assume(i >= last && i <= 300);
    let d = verif_get_booth_index(i, c, &el);
    if i > last {
        assert!(d == 0, "a window that msm_serial skips carries a non-zero digit");
    } else {
        assert!(d >= 0, "the top window has a negative digit: the borrow would be lost");
    }
    vcover!(i == last && d > 0);
    vcover!(i > last && m == 32);
    vcover!(m == 0);
}

/// msm_best visits windows 0..=NUM_BITS/c: for scalars below 2^255 (Fq: NUM_BITS = 255) the top window is
/// non-negative and the next one is zero; same for 2^252 (Jubjub Fr: NUM_BITS = 252).
#[cfg_attr(kani, kani::proof)]
#[cfg_attr(kani, kani::unwind(34))]
pub fn booth_top_window_msm_best() {
    let mut el: [u8; 32] = any();
    let jubjub: bool = any();
    let nbits: usize = if jubjub { 252 } else { 255 };
    if jubjub {
        el[31] &= 0x0f;
    } else {
        el[31] &= 0x7f;
    }
    let c: usize = any();
    assume(c >= 1 && c <= 16);
    let last = nbits / c;
    let next: bool = any();
    let d = verif_get_booth_index(if next { last + 1 } else { last }, c, &el);
    if next {
        assert!(d == 0);
    } else {
        assert!(d >= 0);
    }
    vcover!(!next && d > 0);
    vcover!(next);
}

/// Telescoping on short scalars (the function takes any slice): for ALL 4-byte scalars,
/// sum_{i=0}^{32/c} d_i 2^{ci} == scalar (msm_serial's window count for 4 significant bytes).
fn booth_telescopes(c: usize) {
    let el: [u8; 4] = any();
    let n = 32 / c + 1;
    let mut acc: i64 = 0;
    let mut i = 0;
    while i < n {
        let d = verif_get_booth_index(i, c, &el) as i64;
        acc += d << (c * i);
        i += 1;
    }
    assert!(acc == u32::from_le_bytes(el) as i64, "Booth digits do not sum to the scalar");
    vcover!(el[3] >= 0x80);
    vcover!(el[0] & 1 == 1);
}

macro_rules! telescope_harness {
    ($($name:ident = $c:expr),*) => {$(
        #[cfg_attr(kani, kani::proof)]
        #[cfg_attr(kani, kani::unwind(35))]
        pub fn $name() {
            booth_telescopes($c)
        }
    )*};
}
telescope_harness!(
    booth_telescope_c1 = 1, booth_telescope_c2 = 2, booth_telescope_c3 = 3, booth_telescope_c4 = 4, booth_telescope_c5 = 5,
    booth_telescope_c7 = 7, booth_telescope_c8 = 8, booth_telescope_c11 = 11, booth_telescope_c13 = 13, booth_telescope_c16 = 16
);

// =============================================================================================
// Batch-affine bucket accumulation of msm_best (hook H7): the REAL generic `batch_add` and `Schedule`
// instantiated at a toy curve (src/toy.rs), against the textbook affine group law, for EVERY point of
// the toy curve. The code is generic in `C: CurveAffine` and uses only `C::Base` field arithmetic, so
// genericity is what carries the statement to BLS12-381; the toy field is the bound.
use crate::toy::{ToyCurve, A13, A31};
use ff::Field;
use midnight_curves::msm::verif::{verif_batch_add, VerifSchedule};
use midnight_curves::CurveAffine;

type Pt<C> = Option<(<C as CurveAffine>::Base, <C as CurveAffine>::Base)>;

/// any non-identity point of the toy curve y^2 = x^3 + b over F_p
fn any_point<C: ToyCurve>() -> (C::Base, C::Base) {
    let (x, y): (u8, u8) = (any(), any());
    assume(x < C::P && y < C::P);
    let (x, y) = (C::fe(x), C::fe(y));
    assume(y * y == x * x * x + C::b());
    (x, y)
}

fn ref_neg<C: CurveAffine>(p: Pt<C>) -> Pt<C> {
    match p {
        None => None,
        Some((x, y)) => Some((x, -y)),
    }
}

/// textbook affine group law (a = 0)
fn ref_add<C: CurveAffine>(p: Pt<C>, q: Pt<C>) -> Pt<C> {
    match (p, q) {
        (None, q) => q,
        (p, None) => p,
        (Some((x1, y1)), Some((x2, y2))) => {
            let lambda = if x1 == x2 {
                if y1 + y2 == C::Base::ZERO {
                    return None;
                }
                (x1 * x1 + x1 * x1 + x1 * x1) * (y1 + y1).invert().unwrap()
            } else {
                (y2 - y1) * (x2 - x1).invert().unwrap()
            };
            let x3 = lambda * lambda - x1 - x2;
            Some((x3, lambda * (x1 - x3) - y1))
        }
    }
}

/// `batch_add(size = N, ..)` with N live schedule points on pairwise distinct, non-identity buckets (what `Schedule::add`
/// guarantees: it assigns to empty buckets directly, and `msm_best` diverts a bucket that is already pending), two symbolic
/// bases (so a base may repeat), symbolic signs, NB >= N buckets of which the unscheduled ones may be the identity:
/// every scheduled bucket ends as (old bucket) + (sign ? base : -base) by the textbook law, the others are unchanged.
fn batch_add_matches_group_law<C: ToyCurve, const N: usize, const NB: usize>() {
    let bases = [any_point::<C>(), any_point::<C>()];
    let mut buckets: [Pt<C>; NB] = [None; NB];
    let mut j = 0;
    while j < NB {
        let inf: bool = any();
        let pt = any_point::<C>();
        buckets[j] = if inf { None } else { Some(pt) };
        j += 1;
    }
    let old = buckets;
    let mut pts = [(0usize, 0usize, false); N];
    let mut touched = [false; NB];
    let mut k = 0;
    while k < N {
        let (bi, bk): (usize, usize) = (any(), any());
        let sign: bool = any();
        assume(bi < 2 && bk < NB);
        assume(buckets[bk].is_some() && !touched[bk]);
        touched[bk] = true;
        pts[k] = (bi, bk, sign);
        k += 1;
    }
    verif_batch_add::<C>(N, &mut buckets, &pts, &bases);
    let mut k = 0;
    while k < N {
        let (bi, bk, sign) = pts[k];
        let b: Pt<C> = Some(bases[bi]);
        let expected = ref_add::<C>(old[bk], if sign { b } else { ref_neg::<C>(b) });
        assert!(buckets[bk] == expected, "batch_add: bucket differs from (old bucket) +/- base by the affine group law");
        k += 1;
    }
    let mut j = 0;
    while j < NB {
        assert!(touched[j] || buckets[j] == old[j], "batch_add changed a bucket that was not scheduled");
        j += 1;
    }
    // the interesting cases are reachable (stated on the LAST schedule point: it shares the inversion with all earlier ones)
    let (bi, bk, sign) = pts[N - 1];
    let b: Pt<C> = Some(bases[bi]);
    let o = old[bk];
    vcover!(o == b && sign, "doubling, sign = true");
    vcover!(o == ref_neg::<C>(b) && !sign, "doubling of -base, sign = false");
    vcover!(o == b && !sign, "cancellation P + (-P)");
    vcover!(o != b && o != ref_neg::<C>(b), "generic addition");
    vcover!(N < 2 || (pts[0].0 == bi && pts[0].2 != sign), "repeated base with opposite signs in one batch");
    vcover!(NB == N || old[NB - 1].is_none(), "an identity bucket next to the batch");
}

#[cfg_attr(kani, kani::proof)]
#[cfg_attr(kani, kani::unwind(10))]
pub fn batch_add_p13_n1() {
    batch_add_matches_group_law::<A13, 1, 2>()
}
#[cfg_attr(kani, kani::proof)]
#[cfg_attr(kani, kani::unwind(10))]
pub fn batch_add_p13_n2() {
    batch_add_matches_group_law::<A13, 2, 2>()
}
#[cfg_attr(kani, kani::proof)]
#[cfg_attr(kani, kani::unwind(10))]
pub fn batch_add_p13_n3() {
    batch_add_matches_group_law::<A13, 3, 3>()
}
#[cfg_attr(kani, kani::proof)]
#[cfg_attr(kani, kani::unwind(10))]
pub fn batch_add_p31_n2() {
    batch_add_matches_group_law::<A31, 2, 2>()
}
/// The scheduler around it, driven exactly as `msm_best` drives it: for each (base, bucket, sign) either the bucket is
/// already in the pending set (`contains`) and `msm_best` adds the point to its separate Jacobian bucket (kept here as a
/// reference accumulator), or `Schedule::add` is called (direct assignment to an empty bucket, else a pending entry);
/// `execute` flushes. At the end (affine bucket) + (diverted points) == sum of all +/- bases sent to that bucket, the
/// pending set is empty, and an empty bucket that received one point holds exactly +/- that point.
fn schedule_matches_group_law<C: ToyCurve, const NOPS: usize>(idx: [(usize, usize); NOPS]) {
    // base and bucket indices are concrete per harness (symbolic indices into the heap-allocated bucket/schedule
    // vectors stall CBMC's symbolic execution); the points and the signs are symbolic
    let nops = NOPS;
    let bases = [any_point::<C>(), any_point::<C>()];
    let mut s = VerifSchedule::<C>::new(2, &bases); // c = 2: two buckets
    assert!(s.num_buckets() == 2 && s.ptr() == 0);
    let mut diverted: [Pt<C>; 2] = [None; 2];
    let mut total: [Pt<C>; 2] = [None; 2];
    let mut n_div = 0;
    let mut n_aff1 = 0; // points that reached bucket 1 through Schedule::add
    let mut k = 0;
    while k < nops {
        let (bi, bk) = idx[k];
        let sign: bool = any();
        let b: Pt<C> = Some(bases[bi]);
        let sb = if sign { b } else { ref_neg::<C>(b) };
        total[bk] = ref_add::<C>(total[bk], sb);
        if s.contains(bk) {
            diverted[bk] = ref_add::<C>(diverted[bk], sb);
            n_div += 1;
        } else {
            if bk == 1 {
                n_aff1 += 1;
            }
            let was_empty = s.bucket(bk).is_none();
            let before = s.ptr();
            s.add(bi, bk, sign);
            if was_empty {
                assert!(s.bucket(bk) == sb && s.ptr() == before, "an empty bucket takes the point directly");
            } else {
                assert!(s.ptr() == before + 1 && s.contains(bk), "a non-empty bucket gets a pending entry");
            }
        }
        k += 1;
    }
    s.execute();
    assert!(s.ptr() == 0);
    let mut j = 0;
    while j < 2 {
        assert!(ref_add::<C>(s.bucket(j), diverted[j]) == total[j], "scheduler: bucket differs from the sum of the points sent to it");
        j += 1;
    }
    vcover!(n_aff1 < 2 || s.bucket(1).is_none(), "assignment then a batched point that cancels it");
    vcover!(n_aff1 < 2 || (s.bucket(1).is_some() && bases[0] == bases[1]), "assignment then a batched doubling");
    vcover!(n_aff1 < 2 || (s.bucket(1).is_some() && bases[0] != bases[1]), "assignment then a batched addition");
    let _ = n_div;
}

/// both points go to bucket 1: direct assignment, then a pending entry, then the flush through batch_add
#[cfg_attr(kani, kani::proof)]
#[cfg_attr(kani, kani::unwind(66))]
pub fn schedule_p13_b11() {
    schedule_matches_group_law::<A13, 2>([(0, 1), (1, 1)])
}
/// three points to bucket 1: the third finds the bucket pending and is diverted (msm_best's Jacobian bucket)
#[cfg_attr(kani, kani::proof)]
#[cfg_attr(kani, kani::unwind(66))]
pub fn schedule_p13_b111() {
    schedule_matches_group_law::<A13, 3>([(0, 1), (1, 1), (0, 1)])
}
/// bucket 0 is always reported as pending (the default schedule entries carry buck_idx 0): its points are diverted
#[cfg_attr(kani, kani::proof)]
#[cfg_attr(kani, kani::unwind(66))]
pub fn schedule_p13_b10() {
    schedule_matches_group_law::<A13, 2>([(0, 1), (1, 0)])
}
