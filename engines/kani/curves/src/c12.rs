//! C12, engine K part: the Booth window recoding `get_booth_index` (hook H5) that `msm_serial` and
//! `msm_best` rely on, for ALL scalars.
//!
//! Specification (written from the definition of signed Booth recoding, not from the code): with
//! b_k the k-th bit of the little-endian scalar (b_k = 0 for k < 0 and beyond the slice),
//!     d_i = sum_{j<c} b_{ic+j} 2^j  +  b_{ic-1}  -  2^c b_{ic+c-1}
//! so that sum_i d_i 2^{ci} telescopes to the scalar as soon as the top bit of the last window is 0.
use crate::vcover;
use crate::vk::{any, assume};
use midnight_curves::msm::verif_get_booth_index;

fn bit(el: &[u8], k: isize) -> i64 {
    if k < 0 || (k as usize) / 8 >= el.len() {
        0
    } else {
        ((el[(k as usize) / 8] >> ((k as usize) % 8)) & 1) as i64
    }
}

pub fn booth_spec(el: &[u8], i: usize, c: usize) -> i64 {
    let base = (i * c) as isize;
    let mut h: i64 = 0;
    let mut j = 0;
    while j < c {
        h += bit(el, base + j as isize) << j;
        j += 1;
    }
    h + bit(el, base - 1) - (bit(el, base + c as isize - 1) << c)
}

/// all 32-byte scalars, window size c, every window index 0..=256/c (msm_serial uses 0..=8*len/c, msm_best 0..=NUM_BITS/c):
/// digit == Booth definition, |digit| <= 2^(c-1) (bucket index |d|-1 < 2^(c-1) = number of buckets)
fn booth_digit(c: usize) {
    let el: [u8; 32] = any();
    let i: usize = any();
    assume(i <= 256 / c);
    let d = verif_get_booth_index(i, c, &el) as i64;
    assert!(d == booth_spec(&el, i, c), "digit differs from the Booth definition");
    let half = 1i64 << (c - 1);
    assert!(d <= half && d >= -half, "digit out of bucket range");
    if d != 0 {
        assert!(((if d < 0 { -d } else { d }) as usize) - 1 < (1usize << (c - 1)));
    }
    vcover!(d < 0);
    vcover!(d > 0);
    vcover!(i == 256 / c);
    vcover!(i == 0 && d != 0);
}

macro_rules! booth_harness {
    ($($name:ident = $c:expr),*) => {$(
        #[cfg_attr(kani, kani::proof)]
        #[cfg_attr(kani, kani::unwind(18))]
        pub fn $name() {
            booth_digit($c)
        }
    )*};
}
booth_harness!(
    booth_c1 = 1, booth_c2 = 2, booth_c3 = 3, booth_c4 = 4, booth_c5 = 5, booth_c6 = 6, booth_c7 = 7, booth_c8 = 8,
    booth_c9 = 9, booth_c10 = 10, booth_c11 = 11, booth_c12 = 12, booth_c13 = 13, booth_c14 = 14, booth_c15 = 15,
    booth_c16 = 16
);

/// msm_serial only visits windows 0..=8m/c where m = number of significant bytes of the largest scalar:
/// for every scalar whose bytes >= m are zero, every window above that is 0 (nothing is lost) and the last
/// visited window is non-negative (its borrow bit is beyond the scalar, so the sum telescopes exactly).
#[cfg_attr(kani, kani::proof)]
#[cfg_attr(kani, kani::unwind(34))]
pub fn booth_windows_above_are_zero() {
    let mut el: [u8; 32] = any();
    let m: usize = any();
    assume(m <= 32);
    let mut k = 0;
    while k < 32 {
        if k >= m {
            el[k] = 0;
        }
        k += 1;
    }
    let c: usize = any();
    assume(c >= 1 && c <= 16);
    let last = 8 * m / c; // number_of_windows - 1 in msm_serial
    let i: usize = any();
    assume(i >= last && i <= 300);
    let d = verif_get_booth_index(i, c, &el);
    if i > last {
        assert!(d == 0, "a window that msm_serial skips carries a non-zero digit");
    } else {
        assert!(d >= 0, "the top window has a negative digit: the borrow would be lost");
    }
    vcover!(i == last && d > 0);
    vcover!(i > last && m == 32);
    vcover!(m == 0);
}

/// msm_best visits windows 0..=NUM_BITS/c: for scalars below 2^255 (Fq: NUM_BITS = 255) the top window is
/// non-negative and the next one is zero; same for 2^252 (Jubjub Fr: NUM_BITS = 252).
#[cfg_attr(kani, kani::proof)]
#[cfg_attr(kani, kani::unwind(34))]
pub fn booth_top_window_msm_best() {
    let mut el: [u8; 32] = any();
    let jubjub: bool = any();
    let nbits: usize = if jubjub { 252 } else { 255 };
    if jubjub {
        el[31] &= 0x0f;
    } else {
        el[31] &= 0x7f;
    }
    let c: usize = any();
    assume(c >= 1 && c <= 16);
    let last = nbits / c;
    let next: bool = any();
    let d = verif_get_booth_index(if next { last + 1 } else { last }, c, &el);
    if next {
        assert!(d == 0);
    } else {
        assert!(d >= 0);
    }
    vcover!(!next && d > 0);
    vcover!(next);
}

/// Telescoping on short scalars (the function takes any slice): for ALL 4-byte scalars,
/// sum_{i=0}^{32/c} d_i 2^{ci} == scalar (msm_serial's window count for 4 significant bytes).
fn booth_telescopes(c: usize) {
    let el: [u8; 4] = any();
    let n = 32 / c + 1;
    let mut acc: i64 = 0;
    let mut i = 0;
    while i < n {
        let d = verif_get_booth_index(i, c, &el) as i64;
        acc += d << (c * i);
        i += 1;
    }
    assert!(acc == u32::from_le_bytes(el) as i64, "Booth digits do not sum to the scalar");
    vcover!(el[3] >= 0x80);
    vcover!(el[0] & 1 == 1);
}

macro_rules! telescope_harness {
    ($($name:ident = $c:expr),*) => {$(
        #[cfg_attr(kani, kani::proof)]
        #[cfg_attr(kani, kani::unwind(35))]
        pub fn $name() {
            booth_telescopes($c)
        }
    )*};
}
telescope_harness!(
    booth_telescope_c1 = 1, booth_telescope_c2 = 2, booth_telescope_c3 = 3, booth_telescope_c4 = 4, booth_telescope_c5 = 5,
    booth_telescope_c7 = 7, booth_telescope_c8 = 8, booth_telescope_c11 = 11, booth_telescope_c13 = 13, booth_telescope_c16 = 16
);

// =============================================================================================
// Batch-affine bucket accumulation of msm_best (hook H7): the REAL generic `batch_add` and `Schedule`
// instantiated at a toy curve (src/toy.rs), against the textbook affine group law, for EVERY point of
// the toy curve. The code is generic in `C: CurveAffine` and uses only `C::Base` field arithmetic, so
// genericity is what carries the statement to BLS12-381; the toy field is the bound.
use crate::toy::{ToyCurve, A13, A31};
use ff::Field;
use midnight_curves::msm::verif::{verif_batch_add, VerifSchedule};
use midnight_curves::CurveAffine;

type Pt<C> = Option<(<C as CurveAffine>::Base, <C as CurveAffine>::Base)>;

/// any non-identity point of the toy curve y^2 = x^3 + b over F_p
fn any_point<C: ToyCurve>() -> (C::Base, C::Base) {
    let (x, y): (u8, u8) = (any(), any());
    assume(x < C::P && y < C::P);
    let (x, y) = (C::fe(x), C::fe(y));
    assume(y * y == x * x * x + C::b());
    (x, y)
}

fn ref_neg<C: CurveAffine>(p: Pt<C>) -> Pt<C> {
    match p {
        None => None,
        Some((x, y)) => Some((x, -y)),
    }
}

/// textbook affine group law (a = 0)
fn ref_add<C: CurveAffine>(p: Pt<C>, q: Pt<C>) -> Pt<C> {
    match (p, q) {
        (None, q) => q,
        (p, None) => p,
        (Some((x1, y1)), Some((x2, y2))) => {
            let lambda = if x1 == x2 {
                if y1 + y2 == C::Base::ZERO {
                    return None;
                }
                (x1 * x1 + x1 * x1 + x1 * x1) * (y1 + y1).invert().unwrap()
            } else {
                (y2 - y1) * (x2 - x1).invert().unwrap()
            };
            let x3 = lambda * lambda - x1 - x2;
            Some((x3, lambda * (x1 - x3) - y1))
        }
    }
}

/// `batch_add(size = N, ..)` with N live schedule points on pairwise distinct, non-identity buckets (what `Schedule::add`
/// guarantees: it assigns to empty buckets directly, and `msm_best` diverts a bucket that is already pending), two symbolic
/// bases (so a base may repeat), symbolic signs, NB >= N buckets of which the unscheduled ones may be the identity:
/// every scheduled bucket ends as (old bucket) + (sign ? base : -base) by the textbook law, the others are unchanged.
fn batch_add_matches_group_law<C: ToyCurve, const N: usize, const NB: usize>() {
    let bases = [any_point::<C>(), any_point::<C>()];
    let mut buckets: [Pt<C>; NB] = [None; NB];
    let mut j = 0;
    while j < NB {
        let inf: bool = any();
        let pt = any_point::<C>();
        buckets[j] = if inf { None } else { Some(pt) };
        j += 1;
    }
    let old = buckets;
    let mut pts = [(0usize, 0usize, false); N];
    let mut touched = [false; NB];
    let mut k = 0;
    while k < N {
        let (bi, bk): (usize, usize) = (any(), any());
        let sign: bool = any();
        assume(bi < 2 && bk < NB);
        assume(buckets[bk].is_some() && !touched[bk]);
        touched[bk] = true;
        pts[k] = (bi, bk, sign);
        k += 1;
    }
    verif_batch_add::<C>(N, &mut buckets, &pts, &bases);
    let mut k = 0;
    while k < N {
        let (bi, bk, sign) = pts[k];
        let b: Pt<C> = Some(bases[bi]);
        let expected = ref_add::<C>(old[bk], if sign { b } else { ref_neg::<C>(b) });
        assert!(buckets[bk] == expected, "batch_add: bucket differs from (old bucket) +/- base by the affine group law");
        k += 1;
    }
    let mut j = 0;
    while j < NB {
        assert!(touched[j] || buckets[j] == old[j], "batch_add changed a bucket that was not scheduled");
        j += 1;
    }
    // the interesting cases are reachable (stated on the LAST schedule point: it shares the inversion with all earlier ones)
    let (bi, bk, sign) = pts[N - 1];
    let b: Pt<C> = Some(bases[bi]);
    let o = old[bk];
    vcover!(o == b && sign, "doubling, sign = true");
    vcover!(o == ref_neg::<C>(b) && !sign, "doubling of -base, sign = false");
    vcover!(o == b && !sign, "cancellation P + (-P)");
    vcover!(o != b && o != ref_neg::<C>(b), "generic addition");
    vcover!(N < 2 || (pts[0].0 == bi && pts[0].2 != sign), "repeated base with opposite signs in one batch");
    vcover!(NB == N || old[NB - 1].is_none(), "an identity bucket next to the batch");
}

#[cfg_attr(kani, kani::proof)]
#[cfg_attr(kani, kani::unwind(10))]
pub fn batch_add_p13_n1() {
    batch_add_matches_group_law::<A13, 1, 2>()
}
#[cfg_attr(kani, kani::proof)]
#[cfg_attr(kani, kani::unwind(10))]
pub fn batch_add_p13_n2() {
    batch_add_matches_group_law::<A13, 2, 2>()
}
#[cfg_attr(kani, kani::proof)]
#[cfg_attr(kani, kani::unwind(10))]
pub fn batch_add_p13_n3() {
    batch_add_matches_group_law::<A13, 3, 3>()
}
#[cfg_attr(kani, kani::proof)]
#[cfg_attr(kani, kani::unwind(10))]
pub fn batch_add_p31_n2() {
    batch_add_matches_group_law::<A31, 2, 2>()
}
/// The scheduler around it, driven exactly as `msm_best` drives it: for each (base, bucket, sign) either the bucket is
/// already in the pending set (`contains`) and `msm_best` adds the point to its separate Jacobian bucket (kept here as a
/// reference accumulator), or `Schedule::add` is called (direct assignment to an empty bucket, else a pending entry);
/// `execute` flushes. At the end (affine bucket) + (diverted points) == sum of all +/- bases sent to that bucket, the
/// pending set is empty, and an empty bucket that received one point holds exactly +/- that point.
fn schedule_matches_group_law<C: ToyCurve, const NOPS: usize>(idx: [(usize, usize); NOPS]) {
    // base and bucket indices are concrete per harness (symbolic indices into the heap-allocated bucket/schedule
    // vectors stall CBMC's symbolic execution); the points and the signs are symbolic
    let nops = NOPS;
    let bases = [any_point::<C>(), any_point::<C>()];
    let mut s = VerifSchedule::<C>::new(2, &bases); // c = 2: two buckets
    assert!(s.num_buckets() == 2 && s.ptr() == 0);
    let mut diverted: [Pt<C>; 2] = [None; 2];
    let mut total: [Pt<C>; 2] = [None; 2];
    let mut n_div = 0;
    let mut n_aff1 = 0; // points that reached bucket 1 through Schedule::add
    let mut k = 0;
    while k < nops {
        let (bi, bk) = idx[k];
        let sign: bool = any();
        let b: Pt<C> = Some(bases[bi]);
        let sb = if sign { b } else { ref_neg::<C>(b) };
        total[bk] = ref_add::<C>(total[bk], sb);
        if s.contains(bk) {
            diverted[bk] = ref_add::<C>(diverted[bk], sb);
            n_div += 1;
        } else {
            if bk == 1 {
                n_aff1 += 1;
            }
            let was_empty = s.bucket(bk).is_none();
            let before = s.ptr();
            s.add(bi, bk, sign);
            if was_empty {
                assert!(s.bucket(bk) == sb && s.ptr() == before, "an empty bucket takes the point directly");
            } else {
                assert!(s.ptr() == before + 1 && s.contains(bk), "a non-empty bucket gets a pending entry");
            }
        }
        k += 1;
    }
    s.execute();
    assert!(s.ptr() == 0);
    let mut j = 0;
    while j < 2 {
        assert!(ref_add::<C>(s.bucket(j), diverted[j]) == total[j], "scheduler: bucket differs from the sum of the points sent to it");
        j += 1;
    }
    vcover!(n_aff1 < 2 || s.bucket(1).is_none(), "assignment then a batched point that cancels it");
    vcover!(n_aff1 < 2 || (s.bucket(1).is_some() && bases[0] == bases[1]), "assignment then a batched doubling");
    vcover!(n_aff1 < 2 || (s.bucket(1).is_some() && bases[0] != bases[1]), "assignment then a batched addition");
    let _ = n_div;
}

/// both points go to bucket 1: direct assignment, then a pending entry, then the flush through batch_add
#[cfg_attr(kani, kani::proof)]
#[cfg_attr(kani, kani::unwind(66))]
pub fn schedule_p13_b11() {
    schedule_matches_group_law::<A13, 2>([(0, 1), (1, 1)])
}
/// three points to bucket 1: the third finds the bucket pending and is diverted (msm_best's Jacobian bucket)
#[cfg_attr(kani, kani::proof)]
#[cfg_attr(kani, kani::unwind(66))]
pub fn schedule_p13_b111() {
    schedule_matches_group_law::<A13, 3>([(0, 1), (1, 1), (0, 1)])
}
/// bucket 0 is always reported as pending (the default schedule entries carry buck_idx 0): its points are diverted
#[cfg_attr(kani, kani::proof)]
#[cfg_attr(kani, kani::unwind(66))]
pub fn schedule_p13_b10() {
    schedule_matches_group_law::<A13, 2>([(0, 1), (1, 0)])
}

// =============================================================================================
// The window loop of the REAL generic `msm_serial` (notes/K4.md): window-size choice by the number of bases, trimming of
// the scalars to the significant bytes of the longest one, `number_of_windows`, the `for _ in 0..c` doublings, the
// Booth digit -> bucket index / sign mapping, bucket accumulation, summation by parts. Instantiated at toy groups
// (src/toy_msm.rs) whose SCALAR field needs one, two or three full bytes, so that short scalars with the top bit of
// their top byte set exist (the carry window of the Booth recoding is then the only place where 2^(8b) * base enters).
// Specification: with acc = identity on entry (what `msm_parallel`, the only caller, passes; `msm_serial` doubles
// `acc` c * number_of_windows times, so it is NOT additive in a non-identity `acc`),
//     acc_out == sum_i scalar_i * base_i,       scalar_i * base_i by plain MSB-first double-and-add (`ref_mul`).
use crate::toy::msm::{looked, reset_looked, Dlog, Elem, Lin, ToyScalar, Zp, E139, E139_MULTIPLES, F163, F16777213, F65521, GA, GJ};
use group::Group;
use midnight_curves::msm::msm_serial;

/// Assume-guarantee split (under Kani only; the native replay runs the real function): inside the msm_serial harnesses
/// `get_booth_index` is replaced by this loop-free evaluation of the Booth definition (module header) on scalars of at
/// most 4 bytes; `booth_short_slices_l{1,2,3}` prove the REAL function equal to it on exactly the domain it asserts.
/// Reason: the `zip(el.iter().skip(n))` loop of the real function is unwound to the harness-wide bound (window count + 2)
/// at every call; that alone was 2/3 of the symbolic execution (notes/K4.md).
pub fn booth_digit_by_definition(window_index: usize, window_size: usize, el: &[u8]) -> i32 {
    assert!(el.len() >= 1 && el.len() <= 3, "booth stand-in: scalar length outside the proven domain");
    assert!(window_size >= 1 && window_size <= 4, "booth stand-in: window size outside the proven domain");
    assert!(window_index <= 8 * el.len() / window_size + 1, "booth stand-in: window index outside the proven domain");
    let mut v: u64 = el[0] as u64;
    if el.len() > 1 {
        v |= (el[1] as u64) << 8;
    }
    if el.len() > 2 {
        v |= (el[2] as u64) << 16;
    }
    // t_0 = b_{ic-1}, t_{j+1} = b_{ic+j} for j < c
    let t = ((v << 1) >> (window_index * window_size)) & ((1u64 << (window_size + 1)) - 1);
    ((t >> 1) + (t & 1)) as i32 - ((((t >> window_size) & 1) << window_size) as i32)
}

fn booth_short_slices<const L: usize>() {
    let el: [u8; L] = any();
    let (i, c): (usize, usize) = (any(), any());
    assume(c >= 1 && c <= 4);
    assume(i <= 8 * L / c + 1);
    let real = verif_get_booth_index(i, c, &el);
    assert!(real == booth_digit_by_definition(i, c, &el), "get_booth_index differs from the Booth definition on a short scalar");
    assert!(real as i64 == booth_spec(&el, i, c), "the two statements of the Booth definition disagree");
    vcover!(real < 0);
    vcover!(real > 0 && i == 8 * L / c, "carry window");
    vcover!(i == 8 * L / c + 1);
    vcover!(c == 3 && i == 0 && real != 0);
}
#[cfg_attr(kani, kani::proof)]
#[cfg_attr(kani, kani::unwind(8))]
pub fn booth_short_slices_l1() {
    booth_short_slices::<1>()
}
#[cfg_attr(kani, kani::proof)]
#[cfg_attr(kani, kani::unwind(8))]
pub fn booth_short_slices_l2() {
    booth_short_slices::<2>()
}
#[cfg_attr(kani, kani::proof)]
#[cfg_attr(kani, kani::unwind(8))]
pub fn booth_short_slices_l3() {
    booth_short_slices::<3>()
}

/// k * p, plain double-and-add over the bits of the INTEGER k (written here, independent of the environment's `Mul`)
fn ref_mul<E: Elem>(k: u32, p: E, nbits: u32) -> E {
    let mut r = E::id();
    let mut i = nbits;
    while i > 0 {
        i -= 1;
        r = r.gdbl();
        if (k >> i) & 1 == 1 {
            r = r.gadd(p);
        }
    }
    r
}

fn msm_serial_is_sum<E: Elem, const N: usize>(bases: [GA<E>; N]) {
    let nbits = 8 * <E::Scalar as ToyScalar>::NB as u32;
    msm_serial_is_sum_by::<E, N>(bases, |k, p| ref_mul(k, p, nbits))
}

/// integer weights: k * w is the integer product (no loop, so the unwinding bound follows the window count alone)
fn msm_serial_is_sum_zp<S: ToyScalar, const N: usize>(bases: [GA<Zp<S>>; N]) {
    msm_serial_is_sum_by::<Zp<S>, N>(bases, |k, p| Zp::w(k as i32 * p.0))
}

fn msm_serial_is_sum_by<E: Elem, const N: usize>(bases: [GA<E>; N], scalar_mul: impl Fn(u32, E) -> E) {
    let q = <E::Scalar as ToyScalar>::Q;
    let nb = <E::Scalar as ToyScalar>::NB;
    let mut ks = [0u32; N];
    let mut sc = [<E::Scalar as ff::Field>::ZERO; N];
    let mut i = 0;
    while i < N {
        let v: u32 = any();
        assume(v < q);
        ks[i] = v;
        sc[i] = <E::Scalar as ToyScalar>::from_u32(v);
        i += 1;
    }
    let mut acc = GJ::<E>::identity();
    reset_looked();
    msm_serial::<GA<E>>(&sc, &bases, &mut acc);
    // `Zp` only: the transfer argument needs that msm_serial never inspected a point (other groups never count)
    assert!(looked() == 0, "msm_serial inspected a point (is_identity / == / coordinates): the integer-weight argument does not apply");
    let mut want = E::id();
    let mut i = 0;
    while i < N {
        want = want.gadd(scalar_mul(ks[i], bases[i].0));
        i += 1;
    }
    let ok = acc.0.same(&want);
    #[cfg(not(kani))]
    level2::same_scalars_on_g1(&ks, ok);
    assert!(ok, "msm_serial: result differs from sum_i scalar_i * base_i");
    // b = significant bytes of the longest scalar (what msm_serial trims to), top = bit 8b-1 of some scalar is set
    let mut or = 0u32;
    let mut zero = false;
    let mut i = 0;
    while i < N {
        or |= ks[i];
        zero |= ks[i] == 0;
        i += 1;
    }
    let b: u32 = if or == 0 {
        0
    } else if or < 0x100 {
        1
    } else if or < 0x1_0000 {
        2
    } else {
        3
    };
    let top = b > 0 && (or >> (8 * b - 1)) & 1 == 1;
    vcover!(b == 1 && top, "one-byte scalars, some scalar >= 128");
    vcover!(b == 1 && !top, "one-byte scalars, all scalars < 128");
    vcover!(b as usize == nb && top, "full-length scalars with the top bit of the top byte set");
    vcover!(b as usize == nb && !top, "full-length scalars, top bit clear");
    vcover!(zero && (N == 1 || or != 0), "a zero scalar (beside a non-zero one if there are several)");
    vcover!(or == 0, "all scalars zero: early return");
    vcover!(ks[0] == q - 1, "the scalar -1");
}

/// any point of y^2 = x^3 + 2 over F_139, the identity included
fn any_e139() -> GA<E139> {
    let finite: bool = any();
    let (x, y): (u8, u8) = (any(), any());
    if !finite {
        return GA::new(E139::id());
    }
    assume(x < 139 && y < 139);
    let p = E139::on_curve(crate::toy::msm::F139(x), crate::toy::msm::F139(y));
    assume(p.is_some());
    GA::new(p.unwrap())
}

/// ENVIRONMENT validation: the affine law of `E139` is the group Z_163. For all i, j: (iG) + (jG) = ((i+j) mod 163) G,
/// -(iG) = (-i)G, with iG from the independently computed table; every point of the curve is in the table (so the
/// law is total and closed on all 163 points, associative and commutative because addition of indices is).
#[cfg_attr(kani, kani::proof)]
#[cfg_attr(kani, kani::unwind(165))]
pub fn toy_e139_is_a_group_of_order_163() {
    let tab = |k: usize| -> E139 {
        if k == 0 {
            E139::id()
        } else {
            E139::pt(E139_MULTIPLES[k].0, E139_MULTIPLES[k].1)
        }
    };
    let (i, j): (usize, usize) = (any(), any());
    assume(i < 163 && j < 163);
    let (p, q) = (tab(i), tab(j));
    assert!(p.gadd(q).same(&tab((i + j) % 163)), "toy curve: (iG) + (jG) != (i+j)G");
    assert!(p.gneg().same(&tab((163 - i) % 163)), "toy curve: -(iG) != (-i)G");
    assert!(p.gdbl().same(&tab((2 * i) % 163)), "toy curve: 2(iG) != (2i)G");
    let a = any_e139().0;
    let mut found = false;
    let mut k = 0;
    while k < 163 {
        found |= a.same(&tab(k));
        k += 1;
    }
    assert!(found, "toy curve: a point of the curve is not a multiple of G");
    vcover!(i == j && i != 0, "doubling");
    vcover!(i != 0 && i + j == 163, "P + (-P)");
    vcover!(i != j && i != 0 && j != 0 && i + j != 163, "chord");
    vcover!(i == 0 && j != 0, "identity + P");
    vcover!(!a.is_id());
}

/// the real curve's coordinates directly, every point (identity, equal and opposite points included), every scalar of F_163.
/// NOT registered (n1: no answer in 30 min, the solver has to rediscover the group law through ~50 chord-and-tangent steps):
/// `toy_e139_is_a_group_of_order_163` + `msm_serial_dlog163_n1` decide the same statement in two steps. Kept for the native replay
/// binary (`replay_real c12::msm_serial_e139_n1 <finite,x,y,scalar>` runs the real code on the curve).
#[cfg_attr(kani, kani::proof)]
#[cfg_attr(kani, kani::unwind(11))]
#[cfg_attr(kani, kani::stub(midnight_curves::msm::get_booth_index, crate::c12::booth_digit_by_definition))]
pub fn msm_serial_e139_n1() {
    let bases = [any_e139()];
    vcover!(bases[0].0.is_id(), "the base is the identity");
    msm_serial_is_sum::<E139, 1>(bases)
}
#[cfg_attr(kani, kani::proof)]
#[cfg_attr(kani, kani::unwind(11))]
#[cfg_attr(kani, kani::stub(midnight_curves::msm::get_booth_index, crate::c12::booth_digit_by_definition))]
pub fn msm_serial_e139_n2() {
    let bases = [any_e139(), any_e139()];
    vcover!(bases[0].0.same(&bases[1].0) && !bases[0].0.is_id(), "repeated base");
    vcover!(bases[0].0.same(&bases[1].0.gneg()) && !bases[0].0.is_id(), "opposite bases");
    vcover!(bases[1].0.is_id() && !bases[0].0.is_id(), "an identity base");
    msm_serial_is_sum::<E139, 2>(bases)
}

fn any_dlog<S: ToyScalar>() -> GA<Dlog<S>> {
    let k: u32 = any();
    assume(k < S::Q);
    GA::new(Dlog(k, core::marker::PhantomData))
}
/// (Z_163, +): every element as a base (identity, repeated and opposite bases included), every scalar.
/// Registered: n1. n2 / n3 (products of independent unknowns modulo 163) give no answer in 15 min; the unit-vector family below
/// decides the coefficients one at a time instead.
#[cfg_attr(kani, kani::proof)]
#[cfg_attr(kani, kani::unwind(11))]
#[cfg_attr(kani, kani::stub(midnight_curves::msm::get_booth_index, crate::c12::booth_digit_by_definition))]
pub fn msm_serial_dlog163_n1() {
    let bases = [any_dlog::<F163>()];
    vcover!(bases[0].0.is_id(), "the base is the identity");
    msm_serial_is_sum::<Dlog<F163>, 1>(bases)
}
#[cfg_attr(kani, kani::proof)]
#[cfg_attr(kani, kani::unwind(11))]
#[cfg_attr(kani, kani::stub(midnight_curves::msm::get_booth_index, crate::c12::booth_digit_by_definition))]
pub fn msm_serial_dlog163_n2() {
    let bases = [any_dlog::<F163>(), any_dlog::<F163>()];
    vcover!(bases[0].0 .0 == bases[1].0 .0 && bases[0].0 .0 != 0, "repeated base");
    vcover!(bases[0].0 .0 + bases[1].0 .0 == 163, "opposite bases");
    vcover!(bases[1].0 .0 == 0 && bases[0].0 .0 != 0, "an identity base");
    msm_serial_is_sum::<Dlog<F163>, 2>(bases)
}
#[cfg_attr(kani, kani::proof)]
#[cfg_attr(kani, kani::unwind(11))]
#[cfg_attr(kani, kani::stub(midnight_curves::msm::get_booth_index, crate::c12::booth_digit_by_definition))]
pub fn msm_serial_dlog163_n3() {
    let bases = [any_dlog::<F163>(), any_dlog::<F163>(), any_dlog::<F163>()];
    vcover!(bases[0].0 .0 == bases[2].0 .0 && bases[0].0 .0 != 0, "repeated base");
    vcover!(bases[1].0 .0 == 0 && bases[0].0 .0 != 0, "an identity base");
    msm_serial_is_sum::<Dlog<F163>, 3>(bases)
}

/// integer weights in -2..=2 as bases (see `Zp`): unit vectors, the identity, repeated and opposite bases are all among them
fn msm_serial_integer_weights<S: ToyScalar, const N: usize>() {
    let mut bases = [GA::new(Zp::<S>::w(0)); N];
    let mut i = 0;
    let mut unit = 0;
    while i < N {
        let w: i8 = any();
        assume(w >= -2 && w <= 2);
        bases[i] = GA::new(Zp::<S>::w(w as i32));
        unit += (w != 0) as usize;
        i += 1;
    }
    vcover!(unit == 1 && bases[N - 1].0 .0 == 1, "unit vector: only the last base counts");
    vcover!(unit == N, "no identity base");
    vcover!(N < 2 || (bases[0].0 .0 == bases[1].0 .0 && bases[0].0 .0 != 0), "repeated base");
    vcover!(N < 2 || (bases[0].0 .0 == -bases[1].0 .0 && bases[0].0 .0 != 0), "opposite bases");
    msm_serial_is_sum_zp::<S, N>(bases)
}
/// unit vectors only: base j (symbolic) is the formal point P, all others are the identity. By the argument at `Zp`
/// this already fixes every coefficient c_j = s_j; for the solver each case is a problem in ONE scalar.
fn msm_serial_unit_weights<S: ToyScalar, const N: usize>() {
    let j: usize = any();
    assume(j < N);
    let mut bases = [GA::new(Zp::<S>::w(0)); N];
    let mut i = 0;
    while i < N {
        bases[i] = GA::new(Zp::<S>::w((i == j) as i32));
        i += 1;
    }
    vcover!(j == 0);
    vcover!(j == N - 1);
    msm_serial_is_sum_zp::<S, N>(bases)
}
macro_rules! msm_unit_harness {
    ($($name:ident = ($S:ty, $n:expr, $unwind:expr)),*) => {$(
        #[cfg_attr(kani, kani::proof)]
        #[cfg_attr(kani, kani::unwind($unwind))]
        #[cfg_attr(kani, kani::stub(midnight_curves::msm::get_booth_index, crate::c12::booth_digit_by_definition))]
        pub fn $name() {
            msm_serial_unit_weights::<$S, $n>()
        }
    )*};
}
msm_unit_harness!(
    msm_serial_unit_q163_n2 = (F163, 2, 11), msm_serial_unit_q163_n3 = (F163, 3, 11), msm_serial_unit_q163_n4 = (F163, 4, 6),
    msm_serial_unit_q65521_n1 = (F65521, 1, 19), msm_serial_unit_q65521_n2 = (F65521, 2, 19), msm_serial_unit_q65521_n3 = (F65521, 3, 19),
    msm_serial_unit_q65521_n4 = (F65521, 4, 8),
    msm_serial_unit_q16777213_n1 = (F16777213, 1, 27), msm_serial_unit_q16777213_n2 = (F16777213, 2, 27),
    msm_serial_unit_q16777213_n3 = (F16777213, 3, 27), msm_serial_unit_q16777213_n4 = (F16777213, 4, 11)
);
macro_rules! msm_weights_harness {
    ($($name:ident = ($S:ty, $n:expr, $unwind:expr)),*) => {$(
        #[cfg_attr(kani, kani::proof)]
        #[cfg_attr(kani, kani::unwind($unwind))]
        #[cfg_attr(kani, kani::stub(midnight_curves::msm::get_booth_index, crate::c12::booth_digit_by_definition))]
        pub fn $name() {
            msm_serial_integer_weights::<$S, $n>()
        }
    )*};
}
// unwind = max(largest window count, n) + 2: 8b/c + 1 windows, c = 1 for n < 4, c = 3 for n = 4
msm_weights_harness!(
    msm_serial_zp_q163_n1 = (F163, 1, 11), msm_serial_zp_q163_n2 = (F163, 2, 11), msm_serial_zp_q163_n3 = (F163, 3, 11),
    msm_serial_zp_q163_n4 = (F163, 4, 6),
    msm_serial_zp_q65521_n1 = (F65521, 1, 19), msm_serial_zp_q65521_n2 = (F65521, 2, 19), msm_serial_zp_q65521_n3 = (F65521, 3, 19),
    msm_serial_zp_q65521_n4 = (F65521, 4, 8),
    msm_serial_zp_q16777213_n1 = (F16777213, 1, 27), msm_serial_zp_q16777213_n2 = (F16777213, 2, 27),
    msm_serial_zp_q16777213_n3 = (F16777213, 3, 27), msm_serial_zp_q16777213_n4 = (F16777213, 4, 11)
);

/// end-to-end anchor of the split: same as `msm_serial_zp_q163_n1` with the REAL `get_booth_index` inside (no stand-in)
#[cfg_attr(kani, kani::proof)]
#[cfg_attr(kani, kani::unwind(11))]
pub fn msm_serial_real_booth_q163_n1() {
    msm_serial_integer_weights::<F163, 1>()
}

/// N independent formal points (free module of rank N over the scalar field S)
fn msm_serial_generic_points<S: ToyScalar, const N: usize>() {
    let mut bases = [GA::new(Lin::<S, N>::id()); N];
    let mut i = 0;
    while i < N {
        bases[i] = GA::new(Lin::<S, N>::generator(i));
        i += 1;
    }
    msm_serial_is_sum::<Lin<S, N>, N>(bases)
}
macro_rules! msm_generic_harness {
    ($($name:ident = ($S:ty, $n:expr, $unwind:expr)),*) => {$(
        #[cfg_attr(kani, kani::proof)]
        #[cfg_attr(kani, kani::unwind($unwind))]
        #[cfg_attr(kani, kani::stub(midnight_curves::msm::get_booth_index, crate::c12::booth_digit_by_definition))]
        pub fn $name() {
            msm_serial_generic_points::<$S, $n>()
        }
    )*};
}
// unwind = largest window count + 2: 8b/c + 1 windows, c = 1 for n < 4, c = 3 for n = 4
msm_generic_harness!(
    msm_serial_lin_q163_n1 = (F163, 1, 11), msm_serial_lin_q163_n2 = (F163, 2, 11), msm_serial_lin_q163_n3 = (F163, 3, 11),
    msm_serial_lin_q163_n4 = (F163, 4, 11),
    msm_serial_lin_q65521_n1 = (F65521, 1, 19), msm_serial_lin_q65521_n2 = (F65521, 2, 19), msm_serial_lin_q65521_n3 = (F65521, 3, 19),
    msm_serial_lin_q65521_n4 = (F65521, 4, 19),
    msm_serial_lin_q16777213_n1 = (F16777213, 1, 27), msm_serial_lin_q16777213_n2 = (F16777213, 2, 27),
    msm_serial_lin_q16777213_n3 = (F16777213, 3, 27), msm_serial_lin_q16777213_n4 = (F16777213, 4, 27)
);

/// Level 2 of the native replay (never compiled for Kani): the same situation on the REAL BLS12-381 G1 through the public
/// entry points `msm_best`, `msm_parallel`, `msm_serial`.
#[cfg(not(kani))]
pub mod level2 {
    use ff::Field;
    use group::{Curve, Group};
    use midnight_curves::msm::{msm_best, msm_parallel, msm_serial};
    use midnight_curves::{Fq, G1Affine, G1Projective};

    /// false when the blst symbols are interposed by the scripted oracles of the `replay` binary (use `replay_real`)
    fn blst_is_real() -> bool {
        std::panic::catch_unwind(|| {
            let g = G1Projective::generator();
            let three = g + g + g;
            !bool::from(g.is_identity()) && g.double() + g == three && three == g * Fq::from(3u64) && three != g.double()
        })
        .unwrap_or(false)
    }

    fn bases(n: usize) -> Vec<G1Affine> {
        (0..n).map(|i| (G1Projective::generator() * Fq::from(7 + 5 * i as u64)).to_affine()).collect()
    }

    /// every entry point against sum_i s_i * B_i (group operations of G1Projective); returns the names that differ
    pub fn wrong_entry_points(scalars: &[Fq], bases: &[G1Affine]) -> Vec<&'static str> {
        let want = scalars.iter().zip(bases).fold(G1Projective::identity(), |a, (s, b)| a + G1Projective::from(*b) * *s);
        let mut wrong = Vec::new();
        if msm_best(scalars, bases) != want {
            wrong.push("msm_best");
        }
        if msm_parallel(scalars, bases) != want {
            wrong.push("msm_parallel");
        }
        let mut acc = G1Projective::identity();
        msm_serial(scalars, bases, &mut acc);
        if acc != want {
            wrong.push("msm_serial");
        }
        wrong
    }

    /// the solver's scalars (as integers) on the real curve; informational line in the replay output
    pub fn same_scalars_on_g1(ks: &[u32], toy_ok: bool) {
        if !blst_is_real() {
            println!("level 2 skipped: blst is interposed in this binary (run replay_real)");
            return;
        }
        let s: Vec<Fq> = ks.iter().map(|k| Fq::from(*k as u64)).collect();
        let w = wrong_entry_points(&s, &bases(ks.len()));
        println!("level 1 (real generic msm_serial at the toy group, scalars {ks:?}): {}", if toy_ok { "equals the sum" } else { "DIFFERS from the sum" });
        println!("level 2 (real BLS12-381 G1, same scalars, bases (7+5i)G): {}", if w.is_empty() { "all entry points equal the sum".to_string() } else { format!("WRONG: {w:?}") });
    }

    /// `replay_real --scenario msm-short-scalars`: fixed short-scalar cases on the real G1; rc 1 iff some entry point is wrong
    pub fn scenario_short_scalars() -> i32 {
        if !blst_is_real() {
            println!("blst is interposed in this binary: run replay_real");
            return 4;
        }
        let pow2 = |e: u32| Fq::from(2u64).pow([e as u64]);
        let cases: Vec<(&str, Vec<Fq>)> = vec![
            ("[200]", vec![Fq::from(200)]),
            ("[128]", vec![Fq::from(128)]),
            ("[127] (top bit clear)", vec![Fq::from(127)]),
            ("[0x8001]", vec![Fq::from(0x8001)]),
            ("[200, 3]", vec![Fq::from(200), Fq::from(3)]),
            ("[1, 128, 255]", vec![Fq::from(1), Fq::from(128), Fq::from(255)]),
            ("[0, 0, 0]", vec![Fq::ZERO; 3]),
            ("[2^127 + 5, 9] (16 bytes, c = 1)", vec![pow2(127) + Fq::from(5), Fq::from(9)]),
            ("[0x800000, 1, 2, 3] (3 bytes, c = 3)", vec![Fq::from(0x80_0000), Fq::from(1), Fq::from(2), Fq::from(3)]),
            ("[2^119 + 1, 0xffffff, 7, 0, 5] (15 bytes, c = 3)", vec![pow2(119) + Fq::ONE, Fq::from(0xff_ffff), Fq::from(7), Fq::ZERO, Fq::from(5)]),
            ("[-1, 200] (full width)", vec![-Fq::ONE, Fq::from(200)]),
            ("40 x 2^23 + i (3 bytes, c = ceil(ln 40) = 4)", (0..40).map(|i| Fq::from(0x80_0000 + i)).collect()),
        ];
        let mut bad = 0;
        for (name, s) in &cases {
            let w = wrong_entry_points(s, &bases(s.len()));
            println!("{name}: {}", if w.is_empty() { "ok".to_string() } else { format!("WRONG {w:?}") });
            bad += !w.is_empty() as i32;
        }
        println!("{bad} of {} cases wrong", cases.len());
        (bad > 0) as i32
    }
}
