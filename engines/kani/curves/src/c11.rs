//! C11 (curve types), engine K part: decoder contracts of G1/G2 (affine and projective) with blst as a
//! recording oracle environment, the Jacobian coordinate helpers against the representation they
//! wrap (finding F2), and the sign/canonicity logic of the Jubjub affine decoder.
use crate::ffi::*;
use crate::stubs::SQRT;
use crate::vcover;
use crate::vk::*;
use group::{GroupEncoding, UncompressedEncoding};
use midnight_curves::bls12_381::Fp2;
use midnight_curves::serde::SerdeObject;
use midnight_curves::{CurveAffine, CurveExt, Fp, G1Affine, G1Projective, G2Affine, G2Projective, JubjubAffine};
use midnight_curves::{Fq as Base, JubjubExtended, JubjubSubgroup};

fn g1a_raw(p: &G1Affine) -> [u64; 12] {
    p1a_limbs(p.as_ref())
}
fn g1p_raw(p: &G1Projective) -> [u64; 18] {
    p1_limbs(p.as_ref())
}
fn g2a_raw(p: &G2Affine) -> [u64; 24] {
    p2a_limbs(p.as_ref())
}
fn g2p_raw(p: &G2Projective) -> [u64; 36] {
    p2_limbs(p.as_ref())
}
fn pad18(a: &[u64; 12]) -> [u64; 18] {
    let mut o = [0u64; 18];
    let mut i = 0;
    while i < 12 {
        o[i] = a[i];
        i += 1;
    }
    o
}
fn pad36(a: &[u64; 24]) -> [u64; 36] {
    let mut o = [0u64; 36];
    let mut i = 0;
    while i < 24 {
        o[i] = a[i];
        i += 1;
    }
    o
}
fn repr48<R: Default + AsMut<[u8]>>(b: &[u8; 48]) -> R {
    let mut r = R::default();
    r.as_mut().copy_from_slice(b);
    r
}
fn repr96<R: Default + AsMut<[u8]>>(b: &[u8; 96]) -> R {
    let mut r = R::default();
    r.as_mut().copy_from_slice(b);
    r
}
fn repr192<R: Default + AsMut<[u8]>>(b: &[u8; 192]) -> R {
    let mut r = R::default();
    r.as_mut().copy_from_slice(b);
    r
}

// =========================================================================================== G1

/// G1Affine compressed, checked (`GroupEncoding::from_bytes` = `from_compressed`):
/// `Some` <=> blst_p1_uncompress succeeded on exactly these bytes AND the on-curve oracle AND the
/// subgroup oracle said yes FOR THAT VERY POINT; the value is that point.
#[cfg_attr(kani, kani::proof)]
#[cfg_attr(kani, kani::unwind(98))]
#[cfg_attr(kani, kani::stub(blst::blst_p1_uncompress, stub_p1_uncompress))]
#[cfg_attr(kani, kani::stub(blst::blst_p1_affine_on_curve, stub_p1_affine_on_curve))]
#[cfg_attr(kani, kani::stub(blst::blst_p1_affine_in_g1, stub_p1_affine_in_g1))]
pub fn g1a_from_compressed_checked() {
    let b: [u8; 48] = any();
    let r = <G1Affine as GroupEncoding>::from_bytes(&repr48(&b));
    let some: bool = r.is_some().into();
    unsafe {
        assert!(P1_UNCOMPRESS.n == 1 && eqb(&P1_UNCOMPRESS.input, &b));
        let checks_ok = P1A_ON_CURVE.n >= 1
            && P1A_ON_CURVE.lb
            && eqn(&P1A_ON_CURVE.la[0], &P1_UNCOMPRESS.out)
            && P1A_IN_G1.n >= 1
            && P1A_IN_G1.lb
            && eqn(&P1A_IN_G1.la[0], &P1_UNCOMPRESS.out);
        if some {
            assert!(P1_UNCOMPRESS.ok, "Some although uncompress failed");
            assert!(checks_ok, "Some although on-curve / subgroup oracle did not say yes for the decoded point");
            assert!(eqn(&g1a_raw(&r.unwrap()), &P1_UNCOMPRESS.out));
        } else {
            assert!(!(P1_UNCOMPRESS.ok && checks_ok), "None although every check passed");
        }
    }
    vcover!(some);
    vcover!(!some);
}

/// G1Affine compressed, unchecked: `Some` <=> uncompress succeeded; no on-curve / subgroup oracle is consulted
#[cfg_attr(kani, kani::proof)]
#[cfg_attr(kani, kani::unwind(98))]
#[cfg_attr(kani, kani::stub(blst::blst_p1_uncompress, stub_p1_uncompress))]
#[cfg_attr(kani, kani::stub(blst::blst_p1_affine_on_curve, stub_p1_affine_on_curve))]
#[cfg_attr(kani, kani::stub(blst::blst_p1_affine_in_g1, stub_p1_affine_in_g1))]
pub fn g1a_from_compressed_unchecked() {
    let b: [u8; 48] = any();
    let r = <G1Affine as GroupEncoding>::from_bytes_unchecked(&repr48(&b));
    let some: bool = r.is_some().into();
    unsafe {
        assert!(P1_UNCOMPRESS.n == 1 && eqb(&P1_UNCOMPRESS.input, &b));
        assert!(some == P1_UNCOMPRESS.ok);
        assert!(P1A_IN_G1.n == 0 && P1A_ON_CURVE.n == 0);
        if some {
            assert!(eqn(&g1a_raw(&r.unwrap()), &P1_UNCOMPRESS.out));
        }
    }
    vcover!(some);
    vcover!(!some);
}

/// G1Affine uncompressed, checked (`UncompressedEncoding::from_uncompressed`):
/// `Some` <=> deserialize succeeded on these bytes AND on-curve oracle yes for that point; value = that point
#[cfg_attr(kani, kani::proof)]
#[cfg_attr(kani, kani::unwind(98))]
#[cfg_attr(kani, kani::stub(blst::blst_p1_deserialize, stub_p1_deserialize))]
#[cfg_attr(kani, kani::stub(blst::blst_p1_affine_on_curve, stub_p1_affine_on_curve))]
#[cfg_attr(kani, kani::stub(blst::blst_p1_affine_in_g1, stub_p1_affine_in_g1))]
pub fn g1a_from_uncompressed_on_curve() {
    let b: [u8; 96] = any();
    let r = <G1Affine as UncompressedEncoding>::from_uncompressed(&repr96(&b));
    let some: bool = r.is_some().into();
    unsafe {
        assert!(P1_DESERIALIZE.n == 1 && eqb(&P1_DESERIALIZE.input, &b));
        let on_curve = P1A_ON_CURVE.n >= 1 && P1A_ON_CURVE.lb && eqn(&P1A_ON_CURVE.la[0], &P1_DESERIALIZE.out);
        if some {
            assert!(P1_DESERIALIZE.ok && on_curve);
            assert!(eqn(&g1a_raw(&r.unwrap()), &P1_DESERIALIZE.out));
        } else {
            // rejection is explained by a failed decode, a failed on-curve test, or a failed subgroup test
            let in_g1 = P1A_IN_G1.n >= 1 && P1A_IN_G1.lb;
            assert!(!(P1_DESERIALIZE.ok && on_curve) || (P1A_IN_G1.n >= 1 && !in_g1));
        }
    }
    vcover!(some);
    vcover!(!some);
}

/// G1Affine uncompressed, checked: a returned point was tested for SUBGROUP membership (the type's
/// invariant "is_torsion_free is always true unless an unchecked API was used"; promised by the docs of
/// from_uncompressed_unchecked and by read_raw's error text; G2Affine::from_uncompressed does test it).
/// which: 0 = UncompressedEncoding::from_uncompressed, 1 = SerdeObject::from_raw_bytes, 2 = SerdeObject::read_raw
fn g1a_uncompressed_subgroup(which: u8) {
    let b: [u8; 96] = any();
    let some: bool = match which {
        0 => <G1Affine as UncompressedEncoding>::from_uncompressed(&repr96(&b)).is_some().into(),
        1 => <G1Affine as SerdeObject>::from_raw_bytes(&b).is_some(),
        _ => {
            let mut rd: &[u8] = &b;
            let r = <G1Affine as SerdeObject>::read_raw(&mut rd);
            let ok = r.is_ok();
            core::mem::forget(r);
            ok
        }
    };
    unsafe {
        if some {
            assert!(
                P1A_IN_G1.n >= 1 && P1A_IN_G1.lb && eqn(&P1A_IN_G1.la[0], &P1_DESERIALIZE.out),
                "checked uncompressed G1 decoder returned a point whose subgroup membership was never established"
            );
        }
    }
    vcover!(some);
}
#[cfg_attr(kani, kani::proof)]
#[cfg_attr(kani, kani::unwind(98))]
#[cfg_attr(kani, kani::stub(blst::blst_p1_deserialize, stub_p1_deserialize))]
#[cfg_attr(kani, kani::stub(blst::blst_p1_affine_on_curve, stub_p1_affine_on_curve))]
#[cfg_attr(kani, kani::stub(blst::blst_p1_affine_in_g1, stub_p1_affine_in_g1))]
pub fn g1a_from_uncompressed_subgroup() {
    g1a_uncompressed_subgroup(0)
}
#[cfg_attr(kani, kani::proof)]
#[cfg_attr(kani, kani::unwind(98))]
#[cfg_attr(kani, kani::stub(blst::blst_p1_deserialize, stub_p1_deserialize))]
#[cfg_attr(kani, kani::stub(blst::blst_p1_affine_on_curve, stub_p1_affine_on_curve))]
#[cfg_attr(kani, kani::stub(blst::blst_p1_affine_in_g1, stub_p1_affine_in_g1))]
pub fn g1a_from_raw_bytes_subgroup() {
    g1a_uncompressed_subgroup(1)
}
#[cfg_attr(kani, kani::proof)]
#[cfg_attr(kani, kani::unwind(98))]
#[cfg_attr(kani, kani::stub(blst::blst_p1_deserialize, stub_p1_deserialize))]
#[cfg_attr(kani, kani::stub(blst::blst_p1_affine_on_curve, stub_p1_affine_on_curve))]
#[cfg_attr(kani, kani::stub(blst::blst_p1_affine_in_g1, stub_p1_affine_in_g1))]
pub fn g1a_read_raw_subgroup() {
    g1a_uncompressed_subgroup(2)
}

/// SerdeObject for G1Affine: from_raw_bytes / read_raw accept exactly what from_uncompressed accepts
/// (deserialize ok AND on-curve yes, same point); uncompressed-unchecked = deserialize ok only.
#[cfg_attr(kani, kani::proof)]
#[cfg_attr(kani, kani::unwind(98))]
#[cfg_attr(kani, kani::stub(blst::blst_p1_deserialize, stub_p1_deserialize))]
#[cfg_attr(kani, kani::stub(blst::blst_p1_affine_on_curve, stub_p1_affine_on_curve))]
#[cfg_attr(kani, kani::stub(blst::blst_p1_affine_in_g1, stub_p1_affine_in_g1))]
pub fn g1a_serde_object_contract() {
    let b: [u8; 96] = any();
    let which: u8 = any();
    assume(which < 3);
    unsafe {
        if which == 0 {
            let r = <G1Affine as SerdeObject>::from_raw_bytes(&b);
            let on_curve = P1A_ON_CURVE.n >= 1 && P1A_ON_CURVE.lb && eqn(&P1A_ON_CURVE.la[0], &P1_DESERIALIZE.out);
            assert!(P1_DESERIALIZE.n == 1 && eqb(&P1_DESERIALIZE.input, &b));
            if let Some(p) = r {
                assert!(P1_DESERIALIZE.ok && on_curve && eqn(&g1a_raw(&p), &P1_DESERIALIZE.out));
            }
            vcover!(r.is_some());
        } else if which == 1 {
            let mut rd: &[u8] = &b;
            let r = <G1Affine as SerdeObject>::read_raw(&mut rd);
            let on_curve = P1A_ON_CURVE.n >= 1 && P1A_ON_CURVE.lb && eqn(&P1A_ON_CURVE.la[0], &P1_DESERIALIZE.out);
            assert!(P1_DESERIALIZE.n == 1 && eqb(&P1_DESERIALIZE.input, &b));
            if let Ok(p) = &r {
                assert!(P1_DESERIALIZE.ok && on_curve && eqn(&g1a_raw(p), &P1_DESERIALIZE.out));
            }
            vcover!(r.is_ok());
            core::mem::forget(r);
        } else {
            let r = <G1Affine as UncompressedEncoding>::from_uncompressed_unchecked(&repr96(&b));
            let some: bool = r.is_some().into();
            assert!(P1_DESERIALIZE.n == 1 && eqb(&P1_DESERIALIZE.input, &b));
            assert!(some == P1_DESERIALIZE.ok);
            assert!(P1A_ON_CURVE.n == 0 && P1A_IN_G1.n == 0);
            if some {
                assert!(eqn(&g1a_raw(&r.unwrap()), &P1_DESERIALIZE.out));
            }
            vcover!(some);
        }
    }
}

/// G1Projective compressed: checked = the affine checked decoder followed by blst_p1_from_affine on that
/// very point; unchecked skips on-curve/subgroup only.
#[cfg_attr(kani, kani::proof)]
#[cfg_attr(kani, kani::unwind(146))]
#[cfg_attr(kani, kani::stub(blst::blst_p1_uncompress, stub_p1_uncompress))]
#[cfg_attr(kani, kani::stub(blst::blst_p1_affine_on_curve, stub_p1_affine_on_curve))]
#[cfg_attr(kani, kani::stub(blst::blst_p1_affine_in_g1, stub_p1_affine_in_g1))]
#[cfg_attr(kani, kani::stub(blst::blst_p1_from_affine, stub_p1_from_affine))]
#[cfg_attr(kani, kani::stub(blst::blst_p1_on_curve, stub_p1_on_curve))]
#[cfg_attr(kani, kani::stub(blst::blst_p1_is_inf, stub_p1_is_inf))]
pub fn g1p_from_compressed_contract() {
    let b: [u8; 48] = any();
    let checked: bool = any();
    let r = if checked {
        <G1Projective as GroupEncoding>::from_bytes(&repr48(&b))
    } else {
        <G1Projective as GroupEncoding>::from_bytes_unchecked(&repr48(&b))
    };
    let some: bool = r.is_some().into();
    unsafe {
        assert!(P1_UNCOMPRESS.n == 1 && eqb(&P1_UNCOMPRESS.input, &b));
        let checks_ok = P1A_ON_CURVE.n >= 1
            && P1A_ON_CURVE.lb
            && eqn(&P1A_ON_CURVE.la[0], &P1_UNCOMPRESS.out)
            && P1A_IN_G1.n >= 1
            && P1A_IN_G1.lb
            && eqn(&P1A_IN_G1.la[0], &P1_UNCOMPRESS.out);
        if checked {
            assert!(some == (P1_UNCOMPRESS.ok && checks_ok));
        } else {
            assert!(some == P1_UNCOMPRESS.ok);
            assert!(P1A_IN_G1.n == 0 && P1A_ON_CURVE.n == 0);
        }
        if some {
            assert!(P1_FROM_AFFINE.n >= 1 && eqn(&P1_FROM_AFFINE.la[0], &pad18(&P1_UNCOMPRESS.out)));
            assert!(eqn(&g1p_raw(&r.unwrap()), &P1_FROM_AFFINE.lr));
        }
    }
    vcover!(some && checked);
    vcover!(some && !checked);
    vcover!(!some);
}

/// CurveAffine::from_xy(x, y): `Some` <=> on-curve oracle yes for the point with exactly these coordinates
#[cfg_attr(kani, kani::proof)]
#[cfg_attr(kani, kani::unwind(98))]
#[cfg_attr(kani, kani::stub(blst::blst_p1_affine_on_curve, stub_p1_affine_on_curve))]
pub fn g1a_from_xy_contract() {
    let (x, y): ([u64; 6], [u64; 6]) = (any(), any());
    let r = <G1Affine as CurveAffine>::from_xy(Fp::from(blst::blst_fp { l: x }), Fp::from(blst::blst_fp { l: y }));
    let some: bool = r.is_some().into();
    let mut xy = [0u64; 12];
    let mut i = 0;
    while i < 6 {
        xy[i] = x[i];
        xy[6 + i] = y[i];
        i += 1;
    }
    unsafe {
        assert!(P1A_ON_CURVE.n == 1 && eqn(&P1A_ON_CURVE.la[0], &xy));
        assert!(some == P1A_ON_CURVE.lb);
        if some {
            assert!(eqn(&g1a_raw(&r.unwrap()), &xy));
        }
    }
    vcover!(some);
    vcover!(!some);
}

fn fp_of(l: [u64; 6]) -> Fp {
    Fp::from(blst::blst_fp { l })
}
fn fp_l(x: &Fp) -> [u64; 6] {
    blst::blst_fp::from(*x).l
}
/// Montgomery form of 1 in Fp (2^384 mod p), computed independently (python)
pub const FP_ONE: [u64; 6] = [
    0x760900000002fffd, 0xebf4000bc40c0002, 0x5f48985753c758ba, 0x77ce585370525745, 0x5c071a97a256ec6d, 0x15f65ec3fa80e493,
];

fn g1p_from_raw(x: [u64; 6], y: [u64; 6], z: [u64; 6]) -> G1Projective {
    let mut p = G1Projective::default();
    let r: &mut blst::blst_p1 = p.as_mut();
    r.x.l = x;
    r.y.l = y;
    r.z.l = z;
    p
}

fn canon_nonzero_fp() -> [u64; 6] {
    let a: [u64; 6] = any();
    assume(lt_le_limbs(&a, &crate::c10::BLS_P) && !is_zero_n(&a));
    a
}

/// F2. blst's `blst_p1` IS Jacobian (x = X/Z^2, y = Y/Z^3). `jacobian_coordinates` returns z unchanged,
/// so it must return x and y unchanged as well, for every point with z not in {0, 1}.
/// Under Kani the field operations are uninterpreted oracles; natively (binary `replay_real`, real blst) the
/// same assertion is evaluated with the real field arithmetic. [expected to FAIL on the pinned tree]
#[cfg_attr(kani, kani::proof)]
#[cfg_attr(kani, kani::unwind(50))]
#[cfg_attr(kani, kani::stub(blst::blst_fp_mul, stub_fp_mul))]
#[cfg_attr(kani, kani::stub(blst::blst_fp_sqr, stub_fp_sqr))]
pub fn g1p_jacobian_coordinates_is_representation() {
    let (x, y, z) = (canon_nonzero_fp(), canon_nonzero_fp(), canon_nonzero_fp());
    assume(z != FP_ONE);
    let p = g1p_from_raw(x, y, z);
    let (jx, jy, jz) = p.jacobian_coordinates();
    assert!(fp_l(&jz) == z);
    assert!(fp_l(&jx) == x, "jacobian_coordinates: X differs from the Jacobian X blst stores (Z returned unchanged)");
    assert!(fp_l(&jy) == y, "jacobian_coordinates: Y differs from the Jacobian Y blst stores (Z returned unchanged)");
    vcover!(true);
}

/// F2, constructor side: `new_jacobian(x, y, z)` stores z unchanged, so it must store x and y unchanged
/// (whenever it returns a point). [expected to FAIL on the pinned tree]
#[cfg_attr(kani, kani::proof)]
#[cfg_attr(kani, kani::unwind(50))]
#[cfg_attr(kani, kani::stub(blst::blst_fp_mul, stub_fp_mul))]
#[cfg_attr(kani, kani::stub(blst::blst_fp_sqr, stub_fp_sqr))]
#[cfg_attr(kani, kani::stub(blst::blst_fp_eucl_inverse, stub_fp_eucl_inverse))]
#[cfg_attr(kani, kani::stub(blst::blst_p1_on_curve, stub_p1_on_curve))]
#[cfg_attr(kani, kani::stub(blst::blst_p1_is_inf, stub_p1_is_inf))]
pub fn g1p_new_jacobian_is_representation() {
    let (x, y, z) = (canon_nonzero_fp(), canon_nonzero_fp(), canon_nonzero_fp());
    assume(z != FP_ONE);
    let r = G1Projective::new_jacobian(fp_of(x), fp_of(y), fp_of(z));
    let some: bool = r.is_some().into();
    if some {
        let raw = g1p_raw(&r.unwrap());
        let (mut sx, mut sy, mut sz) = ([0u64; 6], [0u64; 6], [0u64; 6]);
        let mut i = 0;
        while i < 6 {
            sx[i] = raw[i];
            sy[i] = raw[6 + i];
            sz[i] = raw[12 + i];
            i += 1;
        }
        assert!(sz == z);
        assert!(sx == x, "new_jacobian: stored X differs from the Jacobian X given (Z stored unchanged)");
        assert!(sy == y, "new_jacobian: stored Y differs from the Jacobian Y given (Z stored unchanged)");
    }
    vcover!(some);
}

// =========================================================================================== G2

#[cfg_attr(kani, kani::proof)]
#[cfg_attr(kani, kani::unwind(194))]
#[cfg_attr(kani, kani::stub(blst::blst_p2_uncompress, stub_p2_uncompress))]
#[cfg_attr(kani, kani::stub(blst::blst_p2_affine_on_curve, stub_p2_affine_on_curve))]
#[cfg_attr(kani, kani::stub(blst::blst_p2_affine_in_g2, stub_p2_affine_in_g2))]
pub fn g2a_from_compressed_contract() {
    let b: [u8; 96] = any();
    let checked: bool = any();
    let r = if checked {
        <G2Affine as GroupEncoding>::from_bytes(&repr96(&b))
    } else {
        <G2Affine as GroupEncoding>::from_bytes_unchecked(&repr96(&b))
    };
    let some: bool = r.is_some().into();
    unsafe {
        assert!(P2_UNCOMPRESS.n == 1 && eqb(&P2_UNCOMPRESS.input, &b));
        let checks_ok = P2A_ON_CURVE.n >= 1
            && P2A_ON_CURVE.lb
            && eqn(&P2A_ON_CURVE.la[0], &P2_UNCOMPRESS.out)
            && P2A_IN_G2.n >= 1
            && P2A_IN_G2.lb
            && eqn(&P2A_IN_G2.la[0], &P2_UNCOMPRESS.out);
        if checked {
            assert!(some == (P2_UNCOMPRESS.ok && checks_ok));
        } else {
            assert!(some == P2_UNCOMPRESS.ok);
            assert!(P2A_ON_CURVE.n == 0 && P2A_IN_G2.n == 0);
        }
        if some {
            assert!(eqn(&g2a_raw(&r.unwrap()), &P2_UNCOMPRESS.out));
        }
    }
    vcover!(some && checked);
    vcover!(some && !checked);
    vcover!(!some);
}

/// G2Affine uncompressed: checked (UncompressedEncoding, SerdeObject::from_raw_bytes, read_raw) <=> deserialize ok
/// AND on-curve yes AND subgroup yes for that very point; unchecked <=> deserialize ok.
#[cfg_attr(kani, kani::proof)]
#[cfg_attr(kani, kani::unwind(194))]
#[cfg_attr(kani, kani::stub(blst::blst_p2_deserialize, stub_p2_deserialize))]
#[cfg_attr(kani, kani::stub(blst::blst_p2_affine_on_curve, stub_p2_affine_on_curve))]
#[cfg_attr(kani, kani::stub(blst::blst_p2_affine_in_g2, stub_p2_affine_in_g2))]
pub fn g2a_from_uncompressed_contract() {
    let b: [u8; 192] = any();
    let which: u8 = any();
    assume(which < 4);
    let (some, raw): (bool, [u64; 24]) = match which {
        0 => {
            let r = <G2Affine as UncompressedEncoding>::from_uncompressed(&repr192(&b));
            let s: bool = r.is_some().into();
            (s, if s { g2a_raw(&r.unwrap()) } else { [0; 24] })
        }
        1 => match <G2Affine as SerdeObject>::from_raw_bytes(&b) {
            Some(p) => (true, g2a_raw(&p)),
            None => (false, [0; 24]),
        },
        2 => {
            let mut rd: &[u8] = &b;
            let r = <G2Affine as SerdeObject>::read_raw(&mut rd);
            let o = match &r {
                Ok(p) => (true, g2a_raw(p)),
                Err(_) => (false, [0; 24]),
            };
            core::mem::forget(r);
            o
        }
        _ => {
            let r = <G2Affine as UncompressedEncoding>::from_uncompressed_unchecked(&repr192(&b));
            let s: bool = r.is_some().into();
            (s, if s { g2a_raw(&r.unwrap()) } else { [0; 24] })
        }
    };
    unsafe {
        assert!(P2_DESERIALIZE.n == 1 && eqb(&P2_DESERIALIZE.input, &b));
        let checks_ok = P2A_ON_CURVE.n >= 1
            && P2A_ON_CURVE.lb
            && eqn(&P2A_ON_CURVE.la[0], &P2_DESERIALIZE.out)
            && P2A_IN_G2.n >= 1
            && P2A_IN_G2.lb
            && eqn(&P2A_IN_G2.la[0], &P2_DESERIALIZE.out);
        if which < 3 {
            assert!(some == (P2_DESERIALIZE.ok && checks_ok));
        } else {
            assert!(some == P2_DESERIALIZE.ok);
            assert!(P2A_ON_CURVE.n == 0 && P2A_IN_G2.n == 0);
        }
        if some {
            assert!(eqn(&raw, &P2_DESERIALIZE.out));
        }
    }
    vcover!(some && which == 0);
    vcover!(some && which == 1);
    vcover!(some && which == 2);
    vcover!(some && which == 3);
    vcover!(!some);
}

#[cfg_attr(kani, kani::proof)]
#[cfg_attr(kani, kani::unwind(290))]
#[cfg_attr(kani, kani::stub(blst::blst_p2_uncompress, stub_p2_uncompress))]
#[cfg_attr(kani, kani::stub(blst::blst_p2_affine_on_curve, stub_p2_affine_on_curve))]
#[cfg_attr(kani, kani::stub(blst::blst_p2_affine_in_g2, stub_p2_affine_in_g2))]
#[cfg_attr(kani, kani::stub(blst::blst_p2_from_affine, stub_p2_from_affine))]
#[cfg_attr(kani, kani::stub(blst::blst_p2_on_curve, stub_p2_on_curve))]
#[cfg_attr(kani, kani::stub(blst::blst_p2_is_inf, stub_p2_is_inf))]
pub fn g2p_from_compressed_contract() {
    let b: [u8; 96] = any();
    let checked: bool = any();
    let r = if checked {
        <G2Projective as GroupEncoding>::from_bytes(&repr96(&b))
    } else {
        <G2Projective as GroupEncoding>::from_bytes_unchecked(&repr96(&b))
    };
    let some: bool = r.is_some().into();
    unsafe {
        assert!(P2_UNCOMPRESS.n == 1 && eqb(&P2_UNCOMPRESS.input, &b));
        let checks_ok = P2A_ON_CURVE.n >= 1
            && P2A_ON_CURVE.lb
            && eqn(&P2A_ON_CURVE.la[0], &P2_UNCOMPRESS.out)
            && P2A_IN_G2.n >= 1
            && P2A_IN_G2.lb
            && eqn(&P2A_IN_G2.la[0], &P2_UNCOMPRESS.out);
        if checked {
            assert!(some == (P2_UNCOMPRESS.ok && checks_ok));
        } else {
            assert!(some == P2_UNCOMPRESS.ok);
            assert!(P2A_ON_CURVE.n == 0 && P2A_IN_G2.n == 0);
        }
        if some {
            assert!(P2_FROM_AFFINE.n >= 1 && eqn(&P2_FROM_AFFINE.la[0], &pad36(&P2_UNCOMPRESS.out)));
            assert!(eqn(&g2p_raw(&r.unwrap()), &P2_FROM_AFFINE.lr));
        }
    }
    vcover!(some && checked);
    vcover!(some && !checked);
    vcover!(!some);
}

fn fp2_of(l: [u64; 12]) -> Fp2 {
    let mut c0 = [0u64; 6];
    let mut c1 = [0u64; 6];
    let mut i = 0;
    while i < 6 {
        c0[i] = l[i];
        c1[i] = l[6 + i];
        i += 1;
    }
    Fp2::from(blst::blst_fp2 { fp: [blst::blst_fp { l: c0 }, blst::blst_fp { l: c1 }] })
}
fn fp2_l(x: &Fp2) -> [u64; 12] {
    fp2_limbs(&blst::blst_fp2::from(*x))
}
fn canon_nonzero_fp2() -> [u64; 12] {
    let a: [u64; 12] = any();
    let (mut c0, mut c1) = ([0u64; 6], [0u64; 6]);
    let mut i = 0;
    while i < 6 {
        c0[i] = a[i];
        c1[i] = a[6 + i];
        i += 1;
    }
    assume(lt_le_limbs(&c0, &crate::c10::BLS_P) && lt_le_limbs(&c1, &crate::c10::BLS_P) && !is_zero_n(&c0));
    a
}

/// F2 for G2 (same statement as for G1). [expected to FAIL on the pinned tree]
#[cfg_attr(kani, kani::proof)]
#[cfg_attr(kani, kani::unwind(98))]
#[cfg_attr(kani, kani::stub(blst::blst_fp2_mul, stub_fp2_mul))]
#[cfg_attr(kani, kani::stub(blst::blst_fp2_sqr, stub_fp2_sqr))]
pub fn g2p_jacobian_coordinates_is_representation() {
    let (x, y, z) = (canon_nonzero_fp2(), canon_nonzero_fp2(), canon_nonzero_fp2());
    let mut one = [0u64; 12];
    let mut i = 0;
    while i < 6 {
        one[i] = FP_ONE[i];
        i += 1;
    }
    assume(z != one);
    let mut p = G2Projective::default();
    {
        let r: &mut blst::blst_p2 = p.as_mut();
        let mut i = 0;
        while i < 6 {
            r.x.fp[0].l[i] = x[i];
            r.x.fp[1].l[i] = x[6 + i];
            r.y.fp[0].l[i] = y[i];
            r.y.fp[1].l[i] = y[6 + i];
            r.z.fp[0].l[i] = z[i];
            r.z.fp[1].l[i] = z[6 + i];
            i += 1;
        }
    }
    let (jx, jy, jz) = p.jacobian_coordinates();
    assert!(fp2_l(&jz) == z);
    assert!(fp2_l(&jx) == x, "G2 jacobian_coordinates: X differs from the Jacobian X blst stores (Z returned unchanged)");
    assert!(fp2_l(&jy) == y, "G2 jacobian_coordinates: Y differs from the Jacobian Y blst stores (Z returned unchanged)");
    let _ = fp2_of;
    vcover!(true);
}

// =========================================================================================== Jubjub

fn fq_l(x: &Base) -> [u64; 4] {
    blst::blst_fr::from(*x).l
}

/// JubjubAffine::from_bytes / from_bytes_pre_zip216_compatibility (ZIP 216): sign-bit and canonicity logic.
/// With every blst_fr_* operation an oracle:
///   * the canonicity oracle is asked about the bytes WITH THE SIGN BIT CLEARED, `Some` => it said yes;
///   * v = what blst_fr_from_uint64 returned for those masked bytes;
///   * the square root is an oracle too (ff::helpers::sqrt_tonelli_shanks replaced by a recording stub: CBMC's symbolic
///     execution does not get through its 32x32 constant-time loop nest in 15 min); it is asked about the radicand
///     (v^2 - 1) * inv(1 + d v^2) built from the oracle field operations; `Some` => it returned a root x;
///   * u = x if (lsb(to_bytes(x)) ^ sign) == 0 else -x (the cneg oracle applied to x with flag true);
///   * ZIP 216 enabled: x == 0 with the sign bit set is rejected; disabled: accepted.
/// and conversely `None` only if one of these tests failed.
fn jubjub_affine_from_bytes(zip216: bool) {
    let b: [u8; 32] = any();
    let sign = b[31] >> 7;
    let mut masked = b;
    masked[31] &= 0x7f;
    let r = if zip216 { JubjubAffine::from_bytes(b) } else { JubjubAffine::from_bytes_pre_zip216_compatibility(b) };
    let some: bool = r.is_some().into();
    unsafe {
        assert!(FR_CHECK.n == 1 && eqb(&FR_CHECK.input, &masked));
        assert!(FR_FROM_U64.n == 1 && FR_FROM_U64.a[0][0] == limbs_of_bytes::<4, 32>(&masked));
        // radicand (v^2 - 1) * inv(1 + d v^2): the second blst_fr_mul call of from_bytes_inner (the first is d * v^2)
        assert!(FR_MUL.n == 2 && FR_INV.n == 1);
        let radicand = FR_MUL.r[1];
        assert!(SQRT.n == 1 && SQRT.la[0] == radicand, "square root not taken of (v^2-1)/(1+d v^2)");
        let x = SQRT.lr;
        let sqrt_ok = SQRT.lb;
        // what the sign-fixing closure sees (CtOption::and_then hands it the default value when the root test failed)
        let u_in = if sqrt_ok { x } else { [0u64; 4] };
        assert!(U64_FROM_FR.n >= 1 && U64_FROM_FR.la[0] == u_in);
        assert!(FR_CNEG.n >= 1 && FR_CNEG.la[0] == u_in && FR_CNEG.lb);
        let flip = ((U64_FROM_FR.lr[0] as u8) ^ sign) & 1 == 1;
        let u_zero = is_zero_n(&u_in);
        let expected = FR_CHECK.ok && sqrt_ok && !(zip216 && u_zero && flip);
        assert!(some == expected, "acceptance differs from: canonical v AND square root exists AND NOT (ZIP216 and u == 0 and sign bit set)");
        if some {
            let p = r.unwrap();
            assert!(fq_l(&p.get_v()) == FR_FROM_U64.r[0]);
            assert!(fq_l(&p.get_u()) == if flip { FR_CNEG.lr } else { x }, "wrong sign selection for u");
        }
        vcover!(!zip216 || (!some && FR_CHECK.ok && sqrt_ok)); // the ZIP 216 rejection is reachable
        vcover!(!some && FR_CHECK.ok && !sqrt_ok);
        vcover!(!some && !FR_CHECK.ok);
    }
    vcover!(some && sign == 1);
    vcover!(some && sign == 0);
}
#[cfg_attr(kani, kani::proof)]
#[cfg_attr(kani, kani::unwind(34))]
#[cfg_attr(kani, kani::stub(ff::helpers::sqrt_tonelli_shanks, crate::stubs::sqrt_oracle))]
#[cfg_attr(kani, kani::stub(blst::blst_scalar_fr_check, stub_scalar_fr_check))]
#[cfg_attr(kani, kani::stub(zeroize::optimization_barrier, crate::stubs::noop_barrier))]
#[cfg_attr(kani, kani::stub(blst::blst_fr_from_uint64, stub_fr_from_uint64))]
#[cfg_attr(kani, kani::stub(blst::blst_uint64_from_fr, stub_uint64_from_fr))]
#[cfg_attr(kani, kani::stub(blst::blst_fr_add, stub_fr_add))]
#[cfg_attr(kani, kani::stub(blst::blst_fr_sub, stub_fr_sub))]
#[cfg_attr(kani, kani::stub(blst::blst_fr_mul, stub_fr_mul))]
#[cfg_attr(kani, kani::stub(blst::blst_fr_sqr, stub_fr_sqr))]
#[cfg_attr(kani, kani::stub(blst::blst_fr_cneg, stub_fr_cneg))]
#[cfg_attr(kani, kani::stub(blst::blst_fr_eucl_inverse, stub_fr_eucl_inverse))]
pub fn jubjub_affine_from_bytes_zip216() {
    jubjub_affine_from_bytes(true)
}

#[cfg_attr(kani, kani::proof)]
#[cfg_attr(kani, kani::unwind(34))]
#[cfg_attr(kani, kani::stub(ff::helpers::sqrt_tonelli_shanks, crate::stubs::sqrt_oracle))]
#[cfg_attr(kani, kani::stub(blst::blst_scalar_fr_check, stub_scalar_fr_check))]
#[cfg_attr(kani, kani::stub(zeroize::optimization_barrier, crate::stubs::noop_barrier))]
#[cfg_attr(kani, kani::stub(blst::blst_fr_from_uint64, stub_fr_from_uint64))]
#[cfg_attr(kani, kani::stub(blst::blst_uint64_from_fr, stub_uint64_from_fr))]
#[cfg_attr(kani, kani::stub(blst::blst_fr_add, stub_fr_add))]
#[cfg_attr(kani, kani::stub(blst::blst_fr_sub, stub_fr_sub))]
#[cfg_attr(kani, kani::stub(blst::blst_fr_mul, stub_fr_mul))]
#[cfg_attr(kani, kani::stub(blst::blst_fr_sqr, stub_fr_sqr))]
#[cfg_attr(kani, kani::stub(blst::blst_fr_cneg, stub_fr_cneg))]
#[cfg_attr(kani, kani::stub(blst::blst_fr_eucl_inverse, stub_fr_eucl_inverse))]
pub fn jubjub_affine_from_bytes_pre_zip216() {
    jubjub_affine_from_bytes(false)
}

/// JubjubAffine::to_bytes: v's little-endian bytes with bit 255 := lsb(u's bytes)
#[cfg_attr(kani, kani::proof)]
#[cfg_attr(kani, kani::unwind(34))]
#[cfg_attr(kani, kani::stub(blst::blst_uint64_from_fr, stub_uint64_from_fr))]
pub fn jubjub_affine_to_bytes_contract() {
    let (u, v): ([u64; 4], [u64; 4]) = (any(), any());
    let p = JubjubAffine::from_raw_unchecked(Base::from(blst::blst_fr { l: u }), Base::from(blst::blst_fr { l: v }));
    let out = p.to_bytes();
    unsafe {
        assert!(U64_FROM_FR.n == 2);
        assert!(U64_FROM_FR.a[0][0] == v && U64_FROM_FR.a[1][0] == u);
        let mut exp = limbs4_to_bytes(&U64_FROM_FR.r[0]);
        exp[31] |= ((U64_FROM_FR.r[1][0] as u8) & 1) << 7;
        assert!(out == exp);
    }
    vcover!(out[31] >> 7 == 1);
    vcover!(out[31] >> 7 == 0);
    let _ = (JubjubExtended::identity(), core::mem::size_of::<JubjubSubgroup>());
}

// =========================================================================================== Jubjub subgroup predicates
// `is_torsion_free` is `[r]P == identity` with `[r]P` a 252-step double-and-add over blst field operations. The scalar
// multiplication (private `JubjubExtended::multiply`) is replaced by a recording oracle that answers an ARBITRARY extended
// point R; what is decided is how the predicates USE that answer: identity means u = 0 AND v = z, not merely u = 0.
use crate::stubs::{jj_from_limbs, jj_limbs, JJ_DBL, JJ_MUL, JJ_MUL_BY};
use group::cofactor::CofactorGroup;
use group::Group;

/// Montgomery form of 1 in the BLS12-381 scalar field (2^256 mod q, python)
pub const FQ_ONE: [u64; 4] = [0x00000001fffffffe, 0x5884b7fa00034802, 0x998c4fefecbc4ff5, 0x1824b159acc5056f];
/// a point of the prime-order subgroup (affine u, v as integers; [r]G = (0, 1) checked with python big integers) ...
pub const JJ_G: ([u64; 4], [u64; 4]) = (
    [0x512dfea318d56fe5, 0x04315c657fbe375f, 0x5ed37ee3b172f5ee, 0x3ea5c4673a121ca3],
    [0xc10cea38d50c55cb, 0xb9aa6e8e40808413, 0x78f7d30d3f616cb3, 0x57137b83ea6edb4f],
);
/// ... and G + (0, -1) = (-u, -v), a point of order 2r: [r](-u, -v) = (0, -1)
pub const JJ_G_PLUS_ORDER2: ([u64; 4], [u64; 4]) = (
    [0xaed2015be72a901c, 0x4f8c479d8040249f, 0xd4665924582ee217, 0x3547e2ebef8b60a4],
    [0x3ef315c62af3aa36, 0x9a133574bf7dd7eb, 0xba4204faca406b51, 0x1cda2bcf3f2ea1f8],
);

/// the definition: (u, v, z, ..) is the identity iff u = 0 and v = z
fn ident_def(l: &[u64; 20]) -> bool {
    l[0] == 0 && l[1] == 0 && l[2] == 0 && l[3] == 0 && l[4] == l[8] && l[5] == l[9] && l[6] == l[10] && l[7] == l[11]
}

/// (c) `is_identity` of extended and affine points against the definition, on arbitrary limbs
#[cfg_attr(kani, kani::proof)]
#[cfg_attr(kani, kani::unwind(34))]
pub fn jj_is_identity_definition() {
    let l: [u64; 20] = any();
    let p = jj_from_limbs(&l);
    assert!(bool::from(p.is_identity()) == ident_def(&l));
    assert!(bool::from(Group::is_identity(&p)) == ident_def(&l));
    let a = JubjubAffine::from_raw_unchecked(
        Base::from(blst::blst_fr { l: [l[0], l[1], l[2], l[3]] }),
        Base::from(blst::blst_fr { l: [l[4], l[5], l[6], l[7]] }),
    );
    let a_ident = l[0] == 0 && l[1] == 0 && l[2] == 0 && l[3] == 0 && [l[4], l[5], l[6], l[7]] == FQ_ONE;
    assert!(bool::from(a.is_identity()) == a_ident);
    // the identity constants are the identity
    let id = jj_limbs(&JubjubExtended::identity());
    assert!(ident_def(&id) && [id[4], id[5], id[6], id[7]] == FQ_ONE);
    assert!(bool::from(JubjubAffine::identity().is_identity()));
    vcover!(ident_def(&l));
    vcover!(l[0] == 0 && l[1] == 0 && l[2] == 0 && l[3] == 0 && !ident_def(&l), "u = 0 but not the identity (e.g. the order-2 point)");
    vcover!(a_ident);
}

/// (a)+(b) every torsion predicate asks the multiplication oracle about exactly this point and the scalar r, and is true
/// iff the answer R is the identity (u = 0 and v = z):
/// 0 inherent is_torsion_free, 1 CofactorGroup::is_torsion_free, 2 is_prime_order (and P itself not the identity),
/// 3 CofactorGroup::into_subgroup (Some iff, value = P), 4 / 5 the JubjubAffine versions of 0 / 2
#[cfg_attr(kani, kani::proof)]
#[cfg_attr(kani, kani::unwind(34))]
#[cfg_attr(kani, kani::stub(midnight_curves::JubjubExtended::multiply, crate::stubs::jj_multiply_oracle))]
pub fn jj_torsion_predicates_contract() {
    let mut l: [u64; 20] = any();
    let which: u8 = any();
    assume(which < 6);
    if which >= 4 {
        // affine (u, v) is the extended point (u, v, 1, u, v)
        let mut k = 0;
        while k < 4 {
            l[8 + k] = FQ_ONE[k];
            l[12 + k] = l[k];
            l[16 + k] = l[4 + k];
            k += 1;
        }
    }
    let p = jj_from_limbs(&l);
    let a = JubjubAffine::from_raw_unchecked(
        Base::from(blst::blst_fr { l: [l[0], l[1], l[2], l[3]] }),
        Base::from(blst::blst_fr { l: [l[4], l[5], l[6], l[7]] }),
    );
    let (answer, value): (bool, [u64; 20]) = match which {
        0 => (p.is_torsion_free().into(), l),
        1 => (CofactorGroup::is_torsion_free(&p).into(), l),
        2 => (p.is_prime_order().into(), l),
        3 => {
            let s = CofactorGroup::into_subgroup(p);
            let some: bool = s.is_some().into();
            (some, if some { jj_limbs(&JubjubExtended::from(s.unwrap())) } else { l })
        }
        4 => (a.is_torsion_free().into(), l),
        _ => (a.is_prime_order().into(), l),
    };
    unsafe {
        assert!(JJ_MUL.n == 1, "the scalar multiplication is consulted exactly once");
        assert!(eqn(&JJ_MUL.a[0][0], &l), "... about this very point");
        assert!(eqb(&JJ_MUL_BY, &limbs4_to_bytes(&crate::c10::JFR_M)), "... with the scalar r");
        let r_is_identity = ident_def(&JJ_MUL.r[0]);
        let expected = if which == 2 || which == 5 { r_is_identity && !ident_def(&l) } else { r_is_identity };
        assert!(answer == expected, "torsion predicate differs from: [r]P is the identity (u = 0 AND v = z)");
        assert!(eqn(&value, &l));
        let r = JJ_MUL.r[0];
        vcover!(r[0] == 0 && r[1] == 0 && r[2] == 0 && r[3] == 0 && !r_is_identity, "[r]P has u = 0 but is not the identity");
        vcover!(answer && which == 3);
        vcover!(answer && which == 5);
        vcover!(!answer);
    }
}

/// (a) on a CONCRETE point so that the native replay runs the real code end to end: under Kani `multiply` is the oracle
/// (contract as above); natively (binary `replay_real`: real blst, no stub) R is the real [r]P obtained through the public
/// `to_niels().multiply_bits(r)`. For G + (0,-1) the real R is (0, -1): u = 0 but not the identity.
fn jj_torsion_free_concrete(pt: ([u64; 4], [u64; 4])) {
    let p = JubjubAffine::from_raw_unchecked(Base::from_raw(pt.0), Base::from_raw(pt.1)).to_extended();
    let t: bool = p.is_torsion_free().into();
    #[cfg(kani)]
    let r: [u64; 20] = unsafe {
        assert!(JJ_MUL.n == 1 && eqn(&JJ_MUL.a[0][0], &jj_limbs(&p)));
        assert!(eqb(&JJ_MUL_BY, &limbs4_to_bytes(&crate::c10::JFR_M)));
        JJ_MUL.r[0]
    };
    #[cfg(not(kani))]
    let r: [u64; 20] = jj_limbs(&p.to_niels().multiply_bits(&limbs4_to_bytes(&crate::c10::JFR_M)));
    assert!(t == ident_def(&r), "is_torsion_free differs from: [r]P is the identity (u = 0 AND v = z)");
    vcover!(t);
    vcover!(!t);
}
#[cfg_attr(kani, kani::proof)]
#[cfg_attr(kani, kani::unwind(34))]
#[cfg_attr(kani, kani::stub(midnight_curves::JubjubExtended::multiply, crate::stubs::jj_multiply_oracle))]
pub fn jj_torsion_free_point_of_order_2r() {
    jj_torsion_free_concrete(JJ_G_PLUS_ORDER2)
}
#[cfg_attr(kani, kani::proof)]
#[cfg_attr(kani, kani::unwind(34))]
#[cfg_attr(kani, kani::stub(midnight_curves::JubjubExtended::multiply, crate::stubs::jj_multiply_oracle))]
pub fn jj_torsion_free_subgroup_point() {
    jj_torsion_free_concrete(JJ_G)
}

/// (b) is_small_order (extended and affine) = u-coordinate of double(double(P)) is zero, with `double` an oracle
#[cfg_attr(kani, kani::proof)]
#[cfg_attr(kani, kani::unwind(34))]
#[cfg_attr(kani, kani::stub(midnight_curves::JubjubExtended::double, crate::stubs::jj_double_oracle))]
pub fn jj_is_small_order_contract() {
    let mut l: [u64; 20] = any();
    let affine: bool = any();
    if affine {
        let mut k = 0;
        while k < 4 {
            l[8 + k] = FQ_ONE[k];
            l[12 + k] = l[k];
            l[16 + k] = l[4 + k];
            k += 1;
        }
    }
    let s: bool = if affine {
        JubjubAffine::from_raw_unchecked(
            Base::from(blst::blst_fr { l: [l[0], l[1], l[2], l[3]] }),
            Base::from(blst::blst_fr { l: [l[4], l[5], l[6], l[7]] }),
        )
        .is_small_order()
        .into()
    } else {
        jj_from_limbs(&l).is_small_order().into()
    };
    unsafe {
        assert!(JJ_DBL.n == 2 && eqn(&JJ_DBL.a[0][0], &l) && eqn(&JJ_DBL.a[1][0], &JJ_DBL.r[0]));
        let r = JJ_DBL.r[1];
        assert!(s == (r[0] == 0 && r[1] == 0 && r[2] == 0 && r[3] == 0));
    }
    vcover!(s && affine);
    vcover!(s && !affine);
    vcover!(!s);
}

/// (b) JubjubSubgroup::from_bytes (checked) is Some iff the affine decoder accepted (canonical v, square root exists, ZIP 216)
/// AND the multiplication oracle, asked about the decoded point (u, v, 1, u, v) and r, answered the identity; the value is that
/// point. from_bytes_unchecked is Some iff the affine decoder accepted and never consults the oracle.
#[cfg_attr(kani, kani::proof)]
#[cfg_attr(kani, kani::unwind(34))]
#[cfg_attr(kani, kani::stub(midnight_curves::JubjubExtended::multiply, crate::stubs::jj_multiply_oracle))]
#[cfg_attr(kani, kani::stub(ff::helpers::sqrt_tonelli_shanks, crate::stubs::sqrt_oracle))]
#[cfg_attr(kani, kani::stub(blst::blst_scalar_fr_check, stub_scalar_fr_check))]
#[cfg_attr(kani, kani::stub(zeroize::optimization_barrier, crate::stubs::noop_barrier))]
#[cfg_attr(kani, kani::stub(blst::blst_fr_from_uint64, stub_fr_from_uint64))]
#[cfg_attr(kani, kani::stub(blst::blst_uint64_from_fr, stub_uint64_from_fr))]
#[cfg_attr(kani, kani::stub(blst::blst_fr_add, stub_fr_add))]
#[cfg_attr(kani, kani::stub(blst::blst_fr_sub, stub_fr_sub))]
#[cfg_attr(kani, kani::stub(blst::blst_fr_mul, stub_fr_mul))]
#[cfg_attr(kani, kani::stub(blst::blst_fr_sqr, stub_fr_sqr))]
#[cfg_attr(kani, kani::stub(blst::blst_fr_cneg, stub_fr_cneg))]
#[cfg_attr(kani, kani::stub(blst::blst_fr_eucl_inverse, stub_fr_eucl_inverse))]
pub fn jj_subgroup_from_bytes_contract() {
    let b: [u8; 32] = any();
    let checked: bool = any();
    let sign = b[31] >> 7;
    let r = if checked {
        <JubjubSubgroup as GroupEncoding>::from_bytes(&b)
    } else {
        <JubjubSubgroup as GroupEncoding>::from_bytes_unchecked(&b)
    };
    let some: bool = r.is_some().into();
    unsafe {
        // verdict of the affine decoder, from the oracle logs (same reading as in jubjub_affine_from_bytes)
        assert!(FR_CHECK.n == 1 && FR_MUL.n == 2 && SQRT.n == 1 && eqn(&SQRT.la[0], &FR_MUL.r[1]));
        let sqrt_ok = SQRT.lb;
        let u_in = if sqrt_ok { SQRT.lr } else { [0u64; 4] };
        let flip = ((U64_FROM_FR.lr[0] as u8) ^ sign) & 1 == 1;
        let decoder_ok = FR_CHECK.ok && sqrt_ok && !(is_zero_n(&u_in) && flip);
        let u = if flip { FR_CNEG.lr } else { SQRT.lr };
        let v = FR_FROM_U64.r[0];
        let mut pt = [0u64; 20];
        let mut k = 0;
        while k < 4 {
            pt[k] = u[k];
            pt[4 + k] = v[k];
            pt[8 + k] = FQ_ONE[k];
            pt[12 + k] = u[k];
            pt[16 + k] = v[k];
            k += 1;
        }
        if checked {
            assert!(JJ_MUL.n == 1 && eqb(&JJ_MUL_BY, &limbs4_to_bytes(&crate::c10::JFR_M)));
            if decoder_ok {
                assert!(eqn(&JJ_MUL.a[0][0], &pt), "the subgroup test is not about the decoded point");
            }
            assert!(some == (decoder_ok && ident_def(&JJ_MUL.r[0])), "JubjubSubgroup::from_bytes: Some differs from decoder ok AND [r]P identity");
        } else {
            assert!(JJ_MUL.n == 0);
            assert!(some == decoder_ok);
        }
        if some {
            assert!(eqn(&jj_limbs(&JubjubExtended::from(r.unwrap())), &pt));
        }
        vcover!(checked && decoder_ok && !some);
    }
    vcover!(some && checked);
    vcover!(some && !checked);
    vcover!(!some);
}
