// The native replay binary re-defines the blst symbols that the Kani harnesses stub (src/ffi.rs,
// `mod interpose`), so that the real Rust wrappers of midnight-curves run against the SAME scripted
// oracles as under Kani. libblst.a also defines them: let the first definition (ours) win.
fn main() {
    println!("cargo:rustc-link-arg-bins=-Wl,--allow-multiple-definition");
}
