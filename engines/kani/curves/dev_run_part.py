"""dev runner: python3-vt dev_run_part.py C10 [--only X]  (evidence goes to /verif/build/kdev/evidence, not /verif/evidence)"""
import sys, os, importlib.util
sys.path.insert(0, "/verif/engines/pysmt")
from vf import core
if os.path.abspath(core.REPO) == "/repo":
    core.EVID = "/verif/build/kdev/evidence"; core.REPLAYS = core.EVID + "/replays"
pid = sys.argv[1]
spec = importlib.util.spec_from_file_location("part", f"/verif/specs/parts/{pid}_K.py")
mod = importlib.util.module_from_spec(spec); spec.loader.exec_module(mod)
run = core.Run(pid)
run.only = sys.argv[3] if len(sys.argv) > 3 and sys.argv[2] == "--only" else None
mod.check(run)
rc = run.finish()
for o in run.obs:
    print(f"{o.status:12s} {o.solver_s:7.1f}s {o.id}  {o.detail[:150]}")
sys.exit(rc)
