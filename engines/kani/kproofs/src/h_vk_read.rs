//! C16 (a): VerifyingKey::read_from_cs framing.
use crate::kcs::KCS;
use crate::toyf::ToyF;
use midnight_proofs::plonk::{ConstraintSystem, VerifyingKey};
use midnight_proofs::utils::SerdeFormat;

/// A small concrete constraint system: 2 fixed columns, 1 selector (compiled into a third fixed
/// column, queried at Rotation::cur, by read_from_cs itself via directly_convert_selectors_to_fixed),
/// 1 advice column, 2 permutation columns. No gates: CBMC cannot constant-fold the recursive
/// Expression walks (measured: out of memory with a single 3-node gate).
fn make_cs() -> ConstraintSystem<ToyF> {
    let mut cs = ConstraintSystem::<ToyF>::default();
    let _f0 = cs.fixed_column();
    let f1 = cs.fixed_column();
    let a = cs.advice_column();
    cs.enable_equality(a);
    cs.enable_equality(f1);
    cs
}

const BUF: usize = 12;

fn run(k_max: u8, check_post: bool) {
    let buf: [u8; BUF] = kani::any();
    let len: usize = kani::any();
    kani::assume(len <= BUF);
    // version byte fixed to the accepted one, so that the interesting paths are not crowded out
    kani::assume(buf[1] <= k_max);
    let cs = make_cs();
    let mut rd: &[u8] = &buf[..len];
    let r = VerifyingKey::<ToyF, KCS>::read_from_cs(&mut rd, SerdeFormat::RawBytes, cs);
    match r {
        Ok(vk) => {
            kani::cover!(true, "read_from_cs returns Ok");
            if check_post {
                // index expressions of the verifier (proofs/src/plonk/verifier.rs: `&vk.fixed_commitments[column.index()]`
                // for every (column, at) in vk.cs.fixed_queries; permutation/verifier.rs zips
                // vk.permutation.commitments with cs.permutation.columns chunks)
                let n = vk.fixed_commitments().len();
                for (col, _) in vk.cs().fixed_queries().iter() {
                    assert!(col.index() < n, "fixed query column has no commitment");
                }
                assert!(vk.permutation().commitments().len() == vk.cs().permutation().get_columns().len());
            }
            core::mem::forget(vk);
        }
        Err(e) => {
            core::mem::forget(e);
        }
    }
}

#[kani::proof]
#[kani::unwind(4)]
#[kani::stub(std::fmt::format, crate::stubs::format_stub)]
#[kani::stub(std::hash::RandomState::new, crate::stubs::random_state_new_stub)]
#[kani::stub(midnight_proofs::poly::EvaluationDomain::new, crate::stubs::domain_new_stub)]
fn vk_read_total_small_k() {
    run(5, false)
}
