//! C16 (a): VerifyingKey::read_from_cs framing.
use crate::kcs::KCS;
use crate::toyf::ToyF;
use midnight_proofs::plonk::{ConstraintSystem, VerifyingKey};
use midnight_proofs::utils::SerdeFormat;

/// A small concrete constraint system: 2 fixed columns, 1 selector (compiled into a third fixed
/// column, queried at Rotation::cur, by read_from_cs itself via directly_convert_selectors_to_fixed),
/// 1 advice column, 2 permutation columns. No gates: CBMC cannot constant-fold the recursive
/// Expression walks (measured: out of memory with a single 3-node gate).
fn make_cs() -> ConstraintSystem<ToyF> {
    let mut cs = ConstraintSystem::<ToyF>::default();
    let _f0 = cs.fixed_column();
    let f1 = cs.fixed_column();
    let a = cs.advice_column();
    cs.enable_equality(a);
    cs.enable_equality(f1);
    cs
}

const BUF: usize = 12;

fn run(k_max: u8, check_post: bool) {
    let buf: [u8; BUF] = kani::any();
    let len: usize = kani::any();
    kani::assume(len <= BUF);
    // version byte fixed to the accepted one, so that the interesting paths are not crowded out
    kani::assume(buf[1] <= k_max);
    let cs = make_cs();
    let mut rd: &[u8] = &buf[..len];
    let r = VerifyingKey::<ToyF, KCS>::read_from_cs(&mut rd, SerdeFormat::RawBytes, cs);
    match r {
        Ok(vk) => {
            kani::cover!(true, "read_from_cs returns Ok");
            if check_post {
                // index expressions of the verifier (proofs/src/plonk/verifier.rs: `&vk.fixed_commitments[column.index()]`
                // for every (column, at) in vk.cs.fixed_queries; permutation/verifier.rs zips
                // vk.permutation.commitments with cs.permutation.columns chunks)
                let n = vk.fixed_commitments().len();
                for (col, _) in vk.cs().fixed_queries().iter() {
                    assert!(col.index() < n, "fixed query column has no commitment");
                }
                assert!(vk.permutation().commitments().len() == vk.cs().permutation().get_columns().len());
            }
            core::mem::forget(vk);
        }
        Err(e) => {
            core::mem::forget(e);
        }
    }
}

#[kani::proof]
#[kani::unwind(4)]
#[kani::stub(std::fmt::format, crate::stubs::format_stub)]
#[kani::stub(std::hash::RandomState::new, crate::stubs::random_state_new_stub)]
#[kani::stub(midnight_proofs::poly::EvaluationDomain::new, crate::stubs::domain_new_stub)]
fn vk_read_total_small_k() {
    run(5, false)
}

#[kani::proof]
#[kani::unwind(4)]
#[kani::stub(std::hash::RandomState::new, crate::stubs::random_state_new_stub)]
fn probe_cs_drop() {
    let cs = ConstraintSystem::<ToyF>::default();
    drop(cs);
}
#[kani::proof]
#[kani::unwind(4)]
#[kani::stub(std::hash::RandomState::new, crate::stubs::random_state_new_stub)]
fn probe_cs_make_drop() {
    let cs = make_cs();
    drop(cs);
}
#[kani::proof]
#[kani::unwind(4)]
#[kani::stub(std::hash::RandomState::new, crate::stubs::random_state_new_stub)]
fn probe_cs_convert() {
    let cs = make_cs();
    let (cs, _) = cs.directly_convert_selectors_to_fixed(vec![]);
    core::mem::forget(cs);
}
fn take_cs(cs: ConstraintSystem<ToyF>, rd: &mut &[u8]) -> std::io::Result<ConstraintSystem<ToyF>> {
    use std::io::Read;
    let mut b = [0u8; 1];
    rd.read_exact(&mut b)?;
    if b[0] != 3 {
        return Err(std::io::Error::from(std::io::ErrorKind::InvalidData));
    }
    let d = midnight_proofs::poly::EvaluationDomain::<ToyF>::new(cs.degree() as u32, b[0] as u32);
    let mut n = [0u8; 4];
    rd.read_exact(&mut n)?;
    let n = u32::from_le_bytes(n);
    use midnight_proofs::utils::helpers::ProcessedSerdeObject;
    let v: Vec<crate::kcs::KCom> =
        (0..n).map(|_| crate::kcs::KCom::read(rd, SerdeFormat::RawBytes)).collect::<Result<_, _>>()?;
    let (cs, _) = cs.directly_convert_selectors_to_fixed(vec![]);
    core::mem::forget(v);
    core::mem::forget(d);
    Ok(cs)
}
#[kani::proof]
#[kani::unwind(4)]
#[kani::stub(std::hash::RandomState::new, crate::stubs::random_state_new_stub)]
#[kani::stub(midnight_proofs::poly::EvaluationDomain::new, crate::stubs::domain_new_stub)]
fn probe_cs_take() {
    let buf: [u8; 8] = kani::any();
    let len: usize = kani::any();
    kani::assume(len <= 8);
    let mut rd: &[u8] = &buf[..len];
    let cs = make_cs();
    match take_cs(cs, &mut rd) {
        Ok(cs) => core::mem::forget(cs),
        Err(e) => core::mem::forget(e),
    }
}
#[kani::proof]
#[kani::unwind(7)]
#[kani::stub(std::fmt::format, crate::stubs::format_stub)]
#[kani::stub(std::hash::RandomState::new, crate::stubs::random_state_new_stub)]
#[kani::stub(midnight_proofs::poly::EvaluationDomain::new, crate::stubs::domain_new_stub)]
#[kani::stub(core::arch::x86_64::__cpuid_count, crate::stubs::cpuid_stub)]
#[kani::stub(blake2b_simd::State::update, crate::stubs::blake2b_update_stub)]
#[kani::stub(blake2b_simd::State::finalize, crate::stubs::blake2b_finalize_stub)]
fn probe_vk_read_len0() {
    let buf: [u8; 11] = kani::any();
    kani::assume(buf[1] <= 5);
    kani::assume(u32::from_le_bytes([buf[2], buf[3], buf[4], buf[5]]) <= 4);
    let cs = make_cs();
    let mut rd: &[u8] = &buf[..11];
    let r = VerifyingKey::<ToyF, KCS>::read_from_cs(&mut rd, SerdeFormat::RawBytes, cs);
    match r {
        Ok(vk) => core::mem::forget(vk),
        Err(e) => core::mem::forget(e),
    }
}
