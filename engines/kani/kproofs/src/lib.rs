//! Kani harnesses over midnight-proofs (engine K). Harness modules are `#[cfg(kani)]`; the toy field
//! and the stub commitment scheme are the environment the REAL generic code is instantiated at.
pub mod kcs;
pub mod toyf;

#[cfg(kani)]
mod stubs;
#[cfg(kani)]
mod h_vk_read;
#[cfg(kani)]
mod h_domain;
