//! Toy prime field F_97 (97 = 2^5 * 3 + 1, so S = 5 and a primitive cube root exists). It is the
//! ENVIRONMENT the generic midnight-proofs code is instantiated at (never the code under test): every
//! function of midnight-proofs that is generic over `F: PrimeField` runs unchanged on it.
use core::iter::{Product, Sum};
use core::ops::{Add, AddAssign, Mul, MulAssign, Neg, Sub, SubAssign};
use ff::{Field, FromUniformBytes, PrimeField, WithSmallOrderMulGroup};
use rand_core::RngCore;
use subtle::{Choice, ConditionallySelectable, ConstantTimeEq, CtOption};

pub const P: u16 = 97;

#[derive(Clone, Copy, Debug, Default, PartialEq, Eq, Hash, PartialOrd, Ord)]
pub struct ToyF(pub u8);

impl ToyF {
    #[inline]
    pub const fn new(x: u16) -> Self {
        ToyF((x % P) as u8)
    }
}

impl ConstantTimeEq for ToyF {
    fn ct_eq(&self, o: &Self) -> Choice {
        Choice::from((self.0 == o.0) as u8)
    }
}
impl ConditionallySelectable for ToyF {
    fn conditional_select(a: &Self, b: &Self, c: Choice) -> Self {
        if c.unwrap_u8() == 1 {
            *b
        } else {
            *a
        }
    }
}
impl Neg for ToyF {
    type Output = ToyF;
    fn neg(self) -> ToyF {
        ToyF::new(P - self.0 as u16)
    }
}
impl<'a> Neg for &'a ToyF {
    type Output = ToyF;
    fn neg(self) -> ToyF {
        -*self
    }
}
macro_rules! binop {
    ($tr:ident, $f:ident, $tra:ident, $fa:ident, $e:expr) => {
        impl $tr<ToyF> for ToyF {
            type Output = ToyF;
            fn $f(self, o: ToyF) -> ToyF {
                let f: fn(u16, u16) -> u16 = $e;
                ToyF::new(f(self.0 as u16, o.0 as u16))
            }
        }
        impl<'a> $tr<&'a ToyF> for ToyF {
            type Output = ToyF;
            fn $f(self, o: &'a ToyF) -> ToyF {
                $tr::$f(self, *o)
            }
        }
        impl<'a, 'b> $tr<&'b ToyF> for &'a ToyF {
            type Output = ToyF;
            fn $f(self, o: &'b ToyF) -> ToyF {
                $tr::$f(*self, *o)
            }
        }
        impl<'a> $tr<ToyF> for &'a ToyF {
            type Output = ToyF;
            fn $f(self, o: ToyF) -> ToyF {
                $tr::$f(*self, o)
            }
        }
        impl $tra<ToyF> for ToyF {
            fn $fa(&mut self, o: ToyF) {
                *self = $tr::$f(*self, o);
            }
        }
        impl<'a> $tra<&'a ToyF> for ToyF {
            fn $fa(&mut self, o: &'a ToyF) {
                *self = $tr::$f(*self, *o);
            }
        }
    };
}
binop!(Add, add, AddAssign, add_assign, |a, b| a + b);
binop!(Sub, sub, SubAssign, sub_assign, |a, b| a + P - b);
binop!(Mul, mul, MulAssign, mul_assign, |a, b| a * b);

impl Sum for ToyF {
    fn sum<I: Iterator<Item = ToyF>>(i: I) -> ToyF {
        i.fold(ToyF(0), |a, b| a + b)
    }
}
impl<'a> Sum<&'a ToyF> for ToyF {
    fn sum<I: Iterator<Item = &'a ToyF>>(i: I) -> ToyF {
        i.fold(ToyF(0), |a, b| a + *b)
    }
}
impl Product for ToyF {
    fn product<I: Iterator<Item = ToyF>>(i: I) -> ToyF {
        i.fold(ToyF(1), |a, b| a * b)
    }
}
impl<'a> Product<&'a ToyF> for ToyF {
    fn product<I: Iterator<Item = &'a ToyF>>(i: I) -> ToyF {
        i.fold(ToyF(1), |a, b| a * *b)
    }
}
impl From<u64> for ToyF {
    fn from(x: u64) -> ToyF {
        ToyF((x % P as u64) as u8)
    }
}

impl Field for ToyF {
    const ZERO: Self = ToyF(0);
    const ONE: Self = ToyF(1);
    fn random(mut rng: impl RngCore) -> Self {
        ToyF::new((rng.next_u32() % P as u32) as u16)
    }
    fn square(&self) -> Self {
        *self * *self
    }
    fn double(&self) -> Self {
        *self + *self
    }
    fn invert(&self) -> CtOption<Self> {
        // x^(p-2), p-2 = 95 = 0b1011111
        let x = *self;
        let mut acc = ToyF(1);
        let mut i = 7;
        while i > 0 {
            i -= 1;
            acc = acc * acc;
            if (95u8 >> i) & 1 == 1 {
                acc = acc * x;
            }
        }
        CtOption::new(acc, Choice::from((x.0 != 0) as u8))
    }
    fn sqrt_ratio(_: &Self, _: &Self) -> (Choice, Self) {
        unimplemented!()
    }
    /// x^e for e < 2^64 given as limbs; higher limbs must be zero for this toy field's callers
    /// (EvaluationDomain passes [n,0,0,0]); exponent reduced mod 96 first (x^96 = 1 for x != 0).
    fn pow_vartime<S: AsRef<[u64]>>(&self, exp: S) -> Self {
        let mut e: u64 = 0; // exponent mod 96; 2^64 mod 96 = 64
        for limb in exp.as_ref().iter().rev() {
            e = (e * 64 + (*limb % 96)) % 96;
        }
        if self.0 == 0 {
            let all_zero = exp.as_ref().iter().all(|l| *l == 0);
            return if all_zero { ToyF(1) } else { ToyF(0) };
        }
        let mut acc = ToyF(1);
        let mut i = 7;
        while i > 0 {
            i -= 1;
            acc = acc * acc;
            if (e >> i) & 1 == 1 {
                acc = acc * *self;
            }
        }
        acc
    }
}

impl PrimeField for ToyF {
    type Repr = [u8; 1];
    fn from_repr(r: [u8; 1]) -> CtOption<Self> {
        CtOption::new(ToyF(r[0]), Choice::from(((r[0] as u16) < P) as u8))
    }
    fn to_repr(&self) -> [u8; 1] {
        [self.0]
    }
    fn is_odd(&self) -> Choice {
        Choice::from(self.0 & 1)
    }
    const MODULUS: &'static str = "0x61";
    const NUM_BITS: u32 = 7;
    const CAPACITY: u32 = 6;
    const TWO_INV: Self = ToyF(49);
    const MULTIPLICATIVE_GENERATOR: Self = ToyF(5);
    const S: u32 = 5;
    const ROOT_OF_UNITY: Self = ToyF(28);
    const ROOT_OF_UNITY_INV: Self = ToyF(52);
    const DELTA: Self = ToyF(35);
}
impl WithSmallOrderMulGroup<3> for ToyF {
    const ZETA: Self = ToyF(35);
}
impl FromUniformBytes<64> for ToyF {
    fn from_uniform_bytes(b: &[u8; 64]) -> Self {
        ToyF::new(b[0] as u16)
    }
}
