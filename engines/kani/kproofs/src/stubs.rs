//! Stubs for message builders (never part of a property).
pub fn format_stub(_args: core::fmt::Arguments<'_>) -> String {
    String::new()
}

/// std's per-process HashMap seed (getrandom syscall): any pair of keys. `RandomState` is two u64.
pub fn random_state_new_stub() -> std::hash::RandomState {
    let k: (u64, u64) = (kani::any(), kani::any());
    unsafe { core::mem::transmute::<(u64, u64), std::hash::RandomState>(k) }
}
