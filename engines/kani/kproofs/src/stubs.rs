//! Stubs for message builders (never part of a property).
pub fn format_stub(_args: core::fmt::Arguments<'_>) -> String {
    String::new()
}

/// std's per-process HashMap seed (getrandom syscall): any pair of keys. `RandomState` is two u64.
pub fn random_state_new_stub() -> std::hash::RandomState {
    let k: (u64, u64) = (kani::any(), kani::any());
    unsafe { core::mem::transmute::<(u64, u64), std::hash::RandomState>(k) }
}

/// Stand-in for `EvaluationDomain::new` (field-heavy: measured not to finish under CBMC even for
/// concrete arguments). Only `k` is observable by the callers under test (`from_parts` asserts
/// `k <= F::S`); the integer prefix of the real `new` is checked separately (h_domain.rs).
/// Field-for-field mirror of `midnight_proofs::poly::EvaluationDomain` (same types, same order); the
/// transmute is size-checked at compile time and every harness using it re-checks `k()` /
/// `extended_k()` on the result.
#[allow(dead_code)]
pub struct DomainMirror<F> {
    n: u64,
    k: u32,
    extended_k: u32,
    omega: F,
    omega_inv: F,
    extended_omega: F,
    extended_omega_inv: F,
    g_coset: F,
    g_coset_inv: F,
    quotient_poly_degree: u64,
    ifft_divisor: F,
    extended_ifft_divisor: F,
    t_evaluations: Vec<F>,
    barycentric_weight: F,
}
pub static mut DOMAIN_NEW_CALLS: u32 = 0;
pub static mut DOMAIN_NEW_K: u32 = 0;
pub fn domain_new_stub<F: ff::WithSmallOrderMulGroup<3>>(j: u32, k: u32) -> midnight_proofs::poly::EvaluationDomain<F> {
    unsafe {
        DOMAIN_NEW_CALLS += 1;
        DOMAIN_NEW_K = k;
    }
    let m = DomainMirror::<F> {
        n: 1u64 << (k & 63),
        k,
        extended_k: k.wrapping_add(7),
        omega: F::ONE,
        omega_inv: F::ONE,
        extended_omega: F::ONE,
        extended_omega_inv: F::ONE,
        g_coset: F::ONE,
        g_coset_inv: F::ONE,
        quotient_poly_degree: (j as u64).wrapping_sub(1),
        ifft_divisor: F::ONE,
        extended_ifft_divisor: F::ONE,
        t_evaluations: Vec::new(),
        barycentric_weight: F::ONE,
    };
    let d: midnight_proofs::poly::EvaluationDomain<F> = unsafe { core::mem::transmute_copy(&core::mem::ManuallyDrop::new(m)) };
    assert!(core::mem::size_of::<DomainMirror<F>>() == core::mem::size_of::<midnight_proofs::poly::EvaluationDomain<F>>());
    assert!(d.k() == k && d.extended_k() == k.wrapping_add(7), "DomainMirror layout self-check");
    d
}
