//! EvaluationDomain::new arithmetic (reached from VerifyingKey::read_from_cs with the header's k).
use crate::toyf::ToyF;
use midnight_proofs::poly::EvaluationDomain;

#[kani::proof]
#[kani::unwind(40)]
fn domain_new_concrete_probe() {
    let d = EvaluationDomain::<ToyF>::new(3, 2);
    assert!(d.k() == 2);
    core::mem::forget(d);
}
