//! Stubs for message builders (never part of a property).
pub fn format_stub(_args: core::fmt::Arguments<'_>) -> String {
    String::new()
}

/// std's per-process HashMap seed (getrandom syscall): any pair of keys. `RandomState` is two u64.
pub fn random_state_new_stub() -> std::hash::RandomState {
    let k: (u64, u64) = (kani::any(), kani::any());
    unsafe { core::mem::transmute::<(u64, u64), std::hash::RandomState>(k) }
}

/// Stand-in for `EvaluationDomain::new` (field-heavy: measured not to finish under CBMC even for
/// concrete arguments). Only `k` is observable by the callers under test (`from_parts` asserts
/// `k <= F::S`); the integer prefix of the real `new` is checked separately (h_domain.rs).
/// Field-for-field mirror of `midnight_proofs::poly::EvaluationDomain` (same types, same order); the
/// transmute is size-checked at compile time and every harness using it re-checks `k()` /
/// `extended_k()` on the result.
#[allow(dead_code)]
pub struct DomainMirror<F> {
    n: u64,
    k: u32,
    extended_k: u32,
    omega: F,
    omega_inv: F,
    extended_omega: F,
    extended_omega_inv: F,
    g_coset: F,
    g_coset_inv: F,
    quotient_poly_degree: u64,
    ifft_divisor: F,
    extended_ifft_divisor: F,
    t_evaluations: Vec<F>,
    barycentric_weight: F,
}
pub fn domain_new_stub<F: ff::WithSmallOrderMulGroup<3>>(j: u32, k: u32) -> midnight_proofs::poly::EvaluationDomain<F> {
    // contract of the real `new`: its integer prefix asserts exactly this (h_domain.rs); the callee is
    // the real `extended_k_for` (hook H11)
    assert!(k <= F::S, "precondition of EvaluationDomain::new: k <= S");
    assert!(
        midnight_proofs::poly::EvaluationDomain::<F>::verif_extended_k_for(j, k) <= F::S,
        "precondition of EvaluationDomain::new: extended_k <= S"
    );
    let m = DomainMirror::<F> {
        n: 1u64 << (k & 63),
        k,
        extended_k: k.wrapping_add(7),
        omega: F::ONE,
        omega_inv: F::ONE,
        extended_omega: F::ONE,
        extended_omega_inv: F::ONE,
        g_coset: F::ONE,
        g_coset_inv: F::ONE,
        quotient_poly_degree: (j as u64).wrapping_sub(1),
        ifft_divisor: F::ONE,
        extended_ifft_divisor: F::ONE,
        t_evaluations: Vec::new(),
        barycentric_weight: F::ONE,
    };
    let d: midnight_proofs::poly::EvaluationDomain<F> = unsafe { core::mem::transmute_copy(&core::mem::ManuallyDrop::new(m)) };
    assert!(core::mem::size_of::<DomainMirror<F>>() == core::mem::size_of::<midnight_proofs::poly::EvaluationDomain<F>>());
    assert!(d.k() == k && d.extended_k() == k.wrapping_add(7), "DomainMirror layout self-check");
    d
}

/// CPU feature detection (inline asm `cpuid`): report "no optional features", so that blake2b_simd and
/// friends take their portable code paths.
pub fn cpuid_stub(_leaf: u32, _sub_leaf: u32) -> core::arch::x86_64::CpuidResult {
    core::arch::x86_64::CpuidResult { eax: 0, ebx: 0, ecx: 0, edx: 0 }
}

/// Blake2b of the key's transcript representation: the digest is not part of any K property; any 64
/// bytes. (`blake2b_simd::Hash` is `{ bytes: [u8; 64], len: u8 }`; self-checked below.)
pub fn blake2b_update_stub<'a>(s: &'a mut blake2b_simd::State, _input: &[u8]) -> &'a mut blake2b_simd::State {
    s
}
#[repr(C)]
struct HashMirror {
    bytes: [u8; 64],
    len: u8,
}
pub fn blake2b_finalize_stub(_s: &blake2b_simd::State) -> blake2b_simd::Hash {
    let m = HashMirror { bytes: kani::any(), len: 64 };
    let h: blake2b_simd::Hash = unsafe { core::mem::transmute(m) };
    assert!(h.as_bytes().len() == 64, "HashMirror layout self-check");
    h
}

/// Stand-in for the private `VerifyingKey::from_parts` (it formats the whole constraint system with
/// `{:?}` and hashes it with Blake2b; the digest is not part of any K property). It only assembles the
/// struct from the parts it is given (field-for-field mirror; self-checked through the public getters
/// by every harness that uses it) and keeps the real function's `k <= F::S` assertion.
#[allow(dead_code)]
pub struct VkMirror<F: ff::PrimeField, CS: midnight_proofs::poly::commitment::PolynomialCommitmentScheme<F>> {
    domain: midnight_proofs::poly::EvaluationDomain<F>,
    fixed_commitments: Vec<CS::Commitment>,
    permutation: midnight_proofs::plonk::permutation::VerifyingKey<F, CS>,
    cs: midnight_proofs::plonk::ConstraintSystem<F>,
    cs_degree: usize,
    transcript_repr: F,
}
pub fn from_parts_stub<F, CS>(
    domain: midnight_proofs::poly::EvaluationDomain<F>,
    fixed_commitments: Vec<CS::Commitment>,
    permutation: midnight_proofs::plonk::permutation::VerifyingKey<F, CS>,
    cs: midnight_proofs::plonk::ConstraintSystem<F>,
) -> midnight_proofs::plonk::VerifyingKey<F, CS>
where
    F: ff::WithSmallOrderMulGroup<3> + ff::FromUniformBytes<64>,
    CS: midnight_proofs::poly::commitment::PolynomialCommitmentScheme<F>,
{
    assert!(domain.k() <= F::S);
    let n_fixed = fixed_commitments.len();
    let m = VkMirror::<F, CS> { domain, fixed_commitments, permutation, cs, cs_degree: 0, transcript_repr: F::ONE };
    assert!(
        core::mem::size_of::<VkMirror<F, CS>>() == core::mem::size_of::<midnight_proofs::plonk::VerifyingKey<F, CS>>()
    );
    let vk: midnight_proofs::plonk::VerifyingKey<F, CS> =
        unsafe { core::mem::transmute_copy(&core::mem::ManuallyDrop::new(m)) };
    assert!(vk.fixed_commitments().len() == n_fixed && vk.transcript_repr() == F::ONE, "VkMirror layout self-check");
    vk
}

// NOTE: Kani matches an `impl Trait` parameter of a stub against the original BY ITS SOURCE TEXT, so the
// two signatures below repeat the text of proofs/src/plonk/circuit.rs verbatim.
use midnight_proofs::plonk::{Constraints, Expression, TableColumn, VirtualCells};

/// Kani compares generic parameters of stub and original by (index, name) INCLUDING the split
/// between impl-level and method-level parameters, so stubs of generic methods of
/// `impl<F: Field> ConstraintSystem<F>` live in an impl block of the same shape.
pub struct CsStubs<F>(core::marker::PhantomData<F>);
impl<F: ff::Field> CsStubs<F> {
    /// `ConstraintSystem::create_gate` evaluates the constraint closure and walks the Expression
    /// trees (recursive `evaluate`/`clone`/drop glue, which CBMC cannot constant-fold); the gates
    /// themselves are not part of the configure-prefix property.
    pub fn create_gate(
        _cs: &mut midnight_proofs::plonk::ConstraintSystem<F>,
        _name: &'static str,
        constraints: impl FnOnce(&mut VirtualCells<'_, F>) -> Constraints<F>,
    ) {
        core::mem::forget(constraints);
    }

    /// `ConstraintSystem::lookup` evaluates the table-map closure and walks the resulting Expressions.
    pub fn lookup<S: AsRef<str>>(
        _cs: &mut midnight_proofs::plonk::ConstraintSystem<F>,
        _name: S,
        table_map: impl FnOnce(&mut VirtualCells<'_, F>) -> Vec<(Expression<F>, TableColumn)>,
    ) -> usize {
        core::mem::forget(table_map);
        0
    }
}

/// Column counts of the optional foreign-field / foreign-curve chips (BigUint arithmetic over the
/// emulation parameters): evaluated unconditionally by `ZkStdLib::configure` and multiplied by the
/// chip's enable flag. Any count 0..=255.
pub fn nb_field_chip_columns_stub<F, K, P>() -> usize
where
    F: midnight_circuits::CircuitField,
    K: midnight_circuits::CircuitField,
    P: midnight_circuits::field::foreign::params::FieldEmulationParams<F, K>,
{
    kani::any::<u8>() as usize
}
pub fn nb_foreign_ecc_chip_columns_stub<F, C, B, S>() -> usize
where
    F: midnight_circuits::CircuitField,
    C: midnight_circuits::ecc::curves::WeierstrassCurve,
    B: midnight_circuits::field::foreign::params::FieldEmulationParams<F, C::Base>,
{
    kani::any::<u8>() as usize
}

/// `midnight_proofs::plonk::prepare`: any answer. The Ok guard is the empty DualMSM (all-zero bytes =
/// three empty Vecs per channel), which is what an opaque key can at most produce.
pub fn prepare_stub<F, CS: midnight_proofs::poly::commitment::PolynomialCommitmentScheme<F>, T: midnight_proofs::transcript::Transcript>(
    _vk: &midnight_proofs::plonk::VerifyingKey<F, CS>,
    _committed_instances: &[&[CS::Commitment]],
    _instances: &[&[&[F]]],
    _transcript: &mut T,
) -> Result<CS::VerificationGuard, midnight_proofs::plonk::Error>
where
    F: ff::WithSmallOrderMulGroup<3>
        + midnight_proofs::transcript::Hashable<T::Hash>
        + midnight_proofs::transcript::Sampleable<T::Hash>
        + ff::FromUniformBytes<64>
        + core::hash::Hash
        + Ord,
    CS::Commitment: midnight_proofs::transcript::Hashable<T::Hash>,
{
    if kani::any() {
        Ok(unsafe { core::mem::MaybeUninit::zeroed().assume_init() })
    } else {
        Err(midnight_proofs::plonk::Error::Opening)
    }
}

/// `DualMSM::check` (MSM + pairing, blst): any answer.
pub struct DualStubs<E>(core::marker::PhantomData<E>);
impl<E: midnight_curves::pairing::MultiMillerLoop + core::fmt::Debug> DualStubs<E>
where
    E::G1Affine: midnight_curves::CurveAffine<ScalarExt = E::Fr, CurveExt = E::G1>,
{
    pub fn check(s: midnight_proofs::poly::kzg::msm::DualMSM<E>, _params: &midnight_proofs::poly::kzg::params::ParamsVerifierKZG<E>) -> bool {
        core::mem::forget(s);
        kani::any()
    }
    /// `DualMSM::scale` multiplies every scalar (rayon + blst; rayon makes Kani's compiler panic)
    pub fn scale(_s: &mut midnight_proofs::poly::kzg::msm::DualMSM<E>, _e: E::Fr) {}
    /// `DualMSM::add_msm` appends the other accumulator's terms
    pub fn add_msm(_s: &mut midnight_proofs::poly::kzg::msm::DualMSM<E>, other: midnight_proofs::poly::kzg::msm::DualMSM<E>) {
        core::mem::forget(other);
    }
}

pub unsafe fn blst_p1_from_affine_stub(out: *mut blst::blst_p1, _a: *const blst::blst_p1_affine) {
    let x: [u64; 6] = kani::any();
    let y: [u64; 6] = kani::any();
    let z: [u64; 6] = kani::any();
    (*out).x = blst::blst_fp { l: x };
    (*out).y = blst::blst_fp { l: y };
    (*out).z = blst::blst_fp { l: z };
}

// ------------------------------------------------------------------------------------------------
// zkir

/// `blst_uint64_from_fr` (Montgomery -> canonical limbs): any four limbs.
pub unsafe fn blst_uint64_from_fr_stub(ret: *mut u64, _a: *const blst::blst_fr) {
    let l: [u64; 4] = kani::any();
    *ret = l[0];
    *ret.add(1) = l[1];
    *ret.add(2) = l[2];
    *ret.add(3) = l[3];
}

/// Path cut: the first blst call of `Fq::from(u64)`. Everything before it has been explored.
pub unsafe fn blst_cut_scalar_fr_check(_a: *const blst::blst_scalar) -> bool {
    kani::assume(false);
    false
}

pub static mut TO_LE_BYTES_LEN: usize = 0;
pub struct BigUintStubs<F, N>(core::marker::PhantomData<(F, N)>);
impl<F, N> BigUintStubs<F, N>
where
    F: midnight_circuits::CircuitField,
    N: midnight_circuits::instructions::NativeInstructions<F>,
{
    /// `BigUintGadget::to_le_bytes`: TO_LE_BYTES_LEN opaque assigned bytes (never inspected by the caller
    /// under test, only sliced, iterated and resized).
    pub fn to_le_bytes(
        _g: &midnight_circuits::biguint::biguint_gadget::BigUintGadget<F, N>,
        _layouter: &mut impl Layouter<F>,
        _x: &AssignedBigUint<F>,
    ) -> Result<Vec<AssignedByte<F>>, Error> {
        let n = unsafe { TO_LE_BYTES_LEN };
        let mut v = Vec::new();
        let mut i = 0;
        while i < n {
            v.push(unsafe { core::mem::MaybeUninit::<AssignedByte<F>>::zeroed().assume_init() });
            i += 1;
        }
        Ok(v)
    }
}
// source-text names for the `impl Trait` / type matching of the stub above
use midnight_circuits::types::{AssignedBigUint, AssignedByte};
use midnight_proofs::{circuit::Layouter, plonk::Error};

/// A layouter that ends the path when asked to do anything.
#[derive(Debug)]
pub struct CutLayouter;
impl<F: ff::Field> Layouter<F> for CutLayouter {
    type Root = Self;
    fn assign_region<A, AR, N, NR>(&mut self, _name: N, _assignment: A) -> Result<AR, Error>
    where
        A: FnMut(midnight_proofs::circuit::Region<'_, F>) -> Result<AR, Error>,
        N: Fn() -> NR,
        NR: Into<String>,
    {
        kani::assume(false);
        unreachable!()
    }
    fn assign_table<A, N, NR>(&mut self, _name: N, _assignment: A) -> Result<(), Error>
    where
        A: FnMut(midnight_proofs::circuit::Table<'_, F>) -> Result<(), Error>,
        N: Fn() -> NR,
        NR: Into<String>,
    {
        kani::assume(false);
        unreachable!()
    }
    fn constrain_instance(
        &mut self,
        _cell: midnight_proofs::circuit::Cell,
        _column: midnight_proofs::plonk::Column<midnight_proofs::plonk::Instance>,
        _row: usize,
    ) -> Result<(), Error> {
        kani::assume(false);
        unreachable!()
    }
    fn get_root(&mut self) -> &mut Self::Root {
        self
    }
    fn get_challenge(&self, _: midnight_proofs::plonk::Challenge) -> midnight_proofs::circuit::Value<F> {
        midnight_proofs::circuit::Value::unknown()
    }
    fn push_namespace<NR, N>(&mut self, _name_fn: N)
    where
        NR: Into<String>,
        N: FnOnce() -> NR,
    {
    }
    fn pop_namespace(&mut self, _gadget_name: Option<String>) {}
}

/// `HashMap::get`: every name resolves to the value the harness installed in HM_VALUE.
pub static mut HM_VALUE: *const u8 = core::ptr::null();
pub struct HmStubs<K, V, S, A>(core::marker::PhantomData<(K, V, S, A)>);
impl<K, V, S, A> HmStubs<K, V, S, A>
where
    K: Eq + core::hash::Hash,
    S: core::hash::BuildHasher,
    A: core::alloc::Allocator,
{
    pub fn get<'a, Q: ?Sized>(_m: &'a std::collections::HashMap<K, V, S, A>, _k: &Q) -> Option<&'a V>
    where
        K: core::borrow::Borrow<Q>,
        Q: core::hash::Hash + Eq,
    {
        unsafe {
            if HM_VALUE.is_null() {
                None
            } else {
                Some(&*(HM_VALUE as *const V))
            }
        }
    }
}

/// zkir's `utils::insert` (HashMap insertion of one output name): accepted.
pub fn zkir_insert_stub<T: Clone>(
    _map: &mut std::collections::HashMap<String, T>,
    _name: &str,
    _value: &T,
) -> Result<(), midnight_zkir::Error> {
    Ok(())
}

/// Path cuts at the first interior-mutability access of a chip (the chips of the opaque ZkStdLib are
/// all-zero memory; nothing behind such an access is part of the property under test).
pub struct RefCellCuts<T: ?Sized>(core::marker::PhantomData<T>);
impl<T: ?Sized> RefCellCuts<T> {
    pub fn borrow_mut(_c: &core::cell::RefCell<T>) -> core::cell::RefMut<'_, T> {
        kani::assume(false);
        loop {}
    }
    pub fn borrow(_c: &core::cell::RefCell<T>) -> core::cell::Ref<'_, T> {
        kani::assume(false);
        loop {}
    }
}

// ------------------------------------------------------------------------------------------------
// params readers

/// number of input bytes of the current decoder harness
pub static mut INPUT_LEN: usize = 0;
/// `vec![elem; n]`: the allocation oracle (see h_params.rs)
pub fn from_elem_bounded_stub<T: Clone>(elem: T, n: usize) -> Vec<T> {
    assert!(n <= unsafe { INPUT_LEN }, "vector sized by a length field that exceeds the input");
    core::mem::forget(elem);
    Vec::new()
}
pub fn from_elem_empty_stub<T: Clone>(elem: T, _n: usize) -> Vec<T> {
    core::mem::forget(elem);
    Vec::new()
}
/// `parallelize` (rayon): no-op
pub fn parallelize_stub<T: Send, F: Fn(&mut [T], usize) + Send + Sync + Clone>(_v: &mut [T], _f: F) {}

// ------------------------------------------------------------------------------------------------
// blst as recorded oracles
pub static mut FR_CHECK_CALLS: u32 = 0;
pub static mut FR_CHECK_ANSWER: bool = false;
pub static mut FR_CHECK_ARG: [u8; 32] = [0; 32];
pub unsafe fn oracle_scalar_fr_check(a: *const blst::blst_scalar) -> bool {
    let ans: bool = kani::any();
    FR_CHECK_CALLS = FR_CHECK_CALLS + 1;
    FR_CHECK_ANSWER = ans;
    FR_CHECK_ARG = (*a).b;
    ans
}
pub unsafe fn oracle_fr_from_uint64(ret: *mut blst::blst_fr, _a: *const u64) {
    let l: [u64; 4] = kani::any();
    (*ret).l = l;
}
pub static mut P1_UNCOMP_OK: bool = false;
pub static mut P1_ON_CURVE: bool = false;
pub static mut P1_IN_G1: bool = false;
pub unsafe fn oracle_p1_uncompress(out: *mut blst::blst_p1_affine, _inp: *const u8) -> blst::BLST_ERROR {
    let ok: bool = kani::any();
    P1_UNCOMP_OK = ok;
    let x: [u64; 6] = kani::any();
    let y: [u64; 6] = kani::any();
    (*out).x = blst::blst_fp { l: x };
    (*out).y = blst::blst_fp { l: y };
    if ok {
        blst::BLST_ERROR::BLST_SUCCESS
    } else {
        blst::BLST_ERROR::BLST_BAD_ENCODING
    }
}
pub unsafe fn oracle_p1_on_curve(_p: *const blst::blst_p1_affine) -> bool {
    let b: bool = kani::any();
    P1_ON_CURVE = b;
    b
}
pub unsafe fn oracle_p1_in_g1(_p: *const blst::blst_p1_affine) -> bool {
    let b: bool = kani::any();
    P1_IN_G1 = b;
    b
}

/// `zeroize::optimization_barrier` is an empty `asm!` statement (compiler barrier, no semantics); Kani
/// does not support inline assembly. `blst_scalar` is zeroized on drop.
pub fn noop_barrier<T: ?Sized>(_val: &T) {}
