//! harness name -> body (native replay)
pub type H = fn();
pub const ALL: &[(&str, H)] = &[
    ("h_vk_read::vk_read_total", crate::h_vk_read::vk_read_total),
    ("h_vk_read::vk_read_postcondition", crate::h_vk_read::vk_read_postcondition),
    ("h_domain::domain_prefix_min_degree", crate::h_domain::domain_prefix_min_degree),
    ("h_domain::domain_prefix_any_degree", crate::h_domain::domain_prefix_any_degree),
    ("h_arch::configure_nr_pow2range_any", crate::h_arch::configure_nr_pow2range_any),
    ("h_arch::pow2range_configure_column_count", crate::h_arch::pow2range_configure_column_count),
    ("h_arch::arch_read_total", crate::h_arch::arch_read_total),
    ("h_batch::batch_verify_no_keys", crate::h_batch::batch_verify_no_keys),
    ("h_batch::batch_verify_one_key", crate::h_batch::batch_verify_one_key),
    ("h_batch::batch_verify_two_keys", crate::h_batch::batch_verify_two_keys),
    ("h_batch::verify_pins_public_input_count", crate::h_batch::verify_pins_public_input_count),
    ("h_zkir::into_bytes_offcircuit_native", crate::h_zkir::into_bytes_offcircuit_native),
    ("h_zkir::into_bytes_incircuit_biguint", crate::h_zkir::into_bytes_incircuit_biguint),
    ("h_transcript::assert_empty_iff_consumed", crate::h_transcript::assert_empty_iff_consumed),
    ("h_transcript::hashable_read_fq_canonical", crate::h_transcript::hashable_read_fq_canonical),
    ("h_transcript::hashable_read_g1_checked", crate::h_transcript::hashable_read_g1_checked),
    ("h_transcript::serde_read_g1_processed_checked", crate::h_transcript::serde_read_g1_processed_checked),
    ("h_transcript::guard_batch_verify_lengths", crate::h_transcript::guard_batch_verify_lengths),
    ("h_roundtrip::vk_read_then_write_processed", crate::h_roundtrip::vk_read_then_write_processed),
    ("h_roundtrip::vk_read_then_write_rawbytes", crate::h_roundtrip::vk_read_then_write_rawbytes),
    ("h_roundtrip::vk_write_then_read_processed", crate::h_roundtrip::vk_write_then_read_processed),
    ("h_roundtrip::vk_write_then_read_rawbytes", crate::h_roundtrip::vk_write_then_read_rawbytes),
    ("h_roundtrip::vk_bytes_length_processed", crate::h_roundtrip::vk_bytes_length_processed),
    ("h_roundtrip::vk_bytes_length_rawbytes", crate::h_roundtrip::vk_bytes_length_rawbytes),
    ("h_roundtrip::arch_read_then_write", crate::h_roundtrip::arch_read_then_write),
    ("h_roundtrip::arch_write_then_read", crate::h_roundtrip::arch_write_then_read),
    ("h_roundtrip::vk_transcript_binds_written_rawbytes", crate::h_roundtrip::vk_transcript_binds_written_rawbytes),
];
pub fn lookup(name: &str) -> Option<H> {
    ALL.iter().chain(crate::h_zkir::ARITY_HARNESSES.iter()).find(|(n, _)| *n == name).map(|(_, f)| *f)
}
