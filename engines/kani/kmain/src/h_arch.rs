//! C16 (b): `ZkStdLibArch::read` and the arithmetic prefix of `ZkStdLib::configure`
//! (zk_stdlib/src/lib.rs), which `MidnightVK::read` runs on the decoded architecture descriptor.
//!
//! REAL code executed: `ZkStdLib::configure` (column counts, `advice_columns[..NB_ARITH_COLS]`,
//! `advice_columns[1..=nr_pow2range_cols]`, ...), `Pow2RangeChip::configure` (its
//! `assert!(val_cols.len() < NB_ARITH_COLS)`), `P2RDecompositionChip::configure`,
//! `ConstraintSystem::{advice_column, fixed_column, instance_column, complex_selector, lookup_table_column}`.
//! `NativeChip::configure` (selectors, enable_equality, ...).
//! Stubbed (Expression-tree construction, not part of the property): `ConstraintSystem::create_gate`,
//! `ConstraintSystem::lookup`.
//! All optional chips disabled (their `configure` sits behind `arch.<chip>.then(..)`).
use crate::vk::{any, assume};
use midnight_proofs::plonk::ConstraintSystem;
use midnight_zk_stdlib::{ZkStdLib, ZkStdLibArch};

type F = midnight_curves::Fq;

fn configure_with(nr: u8) {
    let arch = ZkStdLibArch { nr_pow2range_cols: nr, ..ZkStdLibArch::default() };
    let mut cs = ConstraintSystem::<F>::default();
    let cfg = ZkStdLib::configure(&mut cs, arch);
    core::mem::forget(cfg);
    core::mem::forget(cs);
}

/// Whole `ZkStdLib::configure` with symbolic nr_pow2range_cols: thorough tier only (measured: CBMC needs
/// more than 12 GB in the quick configuration even with create_gate/lookup stubbed).
#[cfg_attr(kani, kani::proof)]
#[cfg_attr(kani, kani::unwind(14))]
#[cfg_attr(kani, kani::stub(std::hash::RandomState::new, crate::stubs::random_state_new_stub))]
#[cfg_attr(kani, kani::stub(midnight_proofs::plonk::ConstraintSystem::create_gate, crate::stubs::CsStubs::create_gate))]
#[cfg_attr(kani, kani::stub(midnight_proofs::plonk::ConstraintSystem::lookup, crate::stubs::CsStubs::lookup))]
#[cfg_attr(kani, kani::stub(midnight_circuits::field::foreign::nb_field_chip_columns, crate::stubs::nb_field_chip_columns_stub))]
#[cfg_attr(kani, kani::stub(midnight_circuits::ecc::foreign::nb_foreign_ecc_chip_columns, crate::stubs::nb_foreign_ecc_chip_columns_stub))]
pub fn configure_nr_pow2range_any() {
    let nr: u8 = any();
    assume(nr <= 6);
    crate::vcover!(nr == 4);
    configure_with(nr);
}

/// Leaf with the panic site: the REAL `Pow2RangeChip::configure(meta, columns)` on a symbolic number of
/// columns (`ZkStdLib::configure` passes `&advice_columns[1..=nr_pow2range_cols]`, i.e. exactly
/// nr_pow2range_cols columns, and nr_pow2range_cols comes verbatim from the wire: arch_read_total).
/// Property: no panic for any column count the decoder lets through.
#[cfg_attr(kani, kani::proof)]
#[cfg_attr(kani, kani::unwind(9))]
#[cfg_attr(kani, kani::stub(midnight_proofs::plonk::ConstraintSystem::lookup, crate::stubs::CsStubs::lookup))]
pub fn pow2range_configure_column_count() {
    pow2range_run(None)
}

/// Counterexample extraction for the harness above when Kani's concrete playback runs out of memory
/// (its un-sliced formula needs > 20 GB here): the same harness with the symbolic input pinned to one
/// value; the driver runs the pins until one FAILS and replays that value natively.
macro_rules! pow2range_pin {
    ($name:ident, $v:expr) => {
        #[cfg_attr(kani, kani::proof)]
        #[cfg_attr(kani, kani::unwind(9))]
        #[cfg_attr(kani, kani::stub(midnight_proofs::plonk::ConstraintSystem::lookup, crate::stubs::CsStubs::lookup))]
        pub fn $name() {
            pow2range_run(Some($v))
        }
    };
}
pow2range_pin!(pow2range_pin_0, 0);
pow2range_pin!(pow2range_pin_4, 4);

fn pow2range_run(pin: Option<u8>) {
    use midnight_circuits::field::decomposition::pow2range::Pow2RangeChip;
    let nr: u8 = any();
    // what the decoder lets through: arch_read_total proves Ok => nr < 5
    assume(nr <= 4);
    if let Some(v) = pin {
        assume(nr == v);
    } else {
        crate::vcover!(nr == 4);
        crate::vcover!(nr == 0);
    }
    // An empty constraint system as all-zero memory (empty Vecs; its HashMap of annotations is never
    // touched by `configure`) and six advice columns with index 0: keeps the un-sliced formula of Kani's
    // concrete-playback run small (with `ConstraintSystem::default()` it needs > 20 GB).
    let mut cs: ConstraintSystem<F> = unsafe { core::mem::MaybeUninit::zeroed().assume_init() };
    let cols: [midnight_proofs::plonk::Column<midnight_proofs::plonk::Advice>; 6] =
        unsafe { core::mem::MaybeUninit::zeroed().assume_init() };
    let cfg = Pow2RangeChip::<F>::configure(&mut cs, &cols[..nr as usize]);
    core::mem::forget(cfg);
    core::mem::forget(cs);
}

/// `ZkStdLibArch::read` on arbitrary bytes: a value, never a panic; a descriptor that decodes has the
/// version word 1.
#[cfg_attr(kani, kani::proof)]
#[cfg_attr(kani, kani::unwind(20))]
#[cfg_attr(kani, kani::stub(std::fmt::format, crate::stubs::format_stub))]
pub fn arch_read_total() {
    let buf: [u8; 18] = any();
    let len: usize = any();
    assume(len <= 18);
    let mut rd: &[u8] = &buf[..len];
    match ZkStdLibArch::read(&mut rd) {
        Ok(a) => {
            crate::vcover!(true, "decodes");
            assert!(buf[0] == 1 && buf[1] == 0 && buf[2] == 0 && buf[3] == 0);
            assert!(len >= 16);
            // the field that sizes the column slices is the wire byte, and only values that
            // ZkStdLib::configure / Pow2RangeChip::configure accept are let through (fix 67d9d08)
            assert!(a.nr_pow2range_cols == buf[15]);
            assert!((a.nr_pow2range_cols as usize) < 5, "decoded nr_pow2range_cols outside what configure accepts");
            crate::vcover!(a.nr_pow2range_cols == 4);
        }
        Err(e) => {
            crate::vcover!(true, "rejects");
            core::mem::forget(e);
        }
    }
}
