//! C03 (K): `CircuitTranscript::assert_empty`, `Hashable::read` for Fq / G1Projective (real blake2b
//! transcript implementors, proofs/src/transcript/{mod,implementors}.rs);
//! C16 (d): `ProcessedSerdeObject::read` (proofs/src/utils/helpers.rs) in the `Processed` format;
//! C15: `Guard::batch_verify` (proofs/src/poly/commitment.rs) on iterators of any two lengths.
//! blst is an environment: each FFI function answers nondeterministically and records its answer
//! (under Kani); natively the real blst runs.
use crate::h_batch::KH;
use crate::vk::{any, assume};
use midnight_proofs::transcript::{CircuitTranscript, Hashable, Transcript};

type F = midnight_curves::Fq;

/// `assert_empty` is Ok iff every byte of the proof has been consumed; for all buffers of <= 8 bytes
/// and all cursor positions <= 9.
#[cfg_attr(kani, kani::proof)]
#[cfg_attr(kani, kani::unwind(10))]
pub fn assert_empty_iff_consumed() {
    let buf: [u8; 8] = any();
    let len: usize = any();
    let pos: u64 = any();
    assume(len <= 8 && pos <= 9);
    let mut t = CircuitTranscript::<KH>::init_from_bytes(&buf[..len]);
    t.buffer().set_position(pos);
    let r = t.assert_empty();
    crate::vcover!(r.is_ok());
    crate::vcover!(r.is_err() && pos < len as u64);
    crate::vcover!(r.is_err() && pos > len as u64);
    assert!(r.is_ok() == (pos == len as u64));
    core::mem::forget(r);
    core::mem::forget(t);
}

/// `<Fq as Hashable<blake2b>>::read` returns Ok only if blst's canonicity check accepted these very
/// bytes; never panics on short input.
#[cfg_attr(kani, kani::proof)]
#[cfg_attr(kani, kani::unwind(34))]
#[cfg_attr(kani, kani::stub(blst::blst_scalar_fr_check, crate::stubs::oracle_scalar_fr_check))]
#[cfg_attr(kani, kani::stub(blst::blst_fr_from_uint64, crate::stubs::oracle_fr_from_uint64))]
#[cfg_attr(kani, kani::stub(zeroize::optimization_barrier, crate::stubs::noop_barrier))]
pub fn hashable_read_fq_canonical() {
    let buf: [u8; 32] = any();
    let len: usize = any();
    assume(len <= 32);
    let mut rd: &[u8] = &buf[..len];
    let r = <F as Hashable<blake2b_simd::State>>::read(&mut rd);
    match r {
        Ok(_) => {
            crate::vcover!(true, "accepted");
            assert!(len == 32);
            #[cfg(kani)]
            unsafe {
                assert!(crate::stubs::FR_CHECK_CALLS == 1 && crate::stubs::FR_CHECK_ANSWER);
                assert!(crate::stubs::FR_CHECK_ARG == buf);
            }
            #[cfg(not(kani))]
            assert!(buf[31] < 0x74, "accepted a scalar >= 2^255 > r");
        }
        Err(e) => {
            crate::vcover!(len == 32, "rejected a full-length encoding");
            core::mem::forget(e);
        }
    }
}

/// `<G1Projective as Hashable<blake2b>>::read` returns Ok only if uncompress succeeded AND the on-curve
/// AND the subgroup oracle said yes.
#[cfg_attr(kani, kani::proof)]
#[cfg_attr(kani, kani::unwind(50))]
#[cfg_attr(kani, kani::stub(blst::blst_p1_uncompress, crate::stubs::oracle_p1_uncompress))]
#[cfg_attr(kani, kani::stub(blst::blst_p1_affine_on_curve, crate::stubs::oracle_p1_on_curve))]
#[cfg_attr(kani, kani::stub(blst::blst_p1_affine_in_g1, crate::stubs::oracle_p1_in_g1))]
#[cfg_attr(kani, kani::stub(blst::blst_p1_from_affine, crate::stubs::blst_p1_from_affine_stub))]
pub fn hashable_read_g1_checked() {
    let buf: [u8; 48] = any();
    let len: usize = any();
    assume(len <= 48);
    let mut rd: &[u8] = &buf[..len];
    let r = <midnight_curves::G1Projective as Hashable<blake2b_simd::State>>::read(&mut rd);
    match r {
        Ok(_) => {
            crate::vcover!(true, "accepted");
            assert!(len == 48);
            #[cfg(kani)]
            unsafe {
                assert!(crate::stubs::P1_UNCOMP_OK && crate::stubs::P1_ON_CURVE && crate::stubs::P1_IN_G1);
            }
        }
        Err(e) => {
            crate::vcover!(len == 48, "rejected a full-length encoding");
            core::mem::forget(e);
        }
    }
}

/// `ProcessedSerdeObject::read(_, SerdeFormat::Processed)` for G1Projective: same contract.
#[cfg_attr(kani, kani::proof)]
#[cfg_attr(kani, kani::unwind(50))]
#[cfg_attr(kani, kani::stub(blst::blst_p1_uncompress, crate::stubs::oracle_p1_uncompress))]
#[cfg_attr(kani, kani::stub(blst::blst_p1_affine_on_curve, crate::stubs::oracle_p1_on_curve))]
#[cfg_attr(kani, kani::stub(blst::blst_p1_affine_in_g1, crate::stubs::oracle_p1_in_g1))]
#[cfg_attr(kani, kani::stub(blst::blst_p1_from_affine, crate::stubs::blst_p1_from_affine_stub))]
pub fn serde_read_g1_processed_checked() {
    use midnight_proofs::utils::{helpers::ProcessedSerdeObject, SerdeFormat};
    let buf: [u8; 48] = any();
    let len: usize = any();
    assume(len <= 48);
    let mut rd: &[u8] = &buf[..len];
    let r = <midnight_curves::G1Projective as ProcessedSerdeObject>::read(&mut rd, SerdeFormat::Processed);
    match r {
        Ok(_) => {
            crate::vcover!(true, "accepted");
            assert!(len == 48);
            #[cfg(kani)]
            unsafe {
                assert!(crate::stubs::P1_UNCOMP_OK && crate::stubs::P1_ON_CURVE && crate::stubs::P1_IN_G1);
            }
        }
        Err(e) => {
            crate::vcover!(len == 48, "rejected a full-length encoding");
            core::mem::forget(e);
        }
    }
}

/// `Guard::batch_verify(guards, params)` (provided trait method) for iterators of lengths ng, np in
/// {0,1,2}: a Result, never a panic (C15: "an empty or length-mismatched batch is answered with a
/// result value, never with a crash").
#[cfg_attr(kani, kani::proof)]
#[cfg_attr(kani, kani::unwind(4))]
pub fn guard_batch_verify_lengths() {
    use crate::kcs::{KGuard, KCS};
    use midnight_proofs::poly::commitment::Guard;
    let ng: usize = any();
    let np: usize = any();
    assume(ng <= 2 && np <= 2);
    crate::vcover!(ng == 0 && np == 0);
    crate::vcover!(ng == 2 && np == 2);
    let mut guards: Vec<KGuard> = Vec::with_capacity(2);
    let mut i = 0;
    while i < ng {
        guards.push(KGuard);
        i += 1;
    }
    let params = [(), ()];
    #[cfg(kani)]
    let r = <KGuard as Guard<crate::toyf::ToyF, KCS>>::batch_verify(guards.into_iter(), params[..np].iter());
    #[cfg(not(kani))]
    let r = {
        // native: the same call on the real KZG guard type (DualMSM<Bls12>), real public API
        drop(guards);
        if crate::scenarios::dualmsm_batch_verify_lengths(ng, np) {
            panic!("DualMSM::batch_verify panicked");
        }
    };
    core::mem::forget(r);
}


// ---------------------------------------------------------------------------------------------------
// The Poseidon-based transcript of midnight-circuits (circuits/src/hash/poseidon/poseidon_cpu.rs) has its
// own `Hashable::read` implementations for proof elements; same contracts as the Blake2b ones above
// (added after seeded change C03-c: `read` instead of `read_exact` accepts a truncated final point).
type PState = midnight_circuits::hash::poseidon::PoseidonState<F>;

#[cfg_attr(kani, kani::proof)]
#[cfg_attr(kani, kani::unwind(50))]
#[cfg_attr(kani, kani::stub(blst::blst_p1_uncompress, crate::stubs::oracle_p1_uncompress))]
#[cfg_attr(kani, kani::stub(blst::blst_p1_affine_on_curve, crate::stubs::oracle_p1_on_curve))]
#[cfg_attr(kani, kani::stub(blst::blst_p1_affine_in_g1, crate::stubs::oracle_p1_in_g1))]
#[cfg_attr(kani, kani::stub(blst::blst_p1_from_affine, crate::stubs::blst_p1_from_affine_stub))]
pub fn hashable_poseidon_read_g1_checked() {
    let buf: [u8; 48] = any();
    let len: usize = any();
    assume(len <= 48);
    let mut rd: &[u8] = &buf[..len];
    let r = <midnight_curves::G1Projective as Hashable<PState>>::read(&mut rd);
    match r {
        Ok(_) => {
            crate::vcover!(true, "accepted");
            assert!(len == 48, "a truncated point encoding was accepted");
            #[cfg(kani)]
            unsafe {
                assert!(crate::stubs::P1_UNCOMP_OK && crate::stubs::P1_ON_CURVE && crate::stubs::P1_IN_G1);
            }
        }
        Err(e) => {
            crate::vcover!(len == 48, "rejected a full-length encoding");
            core::mem::forget(e);
        }
    }
}

#[cfg_attr(kani, kani::proof)]
#[cfg_attr(kani, kani::unwind(34))]
#[cfg_attr(kani, kani::stub(blst::blst_scalar_fr_check, crate::stubs::oracle_scalar_fr_check))]
#[cfg_attr(kani, kani::stub(blst::blst_fr_from_uint64, crate::stubs::oracle_fr_from_uint64))]
#[cfg_attr(kani, kani::stub(zeroize::optimization_barrier, crate::stubs::noop_barrier))]
pub fn hashable_poseidon_read_fq_canonical() {
    let buf: [u8; 32] = any();
    let len: usize = any();
    assume(len <= 32);
    let mut rd: &[u8] = &buf[..len];
    let r = <F as Hashable<PState>>::read(&mut rd);
    match r {
        Ok(_) => {
            crate::vcover!(true, "accepted");
            assert!(len == 32, "a truncated scalar encoding was accepted");
            #[cfg(kani)]
            unsafe {
                assert!(crate::stubs::FR_CHECK_CALLS >= 1 && crate::stubs::FR_CHECK_ANSWER);
            }
            #[cfg(not(kani))]
            assert!(buf[31] < 0x74, "accepted a scalar >= 2^255 > r");
        }
        Err(e) => {
            crate::vcover!(len == 32, "rejected a full-length encoding");
            core::mem::forget(e);
        }
    }
}
