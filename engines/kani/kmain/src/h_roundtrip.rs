//! C17: write/read round trips.
//!
//! (a) `VerifyingKey::write` / `VerifyingKey::read_from_cs` (proofs/src/plonk/mod.rs) with
//!     `permutation::VerifyingKey::{write, read}` — REAL code, instantiated at the toy field F_97 and the
//!     commitment scheme `RCS` below, whose commitment `RCom` has a SYMMETRIC wire format that depends on the
//!     `SerdeFormat` (Processed: 1 byte `[v]`; RawBytes: 2 bytes `[v, v ^ 0x5A]`, checked on read), so that
//!     `byte_length::<RCom>(format)` (Repr = 1 byte) is what `write` really emits and a format mix-up between
//!     the fixed and the permutation commitments changes the bytes.
//!     A failing commitment decoder (short input, bad check byte) is signalled OUT OF BAND through the ghost
//!     `DEC_FAIL` and the decoder returns a dummy `Ok`: an `io::Error` created inside
//!     `collect::<Result<Vec<_>, _>>()` is dropped through std's bit-packed repr, which CBMC cannot resolve
//!     (K2.md). A buffer counts as ACCEPTED iff `read_from_cs` returns Ok and `DEC_FAIL` is false.
//!     Under Kani `EvaluationDomain::new` and the private `VerifyingKey::from_parts` are the struct-assembling
//!     stand-ins of stubs.rs (as in h_vk_read.rs); natively the real ones run.
//!     Harnesses `*_pin_N` / `*_pin` are the SAME bodies with the input (partly) pinned; the part (C17_K.py) re-decides
//!     them to obtain concrete counterexample values when a registered harness FAILS (Kani's concrete playback of
//!     the registered harnesses needs > 12 GB / > 200 s); they are never registered as obligations.
//! (b) `ZkStdLibArch::write` / `ZkStdLibArch::read` (zk_stdlib/src/lib.rs, + bincode, executed).
//! (c) `VerifyingKey::from_parts` (REAL, reached through `read_from_cs`) with Blake2b's `update` replaced by a
//!     RECORDING oracle: the bytes it hashes into `transcript_repr` contain everything `write` emits.
use core::ops::{Add, Mul};
use group::GroupEncoding;
use midnight_proofs::plonk::{ConstraintSystem, VerifyingKey};
use midnight_proofs::poly::{
    commitment::{Guard, PolynomialCommitmentScheme},
    Coeff, Error, LagrangeCoeff, Polynomial, ProverQuery, VerifierQuery,
};
use midnight_proofs::transcript::{Hashable, Sampleable, Transcript};
use midnight_proofs::utils::{helpers::ProcessedSerdeObject, SerdeFormat};
use std::io::{self, Read, Write};
use subtle::{Choice, CtOption};

use crate::kcs::KParams;
use crate::toyf::ToyF;
use crate::vk::{any, assume};

// ------------------------------------------------------------------------------------------------
// environment: commitment with a symmetric, format-dependent wire format

/// set by `RCom::read` when the decoder fails (short input / bad check byte)
pub static mut DEC_FAIL: bool = false;
pub const CHECK_MASK: u8 = 0x5A;

#[derive(Clone, Copy, Debug, PartialEq, Eq, Default)]
pub struct RCom(pub u8);
impl Add for RCom {
    type Output = RCom;
    fn add(self, o: RCom) -> RCom {
        RCom(self.0.wrapping_add(o.0))
    }
}
impl Mul<ToyF> for RCom {
    type Output = RCom;
    fn mul(self, f: ToyF) -> RCom {
        RCom(self.0.wrapping_mul(f.0))
    }
}
impl GroupEncoding for RCom {
    type Repr = [u8; 1];
    fn from_bytes(b: &[u8; 1]) -> CtOption<Self> {
        CtOption::new(RCom(b[0]), Choice::from(1))
    }
    fn from_bytes_unchecked(b: &[u8; 1]) -> CtOption<Self> {
        Self::from_bytes(b)
    }
    fn to_bytes(&self) -> [u8; 1] {
        [self.0]
    }
}
fn dec_fail() -> RCom {
    unsafe {
        DEC_FAIL = true;
    }
    RCom(0)
}
impl ProcessedSerdeObject for RCom {
    fn read<R: Read>(r: &mut R, format: SerdeFormat) -> io::Result<Self> {
        match format {
            SerdeFormat::Processed => {
                let mut b = [0u8; 1];
                match r.read_exact(&mut b) {
                    Ok(()) => Ok(RCom(b[0])),
                    Err(e) => {
                        core::mem::forget(e);
                        Ok(dec_fail())
                    }
                }
            }
            _ => {
                let mut b = [0u8; 2];
                match r.read_exact(&mut b) {
                    Ok(()) => {
                        if b[1] == b[0] ^ CHECK_MASK {
                            Ok(RCom(b[0]))
                        } else {
                            Ok(dec_fail())
                        }
                    }
                    Err(e) => {
                        core::mem::forget(e);
                        Ok(dec_fail())
                    }
                }
            }
        }
    }
    fn write<W: Write>(&self, w: &mut W, format: SerdeFormat) -> io::Result<()> {
        match format {
            SerdeFormat::Processed => w.write_all(&[self.0]),
            _ => w.write_all(&[self.0, self.0 ^ CHECK_MASK]),
        }
    }
}

#[derive(Clone, Debug)]
pub struct RCS;
#[derive(Debug)]
pub struct RGuard;
impl Guard<ToyF, RCS> for RGuard {
    fn verify(self, _: &()) -> Result<(), Error> {
        Ok(())
    }
}
impl PolynomialCommitmentScheme<ToyF> for RCS {
    type Parameters = KParams;
    type VerifierParameters = ();
    type Commitment = RCom;
    type VerificationGuard = RGuard;
    fn gen_params(k: u32) -> KParams {
        KParams { k }
    }
    fn get_verifier_params(_: &KParams) {}
    fn commit(_: &KParams, _: &Polynomial<ToyF, Coeff>) -> RCom {
        RCom(0)
    }
    fn commit_lagrange(_: &KParams, _: &Polynomial<ToyF, LagrangeCoeff>) -> RCom {
        RCom(0)
    }
    fn multi_open<T: Transcript>(_: &KParams, _: &[ProverQuery<ToyF>], _: &mut T) -> Result<(), Error>
    where
        ToyF: Sampleable<T::Hash> + std::hash::Hash + Ord + Hashable<T::Hash>,
        RCom: Hashable<T::Hash>,
    {
        Ok(())
    }
    fn multi_prepare<'com, T: Transcript>(_: &[VerifierQuery<'com, ToyF, Self>], _: &mut T) -> Result<RGuard, Error>
    where
        ToyF: Sampleable<T::Hash> + std::hash::Hash + Ord + Hashable<T::Hash>,
        RCom: 'com + Hashable<T::Hash>,
    {
        Ok(RGuard)
    }
}

/// fixed-capacity writer (no heap growth under CBMC); bytes beyond the capacity set `overflow`
pub struct FixW<const N: usize> {
    pub d: [u8; N],
    pub n: usize,
    pub overflow: bool,
}
impl<const N: usize> FixW<N> {
    pub fn new() -> Self {
        FixW { d: [0u8; N], n: 0, overflow: false }
    }
}
impl<const N: usize> FixW<N> {
    #[inline(always)]
    fn put(&mut self, x: u8) {
        if self.n < N {
            self.d[self.n] = x;
            self.n += 1;
        } else {
            self.overflow = true;
        }
    }
}
/// loop-free: the code under test writes pieces of 1, 2 or 4 bytes; a longer piece sets `overflow`
impl<const N: usize> Write for FixW<N> {
    fn write(&mut self, b: &[u8]) -> io::Result<usize> {
        let l = b.len();
        if l > 0 {
            self.put(b[0]);
        }
        if l > 1 {
            self.put(b[1]);
        }
        if l > 2 {
            self.put(b[2]);
        }
        if l > 3 {
            self.put(b[3]);
        }
        if l > 4 {
            self.overflow = true;
        }
        Ok(l)
    }
    fn write_all(&mut self, b: &[u8]) -> io::Result<()> {
        let _ = self.write(b);
        Ok(())
    }
    fn flush(&mut self) -> io::Result<()> {
        Ok(())
    }
}

/// loop-free comparison of the first `n` bytes (n <= 11)
macro_rules! same_prefix {
    ($a:expr, $b:expr, $n:expr, $msg:expr, $($i:expr),*) => {
        $( if $i < $n { assert!($a[$i] == $b[$i], $msg); } )*
    };
}

// ------------------------------------------------------------------------------------------------
// (a) verifying key

/// 1 fixed column + 1 advice column, the advice column in the permutation argument (1 permutation commitment);
/// no gates, no selectors (K2.md: Expression walks). Serialised key: 6 + w + w bytes, w = 1 (Processed) /
/// 2 (RawBytes): header (version, k, count), the fixed commitment, the permutation commitment.
pub fn make_cs() -> ConstraintSystem<ToyF> {
    let mut cs = ConstraintSystem::<ToyF>::default();
    let _f = cs.fixed_column();
    let a = cs.advice_column();
    cs.enable_equality(a);
    cs
}
pub const NFIX: usize = 1;
pub const NPERM: usize = 1;
/// buffer: the longest key (RawBytes, 10 bytes) plus one trailing byte
pub const BUF: usize = 11;

fn format_of(f: u8) -> SerdeFormat {
    if f == 0 {
        SerdeFormat::Processed
    } else {
        SerdeFormat::RawBytes
    }
}

fn read_key(bytes: &[u8], fmt: SerdeFormat) -> Option<(VerifyingKey<ToyF, RCS>, usize)> {
    unsafe {
        DEC_FAIL = false;
    }
    let mut rd: &[u8] = bytes;
    match VerifyingKey::<ToyF, RCS>::read_from_cs(&mut rd, fmt, make_cs()) {
        Ok(vk) => {
            if unsafe { DEC_FAIL } {
                core::mem::forget(vk);
                None
            } else {
                Some((vk, bytes.len() - rd.len()))
            }
        }
        Err(e) => {
            core::mem::forget(e);
            None
        }
    }
}

fn write_key(vk: &VerifyingKey<ToyF, RCS>, fmt: SerdeFormat) -> FixW<BUF> {
    let mut w = FixW::<BUF>::new();
    match vk.write(&mut w, fmt) {
        Ok(()) => {}
        Err(e) => {
            core::mem::forget(e);
            panic!("VerifyingKey::write returned Err on an in-memory writer");
        }
    }
    w
}

/// pins (counterexample extraction, see C17_K.py: Kani's concrete playback of the unpinned harnesses needs > 12 GB):
/// 0 = none (the registered harness); 1 = one canonical key with pairwise distinct field bytes followed by trailing
/// bytes, len = BUF; 2 = the same key, len = its exact length; 3 = all bytes symbolic, len = BUF (playback feasible)
pub const PIN_K: u8 = 2;
pub const PIN_FIX: u8 = 0x11;
pub const PIN_PERM: u8 = 0x22;
pub const PIN_TRAIL: u8 = 0x33;
fn input_pinned(f: u8, pin: u8) -> ([u8; BUF], usize) {
    let buf: [u8; BUF] = any();
    let len: usize = any();
    assume(len <= BUF);
    if pin == 1 || pin == 2 {
        assume(buf[0] == 3 && buf[1] == PIN_K && buf[2] == 1 && buf[3] == 0 && buf[4] == 0 && buf[5] == 0);
        if f == 0 {
            assume(buf[6] == PIN_FIX && buf[7] == PIN_PERM && buf[8] == PIN_TRAIL && buf[9] == PIN_TRAIL && buf[10] == PIN_TRAIL);
        } else {
            assume(buf[6] == PIN_FIX && buf[7] == PIN_FIX ^ CHECK_MASK && buf[8] == PIN_PERM && buf[9] == PIN_PERM ^ CHECK_MASK && buf[10] == PIN_TRAIL);
        }
        assume(len == if pin == 1 { BUF } else if f == 0 { 8 } else { 10 });
    }
    if pin == 3 {
        assume(len == BUF);
    }
    (buf, len)
}

/// bytes -> key -> bytes: for every accepted buffer b, `write` of the decoded key reproduces exactly the
/// consumed prefix of b (same length, same bytes).
fn read_then_write(f: u8, pin: u8) {
    let (buf, len) = input_pinned(f, pin);
    let fmt = format_of(f);
    if let Some((vk, consumed)) = read_key(&buf[..len], fmt) {
        if pin == 0 {
            crate::vcover!(consumed == len, "a key is accepted, the reader is left empty");
        }
        if pin == 0 {
            crate::vcover!(consumed < len, "a key is accepted with a trailing byte left in the reader");
        }
        let w = write_key(&vk, fmt);
        assert!(!w.overflow, "write emits more bytes than the longest accepted key");
        assert!(w.n == consumed, "write emits a different number of bytes than read consumed");
        same_prefix!(w.d, buf, consumed, "write(read(b)) differs from the consumed prefix of b", 0, 1, 2, 3, 4, 5, 6, 7, 8, 9, 10);
        core::mem::forget(vk);
    }
}

/// key -> bytes -> key: for every key vk in the image of `read_from_cs` (= every circuit size the reader lets
/// through and every value of every commitment, see the covers) the bytes `write(vk)` produces — which are the
/// consumed prefix b[..c] of the buffer vk was decoded from, by `read_then_write` — are accepted by
/// `read_from_cs`, consumed entirely, and decode to the same k and the same commitments. (With
/// `read_then_write` applied to the buffer b[..c] itself this gives write(read(write(vk))) == write(vk).)
fn write_then_read(f: u8, pin: u8) {
    let (buf, len) = input_pinned(f, pin);
    let fmt = format_of(f);
    if let Some((vk, consumed)) = read_key(&buf[..len], fmt) {
        if pin == 0 {
            crate::vcover!(consumed < len, "decoded from a buffer with a trailing byte");
        }
        if pin == 0 {
            crate::vcover!(vk.get_domain().k() == 4 && vk.fixed_commitments()[0] == RCom(0xA7), "k = 4 (the largest the reader lets through), some commitment value");
        }
        if pin == 0 {
            crate::vcover!(vk.get_domain().k() == 0 && vk.permutation().commitments()[0] == RCom(0x3C), "k = 0, some commitment value");
        }
        match read_key(&buf[..consumed], fmt) {
            None => panic!("read refuses what write produced"),
            Some((vk2, consumed2)) => {
                assert!(consumed2 == consumed, "read leaves bytes of write's output unconsumed");
                assert!(vk2.get_domain().k() == vk.get_domain().k(), "k changed in the round trip");
                assert!(vk2.fixed_commitments().len() == NFIX && vk.fixed_commitments().len() == NFIX);
                assert!(vk2.fixed_commitments()[0] == vk.fixed_commitments()[0], "fixed commitment changed in the round trip");
                assert!(vk2.permutation().commitments().len() == NPERM && vk.permutation().commitments().len() == NPERM);
                assert!(vk2.permutation().commitments()[0] == vk.permutation().commitments()[0], "permutation commitment changed in the round trip");
                core::mem::forget(vk2);
            }
        }
        core::mem::forget(vk);
    }
}

/// `VerifyingKey::bytes_length(format)` ("Return the bytes_length of a VerifyingKey", the capacity `to_bytes`
/// reserves) is the number of bytes `write(_, format)` emits.
fn bytes_length_is_written_length(f: u8, pin: bool) {
    // full-length buffers only (every key occurs: its bytes followed by trailing ones); no symbolic length
    let buf: [u8; BUF] = any();
    let fmt = format_of(f);
    if pin {
        // counterexample extraction (Kani's playback run of this harness takes > 200 s): the input pinned to the
        // key [version 3, k 0, count 1, commitments 0 ..]; the driver re-decides this one and replays the values
        assume(buf[0] == 3 && buf[1] == 0 && buf[2] == 1);
        assume(buf[3] == 0 && buf[4] == 0 && buf[5] == 0 && buf[6] == 0 && buf[7] == if f == 0 { 0 } else { CHECK_MASK });
        assume(buf[8] == 0 && buf[9] == if f == 0 { 0 } else { CHECK_MASK } && buf[10] == 0);
    }
    if let Some((vk, _)) = read_key(&buf[..], fmt) {
        if !pin {
            crate::vcover!(true, "a key is accepted");
        }
        let w = write_key(&vk, fmt);
        assert!(!w.overflow);
        assert!(vk.bytes_length(fmt) == w.n, "bytes_length(format) differs from the number of bytes write(format) emits");
        core::mem::forget(vk);
    }
}

macro_rules! vk_harness {
    ($name:ident, $body:ident, $($f:expr),*) => {
        #[cfg_attr(kani, kani::proof)]
        #[cfg_attr(kani, kani::unwind(6))]
        #[cfg_attr(kani, kani::stub(std::fmt::format, crate::stubs::format_stub))]
        #[cfg_attr(kani, kani::stub(std::hash::RandomState::new, crate::stubs::random_state_new_stub))]
        #[cfg_attr(kani, kani::stub(midnight_proofs::poly::EvaluationDomain::new, crate::stubs::domain_new_stub))]
        #[cfg_attr(kani, kani::stub(midnight_proofs::plonk::VerifyingKey::from_parts, crate::stubs::from_parts_stub))]
        pub fn $name() {
            $body($($f),*)
        }
    };
}
vk_harness!(vk_read_then_write_processed, read_then_write, 0, 0);
vk_harness!(vk_read_then_write_rawbytes, read_then_write, 1, 0);
vk_harness!(vk_write_then_read_processed, write_then_read, 0, 0);
vk_harness!(vk_write_then_read_rawbytes, write_then_read, 1, 0);
vk_harness!(vk_read_then_write_processed_pin_1, read_then_write, 0, 1);
vk_harness!(vk_read_then_write_processed_pin_2, read_then_write, 0, 2);
vk_harness!(vk_read_then_write_processed_pin_3, read_then_write, 0, 3);
vk_harness!(vk_read_then_write_rawbytes_pin_1, read_then_write, 1, 1);
vk_harness!(vk_read_then_write_rawbytes_pin_2, read_then_write, 1, 2);
vk_harness!(vk_read_then_write_rawbytes_pin_3, read_then_write, 1, 3);
vk_harness!(vk_write_then_read_processed_pin_1, write_then_read, 0, 1);
vk_harness!(vk_write_then_read_processed_pin_2, write_then_read, 0, 2);
vk_harness!(vk_write_then_read_processed_pin_3, write_then_read, 0, 3);
vk_harness!(vk_write_then_read_rawbytes_pin_1, write_then_read, 1, 1);
vk_harness!(vk_write_then_read_rawbytes_pin_2, write_then_read, 1, 2);
vk_harness!(vk_write_then_read_rawbytes_pin_3, write_then_read, 1, 3);
vk_harness!(vk_bytes_length_processed, bytes_length_is_written_length, 0, false);
vk_harness!(vk_bytes_length_rawbytes, bytes_length_is_written_length, 1, false);
vk_harness!(vk_bytes_length_processed_pin, bytes_length_is_written_length, 0, true);
vk_harness!(vk_bytes_length_rawbytes_pin, bytes_length_is_written_length, 1, true);

// ------------------------------------------------------------------------------------------------
// (b) ZkStdLibArch::write / ZkStdLibArch::read

use midnight_zk_stdlib::ZkStdLibArch;

pub const ABUF: usize = 18;

/// loop-based fixed-capacity writer (bincode writes pieces of any length)
pub struct LoopW<const N: usize> {
    pub d: [u8; N],
    pub n: usize,
    pub overflow: bool,
}
impl<const N: usize> LoopW<N> {
    pub fn new() -> Self {
        LoopW { d: [0u8; N], n: 0, overflow: false }
    }
}
impl<const N: usize> Write for LoopW<N> {
    fn write(&mut self, b: &[u8]) -> io::Result<usize> {
        let mut i = 0;
        while i < b.len() {
            if self.n < N {
                self.d[self.n] = b[i];
                self.n += 1;
            } else {
                self.overflow = true;
            }
            i += 1;
        }
        Ok(b.len())
    }
    fn write_all(&mut self, b: &[u8]) -> io::Result<()> {
        let _ = self.write(b);
        Ok(())
    }
    fn flush(&mut self) -> io::Result<()> {
        Ok(())
    }
}

fn write_arch(a: &ZkStdLibArch) -> LoopW<ABUF> {
    let mut w = LoopW::<ABUF>::new();
    match a.write(&mut w) {
        Ok(()) => {}
        Err(e) => {
            core::mem::forget(e);
            panic!("ZkStdLibArch::write returned Err on an in-memory writer");
        }
    }
    w
}

/// bytes -> descriptor -> bytes: for every buffer `ZkStdLibArch::read` accepts, `write` of the decoded
/// descriptor reproduces exactly the consumed prefix.
#[cfg_attr(kani, kani::proof)]
#[cfg_attr(kani, kani::unwind(20))]
#[cfg_attr(kani, kani::stub(std::fmt::format, crate::stubs::format_stub))]
pub fn arch_read_then_write() {
    let buf: [u8; ABUF] = any();
    let len: usize = any();
    assume(len <= ABUF);
    let mut rd: &[u8] = &buf[..len];
    match ZkStdLibArch::read(&mut rd) {
        Ok(a) => {
            let consumed = len - rd.len();
            crate::vcover!(consumed == len, "accepted, reader left empty");
            crate::vcover!(consumed < len, "accepted with trailing bytes");
            let w = write_arch(&a);
            assert!(!w.overflow, "write emits more than 18 bytes");
            assert!(w.n == consumed, "write emits a different number of bytes than read consumed");
            let mut i = 0;
            while i < ABUF {
                if i < consumed {
                    assert!(w.d[i] == buf[i], "write(read(b)) differs from the consumed prefix of b");
                }
                i += 1;
            }
        }
        Err(e) => {
            core::mem::forget(e);
        }
    }
}

/// descriptor -> bytes -> descriptor: for EVERY value of the type (11 flags, any nr_pow2range_cols):
/// `read(write(a))` is `Ok(a)` and consumes everything, exactly when a is an architecture `configure` accepts
/// (nr_pow2range_cols < NB_ARITH_COLS = 5; `read` refuses the others since 67d9d08, `write` emits them).
#[cfg_attr(kani, kani::proof)]
#[cfg_attr(kani, kani::unwind(20))]
#[cfg_attr(kani, kani::stub(std::fmt::format, crate::stubs::format_stub))]
pub fn arch_write_then_read() {
    let a = ZkStdLibArch {
        jubjub: any(),
        poseidon: any(),
        sha2_256: any(),
        sha2_512: any(),
        keccak_256: any(),
        sha3_256: any(),
        blake2b: any(),
        secp256k1: any(),
        bls12_381: any(),
        base64: any(),
        automaton: any(),
        nr_pow2range_cols: any(),
    };
    let w = write_arch(&a);
    assert!(!w.overflow, "write emits more than 18 bytes");
    let mut rd: &[u8] = &w.d[..w.n];
    match ZkStdLibArch::read(&mut rd) {
        Ok(b) => {
            crate::vcover!(a.nr_pow2range_cols == 4 && a.automaton && !a.jubjub, "a configurable architecture round-trips");
            assert!(b == a, "read(write(a)) != a");
            assert!(rd.is_empty(), "read leaves bytes of write's output unconsumed");
            assert!(a.nr_pow2range_cols < 5, "read accepts a descriptor configure refuses");
        }
        Err(e) => {
            core::mem::forget(e);
            crate::vcover!(a.nr_pow2range_cols == 5, "write emits, read refuses: nr_pow2range_cols = 5");
            assert!(a.nr_pow2range_cols >= 5, "read refuses what write produced for a configurable architecture");
        }
    }
}

// ------------------------------------------------------------------------------------------------
// (c) transcript identity: what `from_parts` hashes vs what `write` emits

pub const HASH_REC: usize = 16;
/// the bytes handed to Blake2b `update` (recorded by the stub below), and how many there were
pub static mut HASH_IN: [u8; HASH_REC] = [0; HASH_REC];
pub static mut HASH_IN_LEN: usize = 0;
pub static mut HASH_UPDATES: u8 = 0;

/// Recording oracle for `blake2b_simd::State::update` (Kani only): the compression function is outside the
/// property (K2.md: it does not finish on a symbolic buffer); the digest is `blake2b_finalize_stub` (any 64 bytes).
#[cfg(kani)]
pub fn blake2b_update_recording<'a>(s: &'a mut blake2b_simd::State, input: &[u8]) -> &'a mut blake2b_simd::State {
    unsafe {
        HASH_UPDATES = if HASH_UPDATES == 0 { 1 } else { 2 };
        HASH_IN_LEN = input.len();
        let l = input.len();
        macro_rules! rec {
            ($($i:expr),*) => { $( if $i < l { HASH_IN[$i] = input[$i]; } )* };
        }
        rec!(0, 1, 2, 3, 4, 5, 6, 7, 8, 9, 10, 11, 12, 13, 14, 15);
    }
    s
}

/// Under Kani: the REAL `from_parts` runs (reached through `read_from_cs`; `{:?}` renderings are the empty
/// string of `format_stub`, the digest is arbitrary) and the recorded hash input must contain, in `write`'s
/// order, every byte `write(_, RawBytesUnchecked)` emits (RawBytesUnchecked is the format `from_parts`
/// serialises the commitments with): input = write[..6 + fixed] ++ le32(#permutation commitments) ++ write[6 + fixed..] ++ renderings.
/// Natively (replay): the recording oracle does not exist; the body shows the same defect as a COLLISION on
/// the real Blake2b: a field of the written key whose every admissible value gives the same `transcript_repr`.
fn transcript_binds_written(f: u8, pin: u8) {
    let (buf, len) = input_pinned(f, pin);
    let fmt = format_of(f);
    #[cfg(kani)]
    unsafe {
        HASH_UPDATES = 0;
        HASH_IN_LEN = 0;
    }
    if let Some((vk, consumed)) = read_key(&buf[..len], fmt) {
        if pin == 0 {
            crate::vcover!(true, "a key is accepted");
        }
        let w = write_key(&vk, SerdeFormat::RawBytesUnchecked);
        assert!(!w.overflow);
        #[cfg(kani)]
        {
            let (h, hl, hu) = unsafe { (HASH_IN, HASH_IN_LEN, HASH_UPDATES) };
            assert!(hu == 1, "from_parts does not hash exactly one buffer");
            let split = 6 + 2 * NFIX; // header + fixed commitments (2 bytes each, RawBytesUnchecked)
            assert!(w.n == split + 2 * NPERM);
            assert!(hl >= w.n + 4, "hash input shorter than the written key plus the permutation count");
            same_prefix!(h, w.d, split, "a header/fixed-commitment byte that write emits is not hashed at its place", 0, 1, 2, 3, 4, 5, 6, 7);
            assert!(h[split] == NPERM as u8 && h[split + 1] == 0 && h[split + 2] == 0 && h[split + 3] == 0, "permutation count not hashed");
            assert!(h[split + 4] == w.d[split] && h[split + 5] == w.d[split + 1], "a permutation-commitment byte that write emits is not hashed at its place");
        }
        #[cfg(not(kani))]
        {
            native_collision_search(&vk, fmt, consumed);
        }
        let _ = consumed;
        core::mem::forget(vk);
    }
}

/// native side of `transcript_binds_written`: vary one written field at a time over all its admissible values
/// (k: 0..=4, each commitment: 0..=255); panic if some field never changes `transcript_repr` (F_97: an honest
/// digest collides with probability 1/97 per value, all of them colliding is a defect).
#[cfg(not(kani))]
fn native_collision_search(vk: &VerifyingKey<ToyF, RCS>, fmt: SerdeFormat, _consumed: usize) {
    let base = vk.transcript_repr();
    let k0 = vk.get_domain().k() as u8;
    let fx = vk.fixed_commitments()[0].0;
    let pm = vk.permutation().commitments()[0].0;
    let encode = |k: u8, fx: u8, pm: u8| -> Vec<u8> {
        // the bytes `write` emits for such a key, obtained from `write` itself on the decoded original with the
        // field bytes replaced (header 6 bytes, then w bytes per commitment)
        let mut w = FixW::<BUF>::new();
        vk.write(&mut w, fmt).unwrap();
        let mut v = w.d[..w.n].to_vec();
        v[1] = k;
        let mut t = vec![];
        RCom(fx).write(&mut t, fmt).unwrap();
        RCom(pm).write(&mut t, fmt).unwrap();
        let cw = t.len() / 2;
        v[6..6 + cw].copy_from_slice(&t[..cw]);
        v[6 + cw..6 + 2 * cw].copy_from_slice(&t[cw..]);
        v
    };
    let repr_of = |b: &[u8]| read_key(b, fmt).map(|(v, _)| v.transcript_repr());
    let report = |name: &str, vals: Vec<Option<ToyF>>| {
        let got: Vec<ToyF> = vals.into_iter().flatten().collect();
        let changed = got.iter().filter(|r| **r != base).count();
        println!("transcript_repr over {} admissible values of {name}: {changed} differ from the original", got.len());
        if got.len() >= 4 && changed == 0 {
            panic!("transcript_repr does not depend on {name}, which write emits");
        }
    };
    report("k", (0u8..=4).filter(|k| *k != k0).map(|k| repr_of(&encode(k, fx, pm))).collect());
    report("the fixed commitment", (0u8..=255).filter(|c| *c != fx).map(|c| repr_of(&encode(k0, c, pm))).collect());
    report("the permutation commitment", (0u8..=255).filter(|c| *c != pm).map(|c| repr_of(&encode(k0, fx, c))).collect());
}

macro_rules! tr_harness {
    ($name:ident, $f:expr, $pin:expr) => {
        #[cfg_attr(kani, kani::proof)]
        #[cfg_attr(kani, kani::unwind(6))]
        #[cfg_attr(kani, kani::stub(std::fmt::format, crate::stubs::format_stub))]
        #[cfg_attr(kani, kani::stub(std::hash::RandomState::new, crate::stubs::random_state_new_stub))]
        #[cfg_attr(kani, kani::stub(midnight_proofs::poly::EvaluationDomain::new, crate::stubs::domain_new_stub))]
        #[cfg_attr(kani, kani::stub(core::arch::x86_64::__cpuid_count, crate::stubs::cpuid_stub))]
        #[cfg_attr(kani, kani::stub(blake2b_simd::State::update, crate::h_roundtrip::blake2b_update_recording))]
        #[cfg_attr(kani, kani::stub(blake2b_simd::State::finalize, crate::stubs::blake2b_finalize_stub))]
        pub fn $name() {
            transcript_binds_written($f, $pin)
        }
    };
}
tr_harness!(vk_transcript_binds_written_rawbytes, 1, 0);
tr_harness!(vk_transcript_binds_written_rawbytes_pin_1, 1, 1);
tr_harness!(vk_transcript_binds_written_rawbytes_pin_3, 1, 3);
