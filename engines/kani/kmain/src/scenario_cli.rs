//! mapping harness counterexample -> real-API scenario (native only)
use crate::scenarios as sc;

fn le(v: &[u8]) -> u64 {
    let mut x = 0u64;
    for (i, b) in v.iter().enumerate().take(8) {
        x |= (*b as u64) << (8 * i);
    }
    x
}

/// Some(true) = real API panics, Some(false) = does not, None = harness has no level-2 scenario.
pub fn for_harness(name: &str, vals: &[Vec<u8>]) -> Option<bool> {
    match name {
        // values: k
        "h_domain::domain_prefix_min_degree" => Some(sc::vk_read_with_k(le(&vals[0]) as u8)),
        // values: buf[0..BUF] (one value per byte), len. Commitment count = buf[2..6]; the toy
        // constraint system has 2 fixed columns.
        "h_vk_read::vk_read_postcondition" => {
            let b: Vec<u8> = vals.iter().take(crate::h_vk_read::BUF).map(|v| v[0]).collect();
            let count = u32::from_le_bytes([b[2], b[3], b[4], b[5]]) as usize;
            Some(sc::verify_with_short_fixed_commitments(2usize.saturating_sub(count)))
        }
        // values: nr
        "h_arch::configure_nr_pow2range_any" | "h_arch::pow2range_configure_column_count" => Some(sc::vk_read_with_nr_pow2range_cols(le(&vals[0]) as u8)),
        // values: buf[0..18] one per byte, len; nr_pow2range_cols is byte 15
        "h_arch::arch_read_total" => Some(sc::vk_read_with_nr_pow2range_cols(vals[15][0])),
        // (h_vk_read::vk_read_total has no level 2: its k byte is relative to the toy field's 2-adicity;
        //  level 1 runs the real generic reader and the real EvaluationDomain::new at the toy field)
        // values: n
        "h_zkir::into_bytes_offcircuit_native" => Some(sc::zkir_into_bytes_native_offcircuit(le(&vals[0]) as usize)),
        "h_batch::batch_verify_no_keys" => Some(sc::batch_verify_empty()),
        // C17: the same comparison on a real key (BLS12-381 / KZG)
        "h_roundtrip::vk_bytes_length_processed" => Some(crate::scenarios17::vk_bytes_length_real("processed")),
        "h_roundtrip::vk_bytes_length_rawbytes" => Some(crate::scenarios17::vk_bytes_length_real("rawbytes")),
        // C17 round trips: the real-key round trip is run for information; level 1 decides
        "h_roundtrip::vk_read_then_write_processed" | "h_roundtrip::vk_write_then_read_processed" => {
            println!("level 2 (informational): real-key round trip shows a mismatch = {}", crate::scenarios17::vk_roundtrip_real("processed"));
            None
        }
        "h_roundtrip::vk_read_then_write_rawbytes" | "h_roundtrip::vk_write_then_read_rawbytes" | "h_roundtrip::vk_transcript_binds_written_rawbytes" => {
            println!("level 2 (informational): real-key round trip shows a mismatch = {}", crate::scenarios17::vk_roundtrip_real("rawbytes"));
            None
        }
        _ => None,
    }
}

pub fn run(args: &[String]) -> bool {
    let n = |i: usize| args.get(i).and_then(|s| s.parse::<u64>().ok()).unwrap_or(0);
    match args[0].as_str() {
        "vk-k" => sc::vk_read_with_k(n(1) as u8),
        "vk-nr" => sc::vk_read_with_nr_pow2range_cols(n(1) as u8),
        "vk-short-fixed" => sc::verify_with_short_fixed_commitments(n(1) as usize),
        "batch-empty" => sc::batch_verify_empty(),
        "params-k" => sc::params_read_custom_k(n(1) as u32),
        "guard-batch" => sc::dualmsm_batch_verify_lengths(n(1) as usize, n(2) as usize),
        "zkir-into-bytes-biguint" => sc::zkir_into_bytes_biguint(n(1) as u32, n(2) as usize),
        "zkir-into-bytes-native" => sc::zkir_into_bytes_native_offcircuit(n(1) as usize),
        "g1-decode-offsubgroup" => sc::g1_decoder_accepts_outside_subgroup(args.get(1).map(|s| s.as_str()).unwrap_or("hashable")),
        "poseidon-g1-truncated" => sc::poseidon_g1_reader_accepts_truncated(),
        "zkir-mod-exp" => sc::zkir_mod_exp_offcircuit(n(1), n(2), n(3)),
        "vk-bytes-length" => crate::scenarios17::vk_bytes_length_real(args.get(1).map(|s| s.as_str()).unwrap_or("rawbytes")),
        "pk-bytes-length" => crate::scenarios17::pk_bytes_length_and_roundtrip_real(args.get(1).map(|s| s.as_str()).unwrap_or("rawbytes")),
        "vk-roundtrip" => crate::scenarios17::vk_roundtrip_real(args.get(1).map(|s| s.as_str()).unwrap_or("rawbytes")),
        // C15 fold (h_batch_fold.rs): optional argument = largest batch size tried (default 3)
        "batch-fold-attack" => sc::batch_fold_attack(if args.len() > 1 { n(1) as usize } else { 3 }),
        _ => {
            println!("unknown scenario");
            false
        }
    }
}
