#![cfg_attr(kani, feature(allocator_api))]
//! Engine K harnesses over midnight-proofs / midnight-zk-stdlib / midnight-zkir / midnight-circuits.
//! Every harness is a plain `pub fn` that is a `#[kani::proof]` under `cfg(kani)` and is run natively
//! by `src/bin/replay.rs` with `any()` fed from the solver's counterexample (see vk.rs).
pub mod kcs;
pub mod toyf;
pub mod vk;

#[cfg(kani)]
pub mod stubs;

pub mod h_arch;
pub mod h_batch;
pub mod h_domain;
pub mod h_transcript;
pub mod h_vk_read;
pub mod h_zkir;
pub mod h_roundtrip;
pub mod h_batch_fold;

pub mod registry;

#[cfg(not(kani))]
pub mod scenario_cli;
#[cfg(not(kani))]
pub mod scenarios;
#[cfg(not(kani))]
pub mod scenarios17;
