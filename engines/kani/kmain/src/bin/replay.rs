//! Native replay of a Kani counterexample: `replay <harness> <hex,hex,...>` (protocol: vf/kani.py).
//! exit 1 = reproduced, 0 = completed, 3 = assumption violated / values desynchronised, 4 = unknown.
//!
//! Two levels. (1) The harness body is run natively on the solver's values (Kani stubs do not exist
//! natively: the real functions run). (2) For the harnesses listed in `scenario`, the situation the
//! counterexample describes is re-created against the REAL public API of midnight-zk-stdlib /
//! midnight-zkir under catch_unwind; such a harness counts as reproduced only if level 2 panics too.
#[cfg(kani)]
fn main() {}

#[cfg(not(kani))]
fn main() {
    use kmain::{registry, vk};
    let args: Vec<String> = std::env::args().collect();
    if args.len() >= 2 && args[1] == "--list" {
        for (n, _) in registry::ALL {
            println!("{n}");
        }
        return;
    }
    if args.len() >= 3 && args[1] == "--scenario" {
        let r = kmain::scenario_cli::run(&args[2..]);
        std::process::exit(if r { 1 } else { 0 });
    }
    if args.len() < 2 {
        eprintln!("usage: replay <harness> <hex,hex,...> | --list | --scenario <name> [args]");
        std::process::exit(2);
    }
    let Some(f) = registry::lookup(&args[1]) else {
        println!("unknown harness {}", args[1]);
        std::process::exit(4);
    };
    let mut vals: Vec<Vec<u8>> = Vec::new();
    if args.len() >= 3 && !args[2].is_empty() {
        for h in args[2].split(',') {
            let h = h.trim();
            let mut v = Vec::new();
            let mut i = 0;
            while i + 1 < h.len() {
                v.push(u8::from_str_radix(&h[i..i + 2], 16).expect("hex"));
                i += 2;
            }
            vals.push(v);
        }
    }
    let n = vals.len();
    vk::load_queue(vals.clone());
    std::panic::set_hook(Box::new(|info| {
        let p = info.payload();
        if p.downcast_ref::<vk::AssumeViolated>().is_none() && p.downcast_ref::<kmain::toyf::CutReached>().is_none() {
            println!("panic: {info}");
        }
    }));
    let r = std::panic::catch_unwind(f);
    let (st, left) = vk::state();
    println!("values={n} unused={left} exhausted={} desync={} covers_hit={}", st.exhausted, st.desync, st.covers_hit);
    let body_failed = match r {
        Ok(()) => false,
        Err(e) => {
            if e.downcast_ref::<vk::AssumeViolated>().is_some() || st.assume_failed {
                println!("ASSUMPTION VIOLATED (counterexample values do not drive the native run)");
                std::process::exit(3)
            }
            e.downcast_ref::<kmain::toyf::CutReached>().is_none()
        }
    };
    if !body_failed {
        println!("COMPLETED without assertion failure: {}", args[1]);
        std::process::exit(0)
    }
    println!("level 1 REPRODUCED: harness body {} fails natively on the solver's values", args[1]);
    match kmain::scenario_cli::for_harness(&args[1], &vals) {
        None => std::process::exit(1),
        Some(true) => {
            println!("level 2 REPRODUCED: the real public API panics");
            std::process::exit(1)
        }
        Some(false) => {
            println!("level 2 NOT reproduced: the real public API returned a value");
            std::process::exit(0)
        }
    }
}
