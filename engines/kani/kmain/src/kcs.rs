//! Stub commitment scheme: a commitment is an opaque token of width 0 on the wire (see `read`).
//! ENVIRONMENT the generic midnight-proofs code is instantiated at, not code under test.
use core::ops::{Add, Mul};
use group::GroupEncoding;
use midnight_proofs::poly::{
    commitment::{Guard, Params, PolynomialCommitmentScheme},
    Coeff, Error, LagrangeCoeff, Polynomial, ProverQuery, VerifierQuery,
};
use midnight_proofs::transcript::{Hashable, Sampleable, Transcript};
use midnight_proofs::utils::{helpers::ProcessedSerdeObject, SerdeFormat};
use std::io::{self, Read, Write};
use subtle::{Choice, CtOption};

use crate::toyf::ToyF;

#[derive(Clone, Copy, Debug, PartialEq, Eq, Default)]
pub struct KCom(pub u8);
impl Add for KCom {
    type Output = KCom;
    fn add(self, o: KCom) -> KCom {
        KCom(self.0.wrapping_add(o.0))
    }
}
impl Mul<ToyF> for KCom {
    type Output = KCom;
    fn mul(self, f: ToyF) -> KCom {
        KCom(self.0.wrapping_mul(f.0))
    }
}
impl GroupEncoding for KCom {
    type Repr = [u8; 1];
    fn from_bytes(b: &[u8; 1]) -> CtOption<Self> {
        CtOption::new(KCom(b[0]), Choice::from(1))
    }
    fn from_bytes_unchecked(b: &[u8; 1]) -> CtOption<Self> {
        Self::from_bytes(b)
    }
    fn to_bytes(&self) -> [u8; 1] {
        [self.0]
    }
}

impl ProcessedSerdeObject for KCom {
    fn read<R: Read>(r: &mut R, _: SerdeFormat) -> io::Result<Self> {
        // Zero-width, infallible decoder: an `io::Error` created inside `collect::<Result<Vec<_>, _>>()`
        // is dropped through std's bit-packed repr, whose tag CBMC cannot resolve (measured: the
        // virtual drop call then fans out into every drop glue of the program and never finishes).
        // Decoder failures are the subject of the SerdeObject harnesses, not of the framing harness.
        let _ = r;
        Ok(KCom(0))
    }
    fn write<W: Write>(&self, w: &mut W, _: SerdeFormat) -> io::Result<()> {
        w.write_all(&[self.0])
    }
}

#[derive(Clone, Debug)]
pub struct KParams {
    pub k: u32,
}
impl Params for KParams {
    fn max_k(&self) -> u32 {
        self.k
    }
    fn downsize(&mut self, k: u32) {
        self.k = k
    }
}
#[derive(Clone, Debug)]
pub struct KCS;
#[derive(Debug)]
pub struct KGuard;
impl Guard<ToyF, KCS> for KGuard {
    fn verify(self, _: &()) -> Result<(), Error> {
        Ok(())
    }
}
impl PolynomialCommitmentScheme<ToyF> for KCS {
    type Parameters = KParams;
    type VerifierParameters = ();
    type Commitment = KCom;
    type VerificationGuard = KGuard;
    fn gen_params(k: u32) -> KParams {
        KParams { k }
    }
    fn get_verifier_params(_: &KParams) {}
    fn commit(_: &KParams, _: &Polynomial<ToyF, Coeff>) -> KCom {
        KCom(0)
    }
    fn commit_lagrange(_: &KParams, _: &Polynomial<ToyF, LagrangeCoeff>) -> KCom {
        KCom(0)
    }
    fn multi_open<T: Transcript>(_: &KParams, _: &[ProverQuery<ToyF>], _: &mut T) -> Result<(), Error>
    where
        ToyF: Sampleable<T::Hash> + std::hash::Hash + Ord + Hashable<T::Hash>,
        KCom: Hashable<T::Hash>,
    {
        Ok(())
    }
    fn multi_prepare<'com, T: Transcript>(
        _: &[VerifierQuery<'com, ToyF, Self>],
        _: &mut T,
    ) -> Result<KGuard, Error>
    where
        ToyF: Sampleable<T::Hash> + std::hash::Hash + Ord + Hashable<T::Hash>,
        KCom: 'com + Hashable<T::Hash>,
    {
        Ok(KGuard)
    }
}
