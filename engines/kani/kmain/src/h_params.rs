//! C16 (c): length field of `ParamsKZG::read_custom` (proofs/src/poly/kzg/params.rs).
//!
//! REAL code: `ParamsKZG::<Bls12>::read_custom` on a symbolic buffer. The oracle for "allocates memory
//! proportional to an unchecked length field" is a stand-in for `vec![elem; n]` (`alloc::vec::from_elem`)
//! that asserts `n <= number of input bytes` (every element of the two point vectors costs at least
//! 48 bytes of input) and returns an empty vector; `parallelize` (rayon) is a no-op.
use crate::vk::{any, assume};
use midnight_proofs::poly::kzg::params::ParamsKZG;
use midnight_proofs::utils::SerdeFormat;

pub const PBUF: usize = 8;

fn run(k_max: u32) {
    let buf: [u8; PBUF] = any();
    let len: usize = any();
    assume(len <= PBUF);
    assume(u32::from_le_bytes([buf[0], buf[1], buf[2], buf[3]]) <= k_max);
    #[cfg(kani)]
    unsafe {
        crate::stubs::INPUT_LEN = len;
    }
    let mut rd: &[u8] = &buf[..len];
    let r = ParamsKZG::<midnight_curves::Bls12>::read_custom(&mut rd, SerdeFormat::Processed);
    crate::vcover!(r.is_err());
    core::mem::forget(r);
}

/// k <= 20: no vector is sized by the header before the corresponding input has been seen
#[cfg_attr(kani, kani::proof)]
#[cfg_attr(kani, kani::unwind(10))]
#[cfg_attr(kani, kani::stub(std::fmt::format, crate::stubs::format_stub))]
#[cfg_attr(kani, kani::stub(std::vec::from_elem, crate::stubs::from_elem_bounded_stub))]
#[cfg_attr(kani, kani::stub(midnight_proofs::utils::arithmetic::parallelize, crate::stubs::parallelize_stub))]
pub fn params_read_allocation_bounded() {
    run(20)
}

/// any k: `1 << k` does not overflow (the allocation oracle is off: `from_elem` returns an empty vector)
#[cfg_attr(kani, kani::proof)]
#[cfg_attr(kani, kani::unwind(10))]
#[cfg_attr(kani, kani::stub(std::fmt::format, crate::stubs::format_stub))]
#[cfg_attr(kani, kani::stub(std::vec::from_elem, crate::stubs::from_elem_empty_stub))]
#[cfg_attr(kani, kani::stub(midnight_proofs::utils::arithmetic::parallelize, crate::stubs::parallelize_stub))]
pub fn params_read_shift() {
    run(u32::MAX)
}
