//! C16 (a): framing of `VerifyingKey::read_from_cs` (proofs/src/plonk/mod.rs).
//!
//! The REAL `read_from_cs` is executed on a symbolic buffer. Environment: toy field F_97, stub
//! commitment scheme (zero-width infallible commitments), `EvaluationDomain::new` and the private
//! `VerifyingKey::from_parts` replaced by struct-assembling stand-ins (their own arithmetic/hash are
//! not part of the property; the integer prefix of `EvaluationDomain::new` is h_domain.rs).
use crate::kcs::KCS;
use crate::toyf::ToyF;
use crate::vk::{any, assume};
use midnight_proofs::plonk::{ConstraintSystem, VerifyingKey};
use midnight_proofs::utils::SerdeFormat;

/// 2 fixed columns, 1 advice column, 2 permutation columns; no gates and no selectors (CBMC cannot
/// constant-fold the recursive `Expression` walks / drop glue: measured out-of-memory with one
/// 3-node gate and non-termination with one selector).
pub fn make_cs() -> ConstraintSystem<ToyF> {
    let mut cs = ConstraintSystem::<ToyF>::default();
    let _f0 = cs.fixed_column();
    let f1 = cs.fixed_column();
    let a = cs.advice_column();
    cs.enable_equality(a);
    cs.enable_equality(f1);
    cs
}

pub const BUF: usize = 8;
/// bound on the commitment count in the header (loop unwinding); the count itself is symbolic
pub const MAX_COUNT: u32 = 4;

fn run(check_post: bool) {
    run_pinned(check_post, None)
}

/// `pin = Some(c)`: the symbolic input pinned to the canonical buffer [version 3, k 0, count c, 0, 0]
/// of full length (counterexample extraction when Kani's concrete playback gives no test for the
/// failing assertion; see h_arch.rs).
fn run_pinned(check_post: bool, pin: Option<u8>) {
    let buf: [u8; BUF] = any();
    let len: usize = any();
    assume(len <= BUF);
    if let Some(c) = pin {
        assume(len == BUF && buf[0] == 3 && buf[1] == 0 && buf[2] == c);
        assume(buf[3] == 0 && buf[4] == 0 && buf[5] == 0 && buf[6] == 0 && buf[7] == 0);
    }
    assume(u32::from_le_bytes([buf[2], buf[3], buf[4], buf[5]]) <= MAX_COUNT);
    let cs = make_cs();
    let mut rd: &[u8] = &buf[..len];
    let r = VerifyingKey::<ToyF, KCS>::read_from_cs(&mut rd, SerdeFormat::RawBytes, cs);
    match r {
        Ok(vk) => {
            if pin.is_none() {
                crate::vcover!(true, "read_from_cs returns Ok");
            }
            if check_post {
                // Index expressions of the verifier that this key feeds:
                //  proofs/src/plonk/verifier.rs  `&vk.fixed_commitments[column.index()]` for every
                //    (column, at) in vk.cs.fixed_queries, column.index() < cs.num_fixed_columns;
                //  proofs/src/plonk/permutation/verifier.rs zips vk.permutation.commitments with the
                //    permutation columns.
                // a fixed column of the constraint system has no commitment in the decoded key?
                assert!(vk.fixed_commitments().len() >= vk.cs().num_fixed_columns());
                assert!(vk.permutation().commitments().len() == vk.cs().permutation().get_columns().len());
            }
            core::mem::forget(vk);
        }
        Err(e) => {
            if pin.is_none() {
                crate::vcover!(true, "read_from_cs returns Err");
            }
            core::mem::forget(e);
        }
    }
}

/// never panics, whatever the bytes (k <= 255, any version, any count <= MAX_COUNT, any truncation)
#[cfg_attr(kani, kani::proof)]
#[cfg_attr(kani, kani::unwind(7))]
#[cfg_attr(kani, kani::stub(std::fmt::format, crate::stubs::format_stub))]
#[cfg_attr(kani, kani::stub(std::hash::RandomState::new, crate::stubs::random_state_new_stub))]
#[cfg_attr(kani, kani::stub(midnight_proofs::poly::EvaluationDomain::new, crate::stubs::domain_new_stub))]
#[cfg_attr(kani, kani::stub(midnight_proofs::plonk::VerifyingKey::from_parts, crate::stubs::from_parts_stub))]
pub fn vk_read_total() {
    run(false)
}

/// on Ok the decoded key is index-safe for the verifier (predicted defect F4b)
#[cfg_attr(kani, kani::proof)]
#[cfg_attr(kani, kani::unwind(7))]
#[cfg_attr(kani, kani::stub(std::fmt::format, crate::stubs::format_stub))]
#[cfg_attr(kani, kani::stub(std::hash::RandomState::new, crate::stubs::random_state_new_stub))]
#[cfg_attr(kani, kani::stub(midnight_proofs::poly::EvaluationDomain::new, crate::stubs::domain_new_stub))]
#[cfg_attr(kani, kani::stub(midnight_proofs::plonk::VerifyingKey::from_parts, crate::stubs::from_parts_stub))]
pub fn vk_read_postcondition() {
    run(true)
}

macro_rules! vk_post_pin {
    ($name:ident, $c:expr) => {
        #[cfg_attr(kani, kani::proof)]
        #[cfg_attr(kani, kani::unwind(7))]
        #[cfg_attr(kani, kani::stub(std::fmt::format, crate::stubs::format_stub))]
        #[cfg_attr(kani, kani::stub(std::hash::RandomState::new, crate::stubs::random_state_new_stub))]
        #[cfg_attr(kani, kani::stub(midnight_proofs::poly::EvaluationDomain::new, crate::stubs::domain_new_stub))]
        #[cfg_attr(kani, kani::stub(midnight_proofs::plonk::VerifyingKey::from_parts, crate::stubs::from_parts_stub))]
        pub fn $name() {
            run_pinned(true, Some($c))
        }
    };
}
vk_post_pin!(vk_read_postcondition_pin_0, 0);
vk_post_pin!(vk_read_postcondition_pin_1, 1);
