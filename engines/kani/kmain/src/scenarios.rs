//! Real-public-API scenarios (native only): each re-creates, against the real midnight-zk-stdlib /
//! midnight-zkir API, the situation a solver counterexample describes, under `catch_unwind`.
//! Return value: true = the real API panicked (defect reproduced), false = it returned a value.
use ff::Field;
use midnight_circuits::instructions::{ArithInstructions, AssignmentInstructions, PublicInputInstructions};
use midnight_proofs::{
    circuit::{Layouter, Value},
    plonk::Error,
    poly::kzg::params::ParamsKZG,
    utils::SerdeFormat,
};
use midnight_zk_stdlib::{MidnightVK, Relation, ZkStdLib, ZkStdLibArch};
use rand::SeedableRng;
use std::panic::{catch_unwind, AssertUnwindSafe};

type F = midnight_curves::Fq;

#[derive(Clone, Default, Debug)]
pub struct Tiny;
impl Relation for Tiny {
    type Instance = F;
    type Witness = F;
    fn format_instance(i: &F) -> Result<Vec<F>, Error> {
        Ok(vec![*i])
    }
    fn circuit(
        &self,
        std_lib: &ZkStdLib,
        layouter: &mut impl Layouter<F>,
        _i: Value<F>,
        w: Value<F>,
    ) -> Result<(), Error> {
        let x = std_lib.assign(layouter, w)?;
        let y = std_lib.mul(layouter, &x, &x, None)?;
        std_lib.constrain_as_public_input(layouter, &y)
    }
    fn write_relation<W: std::io::Write>(&self, _w: &mut W) -> std::io::Result<()> {
        Ok(())
    }
    fn read_relation<R: std::io::Read>(_r: &mut R) -> std::io::Result<Self> {
        Ok(Tiny)
    }
}

fn quiet<T>(f: impl FnOnce() -> T) -> Result<T, String> {
    match catch_unwind(AssertUnwindSafe(f)) {
        Ok(v) => Ok(v),
        Err(e) => Err(e
            .downcast_ref::<String>()
            .cloned()
            .or_else(|| e.downcast_ref::<&str>().map(|s| s.to_string()))
            .unwrap_or_else(|| "panic".into())),
    }
}

/// serialized header of a MidnightVK up to (and excluding) the inner VerifyingKey
fn midnight_vk_prefix(arch: ZkStdLibArch) -> Vec<u8> {
    let mut v = vec![];
    arch.write(&mut v).unwrap();
    v.push(8); // max_bit_len
    v.extend_from_slice(&1u32.to_le_bytes()); // nb_public_inputs
    v
}

/// `MidnightVK::read` on a key whose inner header carries circuit-size byte `k` (<= F::S, i.e. accepted
/// by the reader's own check).
pub fn vk_read_with_k(k: u8) -> bool {
    let mut v = midnight_vk_prefix(ZkStdLibArch::default());
    v.push(0x03); // VerifyingKey VERSION
    v.push(k);
    v.extend_from_slice(&0u32.to_le_bytes());
    let r = quiet(|| MidnightVK::read(&mut &v[..], SerdeFormat::RawBytes).map(|_| ()));
    println!("MidnightVK::read(header k={k}) -> {:?}", r.as_ref().map(|x| x.as_ref().map_err(|e| e.to_string())));
    r.is_err()
}

/// `MidnightVK::read` on a key whose architecture descriptor says `nr_pow2range_cols = nr`.
pub fn vk_read_with_nr_pow2range_cols(nr: u8) -> bool {
    let arch = ZkStdLibArch { nr_pow2range_cols: nr, ..ZkStdLibArch::default() };
    let mut v = midnight_vk_prefix(arch);
    v.push(0x03);
    v.push(5);
    v.extend_from_slice(&0u32.to_le_bytes());
    let r = quiet(|| MidnightVK::read(&mut &v[..], SerdeFormat::RawBytes).map(|_| ()));
    println!("MidnightVK::read(nr_pow2range_cols={nr}) -> {:?}", r.as_ref().map(|x| x.as_ref().map_err(|e| e.to_string())));
    r.is_err()
}

/// Honest key + honest proof of `Tiny`; the key is re-encoded with `missing` fixed commitments fewer
/// than the circuit has (header count lowered accordingly), decoded with `MidnightVK::read` (which
/// accepts it) and used to verify the honest proof.
pub fn verify_with_short_fixed_commitments(missing: usize) -> bool {
    let rng = rand::rngs::StdRng::seed_from_u64(7);
    let relation = Tiny;
    let k = midnight_zk_stdlib::MidnightCircuit::from_relation(&relation).min_k();
    let srs: ParamsKZG<midnight_curves::Bls12> = ParamsKZG::unsafe_setup(k, rng.clone());
    let vk = midnight_zk_stdlib::setup_vk(&srs, &relation);
    let pk = midnight_zk_stdlib::setup_pk(&relation, &vk);
    let w = F::from(3);
    let inst = w * w;
    let proof = midnight_zk_stdlib::prove::<Tiny, blake2b_simd::State>(&srs, &pk, &relation, &inst, w, rng)
        .expect("honest proof");
    let vparams = srs.verifier_params();
    assert!(midnight_zk_stdlib::verify::<Tiny, blake2b_simd::State>(&vparams, &vk, &inst, None, &proof).is_ok());
    let mut bytes = vec![];
    vk.write(&mut bytes, SerdeFormat::RawBytes).unwrap();
    let prefix = midnight_vk_prefix(ZkStdLibArch::default()).len();
    // inner key: version, k, count (u32 LE), count * 96 bytes (RawBytes G1 affine), permutation commitments
    let off = prefix + 2;
    let count = u32::from_le_bytes(bytes[off..off + 4].try_into().unwrap()) as usize;
    let missing = missing.clamp(1, count);
    let new_count = count - missing;
    let mut t = bytes[..off].to_vec();
    t.extend_from_slice(&(new_count as u32).to_le_bytes());
    t.extend_from_slice(&bytes[off + 4..off + 4 + 96 * new_count]);
    t.extend_from_slice(&bytes[off + 4 + 96 * count..]);
    let bad = match quiet(|| MidnightVK::read(&mut &t[..], SerdeFormat::RawBytes)) {
        Ok(Ok(vk)) => vk,
        Ok(Err(e)) => {
            println!("MidnightVK::read rejected the key with {new_count}/{count} fixed commitments: {e}");
            return false;
        }
        Err(p) => {
            println!("MidnightVK::read PANICKED on the key with {new_count}/{count} fixed commitments: {p}");
            return true;
        }
    };
    println!("MidnightVK::read ACCEPTED a key with {new_count} fixed commitments for a circuit with {count} fixed columns");
    let r = quiet(|| midnight_zk_stdlib::verify::<Tiny, blake2b_simd::State>(&vparams, &bad, &inst, None, &proof).map_err(|e| format!("{e:?}")));
    println!("verify with that key -> {:?}", r);
    r.is_err()
}

/// `batch_verify` on an empty batch.
pub fn batch_verify_empty() -> bool {
    let rng = rand::rngs::StdRng::seed_from_u64(7);
    let srs: ParamsKZG<midnight_curves::Bls12> = ParamsKZG::unsafe_setup(3, rng);
    let vparams = srs.verifier_params();
    let r = quiet(|| midnight_zk_stdlib::batch_verify::<blake2b_simd::State>(&vparams, &[], &[], &[]).map_err(|e| format!("{e:?}")));
    println!("batch_verify(&params, &[], &[], &[]) -> {:?}", r);
    r.is_err()
}

/// A one-instruction-plus-load ZKIR program `load BigUint(bits) -> x; into_bytes(n) x -> y`, compiled by
/// the real circuit synthesis (`MidnightCircuit` + `dummy_synthesize_run` through
/// `ZkirRelation::public_inputs`, then `cost_model`). true = the compilation panicked.
pub fn zkir_into_bytes_biguint(bits: u32, n: usize) -> bool {
    use midnight_zkir::{Instruction, IrType, IrValue, Operation, ZkirRelation};
    let prog = vec![
        Instruction { operation: Operation::Load(IrType::BigUint(bits)), inputs: vec![], outputs: vec!["x".into()] },
        Instruction { operation: Operation::IntoBytes(n), inputs: vec!["x".into()], outputs: vec!["y".into()] },
        Instruction { operation: Operation::Publish, inputs: vec!["y".into()], outputs: vec![] },
    ];
    let rel = match ZkirRelation::from_instructions(&prog) {
        Ok(r) => r,
        Err(e) => {
            println!("from_instructions rejected the program: {e:?}");
            return false;
        }
    };
    let mut w = std::collections::HashMap::new();
    w.insert("x", IrValue::BigUint(num_bigint::BigUint::from(1u8)));
    let off = quiet(|| rel.public_inputs(w.clone()).map(|v| v.len()).map_err(|e| format!("{e:?}")));
    println!("zkir load BigUint({bits}); into_bytes({n}): off-circuit + in-circuit type pass -> {:?}", off);
    if off.is_err() {
        return true;
    }
    let r = quiet(|| midnight_zk_stdlib::cost_model(&rel).k);
    println!("zkir load BigUint({bits}); into_bytes({n}): circuit compilation (cost_model) -> {:?}", r);
    r.is_err()
}

/// Off-circuit `IrValue::Native(1).into_bytes(n)`.
pub fn zkir_into_bytes_native_offcircuit(n: usize) -> bool {
    use midnight_zkir::IrValue;
    let r = quiet(|| IrValue::Native(F::ONE).into_bytes(n).map(|_| ()).map_err(|e| format!("{e:?}")));
    println!("IrValue::Native(1).into_bytes({n}) -> {:?}", r);
    r.is_err()
}

/// Off-circuit ModExp with modulus m.
pub fn zkir_mod_exp_offcircuit(x: u64, n: u64, m: u64) -> bool {
    use midnight_zkir::{Instruction, IrType, IrValue, Operation, ZkirRelation};
    let prog = vec![
        Instruction { operation: Operation::Load(IrType::BigUint(64)), inputs: vec![], outputs: vec!["x".into(), "m".into()] },
        Instruction { operation: Operation::ModExp(n), inputs: vec!["x".into(), "m".into()], outputs: vec!["y".into()] },
    ];
    let rel = ZkirRelation::from_instructions(&prog).expect("well-formed");
    let mut w = std::collections::HashMap::new();
    w.insert("x", IrValue::BigUint(num_bigint::BigUint::from(x)));
    w.insert("m", IrValue::BigUint(num_bigint::BigUint::from(m)));
    let r = quiet(|| rel.public_inputs(w.clone()).map(|v| v.len()).map_err(|e| format!("{e:?}")));
    println!("zkir mod_exp({n}) x={x} m={m} off-circuit -> {:?}", r);
    r.is_err()
}

/// `DualMSM::batch_verify` (the provided `Guard::batch_verify`) on `ng` empty guards and `np` parameter sets.
pub fn dualmsm_batch_verify_lengths(ng: usize, np: usize) -> bool {
    use midnight_proofs::poly::commitment::Guard;
    use midnight_proofs::poly::kzg::{msm::DualMSM, KZGCommitmentScheme};
    let rng = rand::rngs::StdRng::seed_from_u64(7);
    let srs: ParamsKZG<midnight_curves::Bls12> = ParamsKZG::unsafe_setup(2, rng);
    let vp = srs.verifier_params();
    let ps = vec![vp.clone(), vp];
    let guards: Vec<DualMSM<midnight_curves::Bls12>> = (0..ng).map(|_| DualMSM::init()).collect();
    let r = quiet(|| {
        <DualMSM<midnight_curves::Bls12> as Guard<F, KZGCommitmentScheme<midnight_curves::Bls12>>>::batch_verify(
            guards.into_iter(),
            ps[..np].iter(),
        )
        .map_err(|e| format!("{e:?}"))
    });
    println!("DualMSM::batch_verify({ng} guards, {np} params) -> {:?}", r);
    r.is_err()
}

/// `ParamsKZG::read_custom(Processed)` on a 4-byte input whose header says k.
pub fn params_read_custom_k(k: u32) -> bool {
    let bytes = k.to_le_bytes();
    let r = quiet(|| ParamsKZG::<midnight_curves::Bls12>::read_custom(&mut &bytes[..], SerdeFormat::Processed).map(|_| ()).map_err(|e| e.to_string()));
    println!("ParamsKZG::read_custom(k={k}, Processed) on 4 bytes -> {:?}", r);
    r.is_err()
}

/// Oracle concretisation for the G1 decoding harnesses (C03/C16): the solver's counterexample is an
/// ORACLE PATH (uncompress ok, on curve, NOT in the subgroup, yet accepted). A concrete witness of
/// that path is searched natively: small x-coordinates whose unchecked decompression succeeds and
/// whose point is not torsion free (almost every curve point: the cofactor is ~2^125). The real
/// decoder `which` is then run on those bytes; true = it ACCEPTS a point outside the subgroup.
pub fn g1_decoder_accepts_outside_subgroup(which: &str) -> bool {
    use group::GroupEncoding;
    use midnight_curves::{G1Affine, G1Projective};
    use midnight_proofs::transcript::Hashable;
    for x in 1u32..200 {
        for sign in [0u8, 0x20] {
            let mut bytes = [0u8; 48];
            bytes[44..48].copy_from_slice(&x.to_be_bytes());
            bytes[0] |= 0x80 | sign;
            let mut repr = <G1Affine as GroupEncoding>::Repr::default();
            repr.as_mut().copy_from_slice(&bytes);
            let p: Option<G1Affine> = Option::from(G1Affine::from_bytes_unchecked(&repr));
            let Some(p) = p else { continue };
            if bool::from(p.is_torsion_free()) {
                continue;
            }
            let accepted = match which {
                "hashable" => {
                    let mut rd: &[u8] = &bytes[..];
                    <G1Projective as Hashable<blake2b_simd::State>>::read(&mut rd).is_ok()
                }
                "serde-processed" => {
                    use midnight_proofs::utils::{helpers::ProcessedSerdeObject, SerdeFormat};
                    let mut rd: &[u8] = &bytes[..];
                    <G1Projective as ProcessedSerdeObject>::read(&mut rd, SerdeFormat::Processed).is_ok()
                }
                _ => false,
            };
            println!("witness x={x} sign={sign:#x}: on curve, outside the subgroup; real decoder `{which}` accepted={accepted}");
            return accepted;
        }
    }
    println!("no witness found");
    false
}

/// C15, fold of `batch_verify` (level 2 of h_batch_fold.rs): witness search for "a batch with an
/// invalid member is accepted" against the REAL `midnight_zk_stdlib::batch_verify` (real proofs of
/// `Tiny`, real SRS from `ParamsKZG::unsafe_setup`, Blake2b transcript). Two honest proofs P0, P1;
/// P+ / P- are copies of P1 whose final KZG opening point (the last G1 element of the proof) is
/// shifted by +D / -D: each is rejected by `verify` on its own, and their errors cancel exactly
/// when they enter the combination with EQUAL weights. For every batch size 1..=max_n:
///   * the all-honest batch must be accepted;
///   * every batch with P+ at ONE position must be rejected (a member that is dropped / gets weight 0);
///   * every batch with P+ at position i and P- at position j > i must be rejected (two members
///     with the same weight);
///   * every batch with P+ at position i and P1 - r0^(j-i) D at position j > i must be rejected, r0
///     being the challenge of a batching transcript that absorbed nothing (a challenge that does
///     not depend on the members).
/// true (= reproduced) iff the real `batch_verify` answers otherwise for at least one of them.
pub fn batch_fold_attack(max_n: usize) -> bool {
    use group::{Group, GroupEncoding};
    use midnight_curves::G1Projective;
    let max_n = max_n.clamp(1, 5);
    let mut rng = rand::rngs::StdRng::seed_from_u64(0xC15);
    let relation = Tiny;
    let k = midnight_zk_stdlib::MidnightCircuit::from_relation(&relation).min_k();
    let srs: ParamsKZG<midnight_curves::Bls12> = ParamsKZG::unsafe_setup(k, rng.clone());
    let vk = midnight_zk_stdlib::setup_vk(&srs, &relation);
    let pk = midnight_zk_stdlib::setup_pk(&relation, &vk);
    let vparams = srs.verifier_params();
    let mut prove = |w: F| {
        let inst = w * w;
        let p = midnight_zk_stdlib::prove::<Tiny, blake2b_simd::State>(&srs, &pk, &relation, &inst, w, &mut rng)
            .expect("honest proof");
        (inst, p)
    };
    let (i0, p0) = prove(F::from(3));
    let (i1, p1) = prove(F::from(5));
    let shift = |proof: &[u8], delta: G1Projective| -> Vec<u8> {
        let rl = <G1Projective as GroupEncoding>::Repr::default().as_ref().len();
        let split = proof.len() - rl;
        let mut repr = <G1Projective as GroupEncoding>::Repr::default();
        repr.as_mut().copy_from_slice(&proof[split..]);
        let pi: G1Projective = Option::from(G1Projective::from_bytes(&repr)).expect("the proof ends with a G1 point");
        let mut t = proof[..split].to_vec();
        t.extend_from_slice((pi + delta).to_bytes().as_ref());
        t
    };
    let delta = G1Projective::generator() * F::from(0xD17A);
    let plus = shift(&p1, delta);
    let minus = shift(&p1, -delta);
    // the challenge a batching transcript hands out when it has absorbed NOTHING: a verifier whose
    // batching challenge does not depend on the members uses exactly this value, and the pair
    // (P1 + D at i, P1 - r0^(j-i) D at j) then cancels under the documented weights r^(n-1-i)
    let r0: F = {
        use midnight_proofs::transcript::{CircuitTranscript, Transcript};
        CircuitTranscript::<blake2b_simd::State>::init().squeeze_challenge()
    };
    let minus_r0: Vec<Vec<u8>> = (0..max_n).map(|d| shift(&p1, -(delta * r0.pow([d as u64])))).collect();
    let one = |inst: &F, p: &[u8]| midnight_zk_stdlib::verify::<Tiny, blake2b_simd::State>(&vparams, &vk, inst, None, p).is_ok();
    if !(one(&i0, &p0) && one(&i1, &p1)) || one(&i1, &plus) || one(&i1, &minus) {
        println!("batch-fold-attack: sanity failed (honest proofs must verify, shifted copies must not): nothing concluded");
        return false;
    }
    // member kinds: 0 = honest P0, 1 = honest P1, 2 = P+, 3 = P-, 4 + d = P1 - r0^d D
    let batch = |kinds: &[u8]| -> Result<bool, String> {
        let vks = vec![vk.clone(); kinds.len()];
        let pis: Vec<Vec<F>> = kinds.iter().map(|k| vec![if *k == 0 { i0 } else { i1 }]).collect();
        let proofs: Vec<Vec<u8>> = kinds
            .iter()
            .map(|k| match k {
                0 => p0.clone(),
                1 => p1.clone(),
                2 => plus.clone(),
                3 => minus.clone(),
                d => minus_r0[(*d - 4) as usize].clone(),
            })
            .collect();
        quiet(|| midnight_zk_stdlib::batch_verify::<blake2b_simd::State>(&vparams, &vks, &pis, &proofs).is_ok())
    };
    let show = |kinds: &[u8]| kinds.iter().map(|k| ["P0", "P1", "P+", "P-", "P-r0^0", "P-r0^1", "P-r0^2", "P-r0^3", "P-r0^4"][*k as usize]).collect::<Vec<_>>().join(", ");
    let mut reproduced = false;
    let mut tried = 0;
    for n in 1..=max_n {
        let honest: Vec<u8> = (0..n).map(|i| (i % 2) as u8).collect();
        tried += 1;
        match batch(&honest) {
            Ok(true) => {}
            r => {
                println!("batch_verify([{}]) (all members valid) -> {:?}: REJECTED / panicked", show(&honest), r);
                reproduced = true;
            }
        }
        for i in 0..n {
            let mut b = honest.clone();
            b[i] = 2;
            tried += 1;
            if let Ok(true) = batch(&b) {
                println!("batch_verify([{}]) -> Ok: ACCEPTED a batch whose member {i} is invalid", show(&b));
                reproduced = true;
            }
            for j in i + 1..n {
                let mut c = b.clone();
                c[j] = 3;
                tried += 1;
                if let Ok(true) = batch(&c) {
                    println!("batch_verify([{}]) -> Ok: ACCEPTED a batch whose members {i} and {j} are invalid (their errors cancel: equal weights)", show(&c));
                    reproduced = true;
                }
                let mut c = b.clone();
                c[j] = 4 + (j - i) as u8;
                tried += 1;
                if let Ok(true) = batch(&c) {
                    println!("batch_verify([{}]) -> Ok: ACCEPTED a batch whose members {i} and {j} are invalid (errors prepared for the member-independent challenge r0)", show(&c));
                    reproduced = true;
                }
            }
        }
    }
    println!("batch-fold-attack: {tried} batches of size 1..={max_n} tried against the real batch_verify; violation found = {reproduced}");
    reproduced
}


/// Oracle concretisation for the Poseidon-transcript G1 reader (C03): the solver's counterexample is "a
/// buffer shorter than 48 bytes was accepted". Concrete witness: a subgroup point whose compressed
/// encoding ends in 0x00 (searched among small multiples of the generator), fed with that last byte removed
/// to the REAL `<G1Projective as Hashable<PoseidonState<Fq>>>::read`; true = the real reader accepts it.
pub fn poseidon_g1_reader_accepts_truncated() -> bool {
    use group::{Curve, Group, GroupEncoding};
    use midnight_curves::{G1Affine, G1Projective};
    use midnight_proofs::transcript::Hashable;
    type PState = midnight_circuits::hash::poseidon::PoseidonState<midnight_curves::Fq>;
    let g = G1Projective::generator();
    let mut p = g;
    for i in 1u32..20000 {
        let a: G1Affine = p.to_affine();
        let bytes = <G1Affine as GroupEncoding>::to_bytes(&a);
        let b: &[u8] = bytes.as_ref();
        if b[47] == 0 {
            let mut rd: &[u8] = &b[..47];
            let accepted = <G1Projective as Hashable<PState>>::read(&mut rd).is_ok();
            println!("witness [{i}]G: encoding ends in 0x00; real Poseidon-transcript reader on the 47-byte prefix accepted={accepted}");
            return accepted;
        }
        p += g;
    }
    println!("no witness found");
    false
}
