//! C15: the fold of `midnight_zk_stdlib::batch_verify` (zk_stdlib/src/lib.rs) combines the n member
//! guards with PAIRWISE DISTINCT powers of ONE challenge that binds every member, consumes every guard
//! exactly once, runs the final check exactly once on the combination and answers what that check says.
//!
//! REAL code executed (CBMC symbolic execution of the compiled function, n = 1, 2, 3, 4):
//! `midnight_zk_stdlib::batch_verify` as a whole — the length guard, the public-input-count guard,
//! the `zip/map/collect::<Result<Vec<_>, _>>`, `CircuitTranscript::{init, init_from_bytes,
//! squeeze_challenge, common, assert_empty}`, `Vec::into_iter`, `guards.next()`, the loop
//! `for guard in guards { acc_guard.scale(r); acc_guard.add_msm(guard); }`, `Guard::verify` of
//! `DualMSM` and the `map_err`.
//!
//! Stand-ins (environment, `#[kani::stub]`; none of them is part of the claim):
//!  * `midnight_proofs::plonk::prepare`  -> `prepare_fold`: answers Ok(guard_i) where i is the index of
//!    the KEY it was handed (pointer offset into the key slice) and guard_i is a `DualMSM<Bls12>` value
//!    that carries the ghost state below; it tells the per-proof transcript which member it belongs
//!    to (one real `Transcript::common` of a marked element), so that the member's summary challenge
//!    is a value that identifies the member. (member_err harnesses: one fixed member answers Err.)
//!  * transcript hash `FH` (a local `TranscriptHash`, as `KH` in h_batch.rs): its state records which
//!    member summaries were absorbed; the per-proof transcript's squeeze is the member's summary
//!    (marked element), the batching transcript's squeeze is the CHALLENGE: four SYMBOLIC limbs
//!    (`kani::any`), and the set of summaries absorbed at that moment is recorded.
//!  * `DualMSM::scale(obj, s)`: asserts that `s` is bit for bit the challenge the transcript handed
//!    out, then multiplies every weight of `obj` by the indeterminate X.
//!  * `DualMSM::add_msm(acc, g)`: adds the weights and the consumption counts of `g` to those of `acc`;
//!    `g` is moved in (Rust ownership: it cannot be used again) and forgotten.
//!  * `DualMSM::check(acc, params)`: the FINAL STEP: asserts the weight statement, records that it ran,
//!    answers true/false nondeterministically (the pairing is engine S's / outside).
//!
//! GHOST STATE. Guard i starts with weight vector e_i over Z[X] (X = the formal batching challenge):
//! weight[j] is a polynomial with 7 coefficient slots of 8 bits (coefficients < 128), packed in one
//! word (byte k = coefficient of X^k); one word per member 0..3, one word of consumption counts (byte j
//! = how many times member j's guard went into this object), one magic word. The six words live in the
//! data pointers of the six EMPTY (capacity 0, length 0) vectors of the `DualMSM` struct itself (see
//! `enc`/`dec`): every real operation that can touch a guard (move into / out of the `Vec`, `IntoIter`,
//! drop) leaves them alone, a real `clone` loses the magic word (=> the stand-ins refuse the object).
//! The weights are EXACT polynomials, not evaluations at a toy-field element: equality in Z[X]
//! implies equality at every r of every field, so no assumption on the order of r is needed (this
//! replaces the F_97 evaluation that was planned; it is strictly stronger, and everything but the
//! challenge limbs and the check answer is constant for the SAT solver).
//! Overflow of a coefficient (>= 128) or of the degree (> 6) is an assertion failure.
//!
//! ASSERTED at the final step (the statement that suffices for C15, not the particular order): every
//! member's weight is a monomial X^k with coefficient 1, the n exponents are pairwise distinct, every
//! guard was consumed exactly once, nothing else went in. The order of the code as it stands, (X^(n-1), .., X, 1),
//! satisfies it; so does any permutation or any other set of distinct powers (a random linear
//! combination with distinct powers of r is sound by Schwartz-Zippel; with a repeated power two
//! members' errors cancel, with a missing member its error is never looked at). The repository's
//! documentation of `batch_verify` does not promise an order, so demanding one would be more than the
//! property states.
//! ASSERTED after the call: the final step ran exactly once, `batch_verify` is Ok iff it answered
//! true, and the challenge was squeezed after ALL n member summaries had been absorbed.
//!
//! Native replay: the stand-ins do not exist natively, so a FAILED harness is concretised by the
//! level-2 scenario `batch-fold-attack` (scenarios.rs): real proofs, real `batch_verify`.

#[cfg(kani)]
pub mod k {
    use midnight_curves::{Bls12, G1Projective};
    use midnight_proofs::plonk::Error;
    use midnight_proofs::poly::kzg::msm::{DualMSM, MSMKZG};
    use midnight_proofs::poly::kzg::params::ParamsVerifierKZG;
    use midnight_proofs::poly::CommitmentLabel;
    use midnight_proofs::transcript::{Hashable, Sampleable, TranscriptHash};
    use midnight_proofs::utils::arithmetic::MSM;
    use midnight_zk_stdlib::MidnightVK;
    use std::io::{self, Read};

    type F = midnight_curves::Fq;

    pub const MAXN: usize = 4;
    const VKSZ: usize = core::mem::size_of::<MidnightVK>();
    const MAGIC_GHOST: u64 = 0x4748_4f53_545f_4b33; // "GHOST_K3"
    const MAGIC_MEMBER: u64 = 0x4d45_4d42_4552_5f5f; // marks "this transcript belongs to member i"
    const MAGIC_SUMMARY: u64 = 0x5355_4d4d_4152_595f; // marks "summary challenge of member i"
    const HI_BITS: u64 = 0x0080_8080_8080_8080;

    // ---- ghost registers (plain assignments only) ---------------------------------------------
    // ONE static with a unique initial content. Measured (Kani 0.68): separate `static mut X: usize = 0`
    // registers share their storage with a constant allocation of the same bytes (the 0usize behind
    // `Vec::new()`'s capacity): after `N_MEMBERS = 1` every fresh empty Vec<u8> had capacity 1 and its
    // drop was reported as an invalid `__rust_dealloc` (same effect as the one described in notes/K2.md).
    struct Regs {
        magic: u64,
        n_members: usize,
        vk_base: *const u8,
        /// member whose `prepare` answers Err (MAXN = nobody)
        fail_at: usize,
        chal: [u64; 4],
        chal_squeezed: u8, // 0 never, 1 once, 2 more than once
        chal_mask: u8,
        hash_poison: bool,
        check_runs: u8, // 0 never, 1 once, 2 more than once
        check_answer: bool,
    }
    static mut G: Regs = Regs {
        magic: 0x4b33_5f52_4547_5321,
        n_members: 0,
        vk_base: core::ptr::null(),
        fail_at: MAXN,
        chal: [0; 4],
        chal_squeezed: 0,
        chal_mask: 0,
        hash_poison: false,
        check_runs: 0,
        check_answer: false,
    };

    fn limbs_of<T>(x: &T) -> [u64; 4] {
        assert!(core::mem::size_of::<T>() == 32);
        unsafe { core::mem::transmute_copy::<T, [u64; 4]>(x) }
    }
    fn elem_of<T>(l: [u64; 4]) -> T {
        assert!(core::mem::size_of::<T>() == 32);
        unsafe { core::mem::transmute_copy::<[u64; 4], T>(&l) }
    }

    // ---- transcript hash ----------------------------------------------------------------------
    #[derive(Clone, Debug)]
    pub struct FH {
        member: u8,
        mask: u8,
    }
    impl TranscriptHash for FH {
        type Input = [u64; 4];
        type Output = FH;
        fn init() -> Self {
            FH { member: 0xff, mask: 0 }
        }
        fn absorb(&mut self, i: &[u64; 4]) {
            if i[3] == MAGIC_MEMBER && i[0] < MAXN as u64 {
                self.member = i[0] as u8;
            } else if i[3] == MAGIC_SUMMARY && i[0] < MAXN as u64 {
                self.mask |= 1u8 << (i[0] as u8);
            } else {
                unsafe { G.hash_poison = true };
            }
        }
        fn squeeze(&mut self) -> FH {
            self.clone()
        }
    }
    impl Hashable<FH> for F {
        fn to_input(&self) -> [u64; 4] {
            limbs_of(self)
        }
        fn to_bytes(&self) -> Vec<u8> {
            Vec::new()
        }
        fn read(_: &mut impl Read) -> io::Result<Self> {
            Err(io::Error::from(io::ErrorKind::InvalidData))
        }
    }
    impl Hashable<FH> for G1Projective {
        fn to_input(&self) -> [u64; 4] {
            [0; 4]
        }
        fn to_bytes(&self) -> Vec<u8> {
            Vec::new()
        }
        fn read(_: &mut impl Read) -> io::Result<Self> {
            Err(io::Error::from(io::ErrorKind::InvalidData))
        }
    }
    impl Sampleable<FH> for F {
        fn sample(o: FH) -> Self {
            if o.member != 0xff {
                // squeeze of a per-proof transcript: the member's summary
                elem_of([o.member as u64, 0, 0, MAGIC_SUMMARY])
            } else {
                // squeeze of the batching transcript: THE challenge
                unsafe {
                    G.chal_squeezed = if G.chal_squeezed == 0 { 1 } else { 2 };
                    G.chal_mask = o.mask;
                    elem_of(G.chal)
                }
            }
        }
    }

    // ---- guards carrying ghost state ----------------------------------------------------------
    /// Field-for-field mirror of `DualMSM<Bls12>` / `MSMKZG<Bls12>` (their fields are pub(crate));
    /// the layout is self-checked in every harness against an object built through the public API.
    #[allow(dead_code)]
    struct MsmMirror {
        scalars: Vec<F>,
        bases: Vec<G1Projective>,
        labels: Vec<CommitmentLabel>,
    }
    #[allow(dead_code)]
    struct DualMirror {
        left: MsmMirror,
        right: MsmMirror,
    }

    fn mirror_self_check() {
        assert!(core::mem::size_of::<DualMirror>() == core::mem::size_of::<DualMSM<Bls12>>());
        let mut l = MSMKZG::<Bls12>::init();
        l.append_term(elem_of([7, 8, 9, MAGIC_GHOST]), <G1Projective as group::Group>::identity(), CommitmentLabel::NoLabel);
        let d = DualMSM::<Bls12>::new(l, MSMKZG::init());
        let m = unsafe { &*(&d as *const DualMSM<Bls12> as *const DualMirror) };
        assert!(
            m.left.scalars.len() == 1
                && m.left.bases.len() == 1
                && m.left.labels.len() == 1
                && m.right.scalars.len() == 0
                && m.right.bases.len() == 0
                && m.right.labels.len() == 0
                && crate::vk::eqn(&limbs_of(&m.left.scalars[0]), &[7, 8, 9, MAGIC_GHOST]),
            "DualMirror layout self-check"
        );
        core::mem::forget(d);
    }

    struct Ghost {
        w: [u64; 4],
        cnt: u64,
    }
    // The ghost words live INSIDE the guard struct, in the data pointers of its six (empty, capacity 0)
    // vectors: a Vec with capacity 0 and length 0 never dereferences or frees its pointer, so the word
    // is inert for every real operation that may touch a guard (move, drop) and no heap object is
    // needed (pointers loaded back from the byte-array heap buffer of `Vec<DualMSM>` are symbolic
    // for CBMC's symbolic execution; dereferencing them was measured to cost 8 GB at n = 3).
    // A real `clone` of a guard yields fresh empty vectors: the magic word is lost and every stand-in
    // refuses the object ("a guard that did not come from prepare").
    // word = (value << 8) | 8: non-null and 8-aligned, as a Vec's pointer must be.
    fn enc(v: u64) -> usize {
        assert!(v >> 56 == 0);
        ((v << 8) | 8) as usize
    }
    fn dec<T>(v: &Vec<T>) -> u64 {
        let w = v.as_ptr() as usize as u64;
        assert!(w & 0xff == 8 && v.len() == 0 && v.capacity() == 0, "a guard that did not come from prepare");
        w >> 8
    }
    fn inert<T>(word: usize) -> Vec<T> {
        unsafe { Vec::from_raw_parts(word as *mut T, 0, 0) }
    }
    /// the ghost state of a guard (asserts that the object is one of ours)
    fn ghost_of<G>(g: &G) -> Ghost {
        assert!(core::mem::size_of::<G>() == core::mem::size_of::<DualMirror>());
        let m = unsafe { &*(g as *const G as *const DualMirror) };
        assert!(dec(&m.right.labels) == MAGIC_GHOST >> 8, "a guard that did not come from prepare");
        Ghost { w: [dec(&m.left.scalars), dec(&m.left.bases), dec(&m.right.scalars), dec(&m.right.bases)], cnt: dec(&m.left.labels) }
    }
    fn mirror_of(s: Ghost) -> DualMirror {
        DualMirror {
            left: MsmMirror { scalars: inert(enc(s.w[0])), bases: inert(enc(s.w[1])), labels: inert(enc(s.cnt)) },
            right: MsmMirror { scalars: inert(enc(s.w[2])), bases: inert(enc(s.w[3])), labels: inert(enc(MAGIC_GHOST >> 8)) },
        }
    }
    fn set_ghost<G>(g: &mut G, s: Ghost) {
        let m = unsafe { &mut *(g as *mut G as *mut DualMirror) };
        // the old vectors are inert (capacity 0): overwritten without running their drop
        unsafe { core::ptr::write(m, mirror_of(s)) };
    }
    fn new_guard<G>(tag: usize) -> G {
        assert!(core::mem::size_of::<G>() == core::mem::size_of::<DualMirror>());
        let mut w = [0u64; 4];
        w[tag] = 1; // the polynomial 1 on member `tag`
        let m = mirror_of(Ghost { w, cnt: 1u64 << (8 * tag) });
        unsafe { core::mem::transmute_copy(&core::mem::ManuallyDrop::new(m)) }
    }

    /// `midnight_proofs::plonk::prepare`: see the module comment.
    pub fn prepare_fold<F2, CS: midnight_proofs::poly::commitment::PolynomialCommitmentScheme<F2>, T: midnight_proofs::transcript::Transcript>(
        vk: &midnight_proofs::plonk::VerifyingKey<F2, CS>,
        _committed_instances: &[&[CS::Commitment]],
        _instances: &[&[&[F2]]],
        transcript: &mut T,
    ) -> Result<CS::VerificationGuard, Error>
    where
        F2: ff::WithSmallOrderMulGroup<3>
            + midnight_proofs::transcript::Hashable<T::Hash>
            + midnight_proofs::transcript::Sampleable<T::Hash>
            + ff::FromUniformBytes<64>
            + core::hash::Hash
            + Ord,
        CS::Commitment: midnight_proofs::transcript::Hashable<T::Hash>,
    {
        let off = unsafe { (vk as *const _ as *const u8).offset_from(G.vk_base) };
        assert!(off >= 0);
        let tag = off as usize / VKSZ;
        assert!(tag < unsafe { G.n_members }, "prepare called on a key outside the batch");
        if tag == unsafe { G.fail_at } {
            return Err(Error::Opening);
        }
        let marked: F2 = elem_of([tag as u64, 0, 0, MAGIC_MEMBER]);
        core::mem::forget(transcript.common(&marked));
        Ok(new_guard::<CS::VerificationGuard>(tag))
    }

    pub struct FoldStubs<E>(core::marker::PhantomData<E>);
    impl<E: midnight_curves::pairing::MultiMillerLoop + core::fmt::Debug> FoldStubs<E>
    where
        E::G1Affine: midnight_curves::CurveAffine<ScalarExt = E::Fr, CurveExt = E::G1>,
    {
        /// the FINAL STEP
        pub fn check(s: DualMSM<E>, _params: &ParamsVerifierKZG<E>) -> bool {
            let g = ghost_of(&s);
            let n = unsafe { G.n_members };
            let mut j = 0;
            while j < MAXN {
                let c = (g.cnt >> (8 * j)) & 0xff;
                if j < n {
                    assert!(c != 0, "a member's guard never reached the final check");
                    assert!(c == 1, "a member's guard was folded in more than once");
                    let w = g.w[j];
                    assert!(w != 0, "a member has weight 0 in the checked combination");
                    assert!(w.count_ones() == 1 && w & 0x0101_0101_0101_0101 == w, "a member's weight is not a single power of the challenge");
                    let mut i = 0;
                    while i < j {
                        assert!(g.w[i] != w, "two members have the same weight: their errors can cancel");
                        i += 1;
                    }
                } else {
                    assert!(c == 0 && g.w[j] == 0);
                }
                j += 1;
            }
            unsafe {
                G.check_runs = if G.check_runs == 0 { 1 } else { 2 };
                G.check_answer = kani::any();
                core::mem::forget(s);
                G.check_answer
            }
        }
        pub fn scale(s: &mut DualMSM<E>, e: E::Fr) {
            assert!(unsafe { G.chal_squeezed } == 1, "scale before the challenge was squeezed");
            assert!(crate::vk::eqn(&limbs_of(&e), &unsafe { G.chal }), "scaled by a value that is not the batching challenge");
            let mut g = ghost_of(s);
            let mut j = 0;
            while j < MAXN {
                assert!(g.w[j] >> 48 == 0, "degree exceeds the harness bound (6)");
                g.w[j] <<= 8;
                j += 1;
            }
            set_ghost(s, g);
        }
        pub fn add_msm(s: &mut DualMSM<E>, other: DualMSM<E>) {
            let mut g = ghost_of(s);
            let o = ghost_of(&other);
            let mut j = 0;
            while j < MAXN {
                assert!((g.w[j] | o.w[j]) & HI_BITS == 0, "coefficient exceeds the harness bound (127)");
                g.w[j] += o.w[j];
                j += 1;
            }
            assert!((g.cnt | o.cnt) & HI_BITS == 0);
            g.cnt += o.cnt;
            set_ghost(s, g);
            core::mem::forget(other);
        }
    }

    #[repr(C, align(16))]
    struct Store([u8; MAXN * VKSZ]);

    /// `fail_at` = MAXN: every `prepare` answers Ok.
    pub fn run_fold(n: usize, fail_at: usize) -> (bool, u8) {
        mirror_self_check();
        // all-zero opaque keys: nb_public_inputs = 0; every other use of a key goes through `prepare`
        let store = Store([0u8; MAXN * VKSZ]);
        let pstore = core::mem::MaybeUninit::<ParamsVerifierKZG<Bls12>>::uninit();
        let params = unsafe { &*pstore.as_ptr() };
        let vks: &[MidnightVK] = unsafe { core::slice::from_raw_parts(store.0.as_ptr() as *const MidnightVK, n) };
        let chal: [u64; 4] = kani::any();
        unsafe {
            assert!(G.magic == 0x4b33_5f52_4547_5321);
            G.n_members = n;
            G.vk_base = store.0.as_ptr();
            G.fail_at = fail_at;
            G.chal = chal;
        }
        let pis: [Vec<F>; MAXN] = [Vec::new(), Vec::new(), Vec::new(), Vec::new()];
        let proofs: [Vec<u8>; MAXN] = [Vec::new(), Vec::new(), Vec::new(), Vec::new()];
        let r = midnight_zk_stdlib::batch_verify::<FH>(params, vks, &pis[..n], &proofs[..n]);
        let ok = r.is_ok();
        let (runs, ans, sq, mask, poison) = unsafe { (G.check_runs, G.check_answer, G.chal_squeezed, G.chal_mask, G.hash_poison) };
        assert!(!poison, "the transcript absorbed something that is neither a member mark nor a member summary");
        if fail_at < n {
            assert!(!ok, "a member whose preparation fails was accepted as part of a batch");
        } else {
            assert!(runs != 0, "batch_verify returned without running the final check");
            assert!(runs == 1, "the final check ran more than once");
            assert!(ok == ans, "batch_verify does not answer what the final check said");
            assert!(sq == 1, "the batching challenge was not squeezed exactly once");
            assert!(mask == ((1u16 << n) - 1) as u8, "the batching challenge does not bind every member's summary");
        }
        core::mem::forget(r);
        core::mem::forget(pis);
        core::mem::forget(proofs);
        (ok, runs)
    }
}

macro_rules! fold_harness {
    ($(#[$doc:meta])* $name:ident, $n:expr, $unwind:expr) => {
        $(#[$doc])*
        #[cfg(kani)]
        #[kani::proof]
        #[kani::unwind($unwind)]
        #[kani::stub(midnight_proofs::plonk::prepare, crate::h_batch_fold::k::prepare_fold)]
        #[kani::stub(midnight_proofs::poly::kzg::msm::DualMSM::check, crate::h_batch_fold::k::FoldStubs::check)]
        #[kani::stub(midnight_proofs::poly::kzg::msm::DualMSM::scale, crate::h_batch_fold::k::FoldStubs::scale)]
        #[kani::stub(midnight_proofs::poly::kzg::msm::DualMSM::add_msm, crate::h_batch_fold::k::FoldStubs::add_msm)]
        pub fn $name() {
            let (ok, runs) = k::run_fold($n, k::MAXN);
            kani::cover!(runs == 1 && ok, "final step reached with n guards, batch accepted");
            kani::cover!(runs == 1 && !ok, "final step reached with n guards, batch rejected");
        }
        /// Natively the stand-ins do not exist (the real `prepare` would run on opaque keys): level 1 is
        /// not available; the spec names the level-2 scenario `batch-fold-attack` instead.
        #[cfg(not(kani))]
        pub fn $name() {
            println!("{}: no native level 1 (Kani stand-ins); use `replay --scenario batch-fold-attack`", stringify!($name));
        }
    };
}
fold_harness!(
    /// n = 1: no fold step; the single guard goes to the final check with weight 1
    batch_fold_n1, 1, 5);
fold_harness!(batch_fold_n2, 2, 5);
fold_harness!(
    /// n = 3: the smallest size at which a repeated weight on members 1.. shows (seeded change C15-a)
    batch_fold_n3, 3, 5);
fold_harness!(batch_fold_n4, 4, 5);

macro_rules! fold_err_harness {
    ($(#[$doc:meta])* $name:ident, $n:expr, $f:expr, $unwind:expr) => {
        $(#[$doc])*
        #[cfg(kani)]
        #[kani::proof]
        #[kani::unwind($unwind)]
        #[kani::stub(midnight_proofs::plonk::prepare, crate::h_batch_fold::k::prepare_fold)]
        #[kani::stub(midnight_proofs::poly::kzg::msm::DualMSM::check, crate::h_batch_fold::k::FoldStubs::check)]
        #[kani::stub(midnight_proofs::poly::kzg::msm::DualMSM::scale, crate::h_batch_fold::k::FoldStubs::scale)]
        #[kani::stub(midnight_proofs::poly::kzg::msm::DualMSM::add_msm, crate::h_batch_fold::k::FoldStubs::add_msm)]
        pub fn $name() {
            let (ok, _runs) = k::run_fold($n, $f);
            kani::cover!(!ok, "a member fails, batch rejected");
        }
        #[cfg(not(kani))]
        pub fn $name() {
            println!("{}: no native level 1 (Kani stand-ins); use `replay --scenario batch-fold-attack`", stringify!($name));
        }
    };
}
// A SYMBOLIC failing position was measured to exhaust 12 GB (the discriminant of the collected
// `Result` becomes symbolic and CBMC explores the drop glue of `plonk::Error`, i.e. of `io::Error`,
// see notes/K2.md); the position is therefore a constant of the harness.
fold_err_harness!(
    /// n = 3, the preparation of member 0 answers Err: the batch is rejected
    batch_fold_member_err_n3_at0, 3, 0, 5);
fold_err_harness!(
    /// n = 3, the preparation of member 2 (the last) answers Err: the batch is rejected
    batch_fold_member_err_n3_at2, 3, 2, 5);
