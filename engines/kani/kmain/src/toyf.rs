//! Toy prime field F_97 (97 = 2^5 * 3 + 1, so S = 5 and a primitive cube root exists). It is the
//! ENVIRONMENT the generic midnight-proofs code is instantiated at (never the code under test): every
//! function of midnight-proofs that is generic over `F: PrimeField` runs unchanged on it.
use core::iter::{Product, Sum};
use core::ops::{Add, AddAssign, Mul, MulAssign, Neg, Sub, SubAssign};
use ff::{Field, FromUniformBytes, PrimeField, WithSmallOrderMulGroup};
use rand_core::RngCore;
use subtle::{Choice, ConditionallySelectable, ConstantTimeEq, CtOption};

pub const P: u16 = 97;

#[derive(Clone, Copy, Debug, Default, PartialEq, Eq, Hash, PartialOrd, Ord)]
pub struct TF<const CUT: bool>(pub u8);
/// the toy field proper
pub type ToyF = TF<false>;
/// same carrier, but EVERY field operation cuts the path (Kani: assume(false)); S = 32 as for the
/// BLS12-381 scalar field. Used to execute only the integer prefix of generic functions.
pub type CutF = TF<true>;

#[inline(always)]
fn cut<const CUT: bool>() {
    if CUT {
        #[cfg(kani)]
        kani::assume(false);
        #[cfg(not(kani))]
        std::panic::panic_any(CutReached);
    }
}
#[derive(Debug)]
pub struct CutReached;

impl<const CUT: bool> TF<CUT> {
    #[inline]
    pub const fn new(x: u16) -> Self {
        TF::<CUT>((x % P) as u8)
    }
}

impl<const CUT: bool> ConstantTimeEq for TF<CUT> {
    fn ct_eq(&self, o: &Self) -> Choice {
        Choice::from((self.0 == o.0) as u8)
    }
}
impl<const CUT: bool> ConditionallySelectable for TF<CUT> {
    fn conditional_select(a: &Self, b: &Self, c: Choice) -> Self {
        if c.unwrap_u8() == 1 {
            *b
        } else {
            *a
        }
    }
}
impl<const CUT: bool> Neg for TF<CUT> {
    type Output = TF<CUT>;
    fn neg(self) -> TF<CUT> {
        cut::<CUT>();
        TF::<CUT>::new(P - self.0 as u16)
    }
}
impl<'a, const CUT: bool> Neg for &'a TF<CUT> {
    type Output = TF<CUT>;
    fn neg(self) -> TF<CUT> {
        -*self
    }
}
macro_rules! binop {
    ($tr:ident, $f:ident, $tra:ident, $fa:ident, $e:expr) => {
        impl<const CUT: bool> $tr<TF<CUT>> for TF<CUT> {
            type Output = TF<CUT>;
            fn $f(self, o: TF<CUT>) -> TF<CUT> {
                cut::<CUT>();
                let f: fn(u16, u16) -> u16 = $e;
                TF::<CUT>::new(f(self.0 as u16, o.0 as u16))
            }
        }
        impl<'a, const CUT: bool> $tr<&'a TF<CUT>> for TF<CUT> {
            type Output = TF<CUT>;
            fn $f(self, o: &'a TF<CUT>) -> TF<CUT> {
                $tr::$f(self, *o)
            }
        }
        impl<'a, 'b, const CUT: bool> $tr<&'b TF<CUT>> for &'a TF<CUT> {
            type Output = TF<CUT>;
            fn $f(self, o: &'b TF<CUT>) -> TF<CUT> {
                $tr::$f(*self, *o)
            }
        }
        impl<'a, const CUT: bool> $tr<TF<CUT>> for &'a TF<CUT> {
            type Output = TF<CUT>;
            fn $f(self, o: TF<CUT>) -> TF<CUT> {
                $tr::$f(*self, o)
            }
        }
        impl<const CUT: bool> $tra<TF<CUT>> for TF<CUT> {
            fn $fa(&mut self, o: TF<CUT>) {
                *self = $tr::$f(*self, o);
            }
        }
        impl<'a, const CUT: bool> $tra<&'a TF<CUT>> for TF<CUT> {
            fn $fa(&mut self, o: &'a TF<CUT>) {
                *self = $tr::$f(*self, *o);
            }
        }
    };
}
binop!(Add, add, AddAssign, add_assign, |a, b| a + b);
binop!(Sub, sub, SubAssign, sub_assign, |a, b| a + P - b);
binop!(Mul, mul, MulAssign, mul_assign, |a, b| a * b);

impl<const CUT: bool> Sum for TF<CUT> {
    fn sum<I: Iterator<Item = TF<CUT>>>(i: I) -> TF<CUT> {
        i.fold(TF::<CUT>(0), |a, b| a + b)
    }
}
impl<'a, const CUT: bool> Sum<&'a TF<CUT>> for TF<CUT> {
    fn sum<I: Iterator<Item = &'a TF<CUT>>>(i: I) -> TF<CUT> {
        i.fold(TF::<CUT>(0), |a, b| a + *b)
    }
}
impl<const CUT: bool> Product for TF<CUT> {
    fn product<I: Iterator<Item = TF<CUT>>>(i: I) -> TF<CUT> {
        i.fold(TF::<CUT>(1), |a, b| a * b)
    }
}
impl<'a, const CUT: bool> Product<&'a TF<CUT>> for TF<CUT> {
    fn product<I: Iterator<Item = &'a TF<CUT>>>(i: I) -> TF<CUT> {
        i.fold(TF::<CUT>(1), |a, b| a * *b)
    }
}
impl<const CUT: bool> From<u64> for TF<CUT> {
    fn from(x: u64) -> TF<CUT> {
        TF::<CUT>((x % P as u64) as u8)
    }
}

impl<const CUT: bool> Field for TF<CUT> {
    const ZERO: Self = TF::<CUT>(0);
    const ONE: Self = TF::<CUT>(1);
    fn random(mut rng: impl RngCore) -> Self {
        TF::<CUT>::new((rng.next_u32() % P as u32) as u16)
    }
    fn square(&self) -> Self {
        *self * *self
    }
    fn double(&self) -> Self {
        *self + *self
    }
    fn invert(&self) -> CtOption<Self> {
        cut::<CUT>();
        // x^(p-2), p-2 = 95 = 0b1011111
        let x = *self;
        let mut acc = TF::<CUT>(1);
        let mut i = 7;
        while i > 0 {
            i -= 1;
            acc = acc * acc;
            if (95u8 >> i) & 1 == 1 {
                acc = acc * x;
            }
        }
        CtOption::new(acc, Choice::from((x.0 != 0) as u8))
    }
    fn sqrt_ratio(_: &Self, _: &Self) -> (Choice, Self) {
        unimplemented!()
    }
    /// x^e for e < 2^64 given as limbs; higher limbs must be zero for this toy field's callers
    /// (EvaluationDomain passes [n,0,0,0]); exponent reduced mod 96 first (x^96 = 1 for x != 0).
    fn pow_vartime<S: AsRef<[u64]>>(&self, exp: S) -> Self {
        cut::<CUT>();
        let mut e: u64 = 0; // exponent mod 96; 2^64 mod 96 = 64
        for limb in exp.as_ref().iter().rev() {
            e = (e * 64 + (*limb % 96)) % 96;
        }
        if self.0 == 0 {
            let all_zero = exp.as_ref().iter().all(|l| *l == 0);
            return if all_zero { TF::<CUT>(1) } else { TF::<CUT>(0) };
        }
        let mut acc = TF::<CUT>(1);
        let mut i = 7;
        while i > 0 {
            i -= 1;
            acc = acc * acc;
            if (e >> i) & 1 == 1 {
                acc = acc * *self;
            }
        }
        acc
    }
}

impl<const CUT: bool> PrimeField for TF<CUT> {
    type Repr = [u8; 1];
    fn from_repr(r: [u8; 1]) -> CtOption<Self> {
        CtOption::new(TF::<CUT>(r[0]), Choice::from(((r[0] as u16) < P) as u8))
    }
    fn to_repr(&self) -> [u8; 1] {
        [self.0]
    }
    fn is_odd(&self) -> Choice {
        Choice::from(self.0 & 1)
    }
    const MODULUS: &'static str = "0x61";
    const NUM_BITS: u32 = 7;
    const CAPACITY: u32 = 6;
    const TWO_INV: Self = TF::<CUT>(49);
    const MULTIPLICATIVE_GENERATOR: Self = TF::<CUT>(5);
    const S: u32 = if CUT { 32 } else { 5 };
    const ROOT_OF_UNITY: Self = TF::<CUT>(28);
    const ROOT_OF_UNITY_INV: Self = TF::<CUT>(52);
    const DELTA: Self = TF::<CUT>(35);
}
impl<const CUT: bool> WithSmallOrderMulGroup<3> for TF<CUT> {
    const ZETA: Self = TF::<CUT>(35);
}
impl<const CUT: bool> FromUniformBytes<64> for TF<CUT> {
    fn from_uniform_bytes(b: &[u8; 64]) -> Self {
        TF::<CUT>::new(b[0] as u16)
    }
}
