//! C15: `batch_verify` (zk_stdlib/src/lib.rs) is total on the lengths of its three slices.
//! C03: `verify` pins the number of public inputs.
//!
//! REAL code executed: `midnight_zk_stdlib::batch_verify`, `midnight_zk_stdlib::verify`,
//! `BlstPLONK::verify`, `CircuitTranscript::{init, init_from_bytes, squeeze_challenge, common,
//! assert_empty}`, `DualMSM::clone`, `Guard::verify`.
//! Environment: `prepare` answers Ok(empty guard)/Err nondeterministically (stub), the final pairing
//! check `DualMSM::check` answers true/false nondeterministically (stub), `DualMSM::{scale, add_msm}`
//! are no-ops (rayon; their algebra is engine S's obligation), the transcript hash is an
//! opaque local type. The keys are opaque memory: every use of a key goes through the stubbed
//! `prepare`, except the private field `nb_public_inputs` (0 for the all-zero keys of the batch
//! harnesses, arbitrary for the symbolic key of the `verify` harness).
use crate::vk::{any, assume};
use midnight_proofs::plonk::Error;
use midnight_proofs::poly::kzg::params::ParamsVerifierKZG;
use midnight_proofs::transcript::{Hashable, Sampleable, TranscriptHash};
use midnight_zk_stdlib::MidnightVK;
use std::io::{self, Read};

type F = midnight_curves::Fq;

/// Opaque transcript hash (environment).
#[derive(Clone, Debug)]
pub struct KH;
impl TranscriptHash for KH {
    type Input = ();
    type Output = ();
    fn init() -> Self {
        KH
    }
    fn absorb(&mut self, _: &()) {}
    fn squeeze(&mut self) {}
}
impl Hashable<KH> for F {
    fn to_input(&self) {}
    fn to_bytes(&self) -> Vec<u8> {
        Vec::new()
    }
    fn read(_: &mut impl Read) -> io::Result<Self> {
        Err(io::Error::from(io::ErrorKind::InvalidData))
    }
}
impl Sampleable<KH> for F {
    fn sample(_: ()) -> Self {
        <F as ff::Field>::ONE
    }
}
impl Hashable<KH> for midnight_curves::G1Projective {
    fn to_input(&self) {}
    fn to_bytes(&self) -> Vec<u8> {
        Vec::new()
    }
    fn read(_: &mut impl Read) -> io::Result<Self> {
        Err(io::Error::from(io::ErrorKind::InvalidData))
    }
}

#[repr(C, align(16))]
struct Store<const N: usize>([u8; N]);

/// `n` opaque keys (n <= 2). Symbolic bytes under Kani, zero bytes natively (native replays of the
/// interesting cases use real keys, see scenarios.rs).
fn fake_vks<'a>(store: &'a Store<{ 2 * core::mem::size_of::<MidnightVK>() }>, n: usize) -> &'a [MidnightVK] {
    unsafe { core::slice::from_raw_parts(store.0.as_ptr() as *const MidnightVK, n) }
}
/// The verifier parameters are only ever handed to the stubbed `DualMSM::check`: uninitialised, never
/// read memory (zeroing two prepared G2 points is ~40 kB of array theory for CBMC).
fn fake_params<'a>(store: &'a core::mem::MaybeUninit<ParamsVerifierKZG<midnight_curves::Bls12>>) -> &'a ParamsVerifierKZG<midnight_curves::Bls12> {
    unsafe { &*store.as_ptr() }
}

fn pis_of(a: bool, b: bool) -> [Vec<F>; 2] {
    let one = <F as ff::Field>::ONE;
    [if a { vec![one] } else { vec![] }, if b { vec![one] } else { vec![] }]
}

fn run_batch(nv: usize, np: usize, nf: usize, a: bool, b: bool) -> bool {
    let store = Store([0u8; 2 * core::mem::size_of::<MidnightVK>()]);
    let pstore = core::mem::MaybeUninit::uninit();
    let vks = fake_vks(&store, nv);
    let pis = pis_of(a, b);
    let proofs: [Vec<u8>; 2] = [vec![], vec![]];
    let r = midnight_zk_stdlib::batch_verify::<KH>(fake_params(&pstore), vks, &pis[..np], &proofs[..nf]);
    if nv != np || nv != nf {
        assert!(matches!(r, Err(Error::InvalidInstances)));
    }
    let ok = r.is_ok();
    core::mem::forget(r);
    core::mem::forget(pis);
    core::mem::forget(proofs);
    ok
}

macro_rules! batch_harness {
    ($(#[$doc:meta])* $name:ident, $nv:expr $(, $cover_ok:literal)?) => {
        $(#[$doc])*
        #[cfg_attr(kani, kani::proof)]
        #[cfg_attr(kani, kani::unwind(4))]
        #[cfg_attr(kani, kani::stub(midnight_proofs::plonk::prepare, crate::stubs::prepare_stub))]
        #[cfg_attr(kani, kani::stub(midnight_proofs::poly::kzg::msm::DualMSM::check, crate::stubs::DualStubs::check))]
        #[cfg_attr(kani, kani::stub(midnight_proofs::poly::kzg::msm::DualMSM::scale, crate::stubs::DualStubs::scale))]
        #[cfg_attr(kani, kani::stub(midnight_proofs::poly::kzg::msm::DualMSM::add_msm, crate::stubs::DualStubs::add_msm))]
        pub fn $name() {
            let np: usize = any();
            let nf: usize = any();
            assume(np <= 2 && nf <= 2);
            crate::vcover!(np == $nv && nf == $nv);
            crate::vcover!(np != $nv);
            let _ok = run_batch($nv, np, nf, any(), any());
            $(crate::vcover!(_ok, $cover_ok);)?
        }
    };
}
batch_harness!(
    /// vks.len() = 0, pis.len() and proofs.len() symbolic in {0,1,2}: a Result, never a panic; a length
    /// mismatch is `Err(InvalidInstances)`. Predicted defect F3 (the empty batch).
    batch_verify_no_keys, 0);
batch_harness!(
    /// vks.len() = 1, pis.len() and proofs.len() symbolic in {0,1,2}, public-input vectors of length 0/1
    batch_verify_one_key, 1, "accepted");
batch_harness!(
    /// vks.len() = 2 (thorough tier)
    batch_verify_two_keys, 2, "accepted");

/// Relation whose instance is the raw public-input vector.
#[derive(Clone, Debug)]
pub struct RawRel;
impl midnight_zk_stdlib::Relation for RawRel {
    type Instance = Vec<F>;
    type Witness = ();
    fn format_instance(i: &Vec<F>) -> Result<Vec<F>, Error> {
        Ok(i.clone())
    }
    fn circuit(
        &self,
        _: &midnight_zk_stdlib::ZkStdLib,
        _: &mut impl midnight_proofs::circuit::Layouter<F>,
        _: midnight_proofs::circuit::Value<Vec<F>>,
        _: midnight_proofs::circuit::Value<()>,
    ) -> Result<(), Error> {
        Ok(())
    }
    fn write_relation<W: io::Write>(&self, _: &mut W) -> io::Result<()> {
        Ok(())
    }
    fn read_relation<R: io::Read>(_: &mut R) -> io::Result<Self> {
        Ok(RawRel)
    }
}

/// C03: `verify` accepts at most ONE public-input length per key (the key's `nb_public_inputs`), and
/// answers `InvalidInstances` for the other; the proof-system call behind the guard may answer
/// anything. Two calls on the same (opaque, symbolic) key with lengths la != lb.
#[cfg_attr(kani, kani::proof)]
#[cfg_attr(kani, kani::unwind(5))]
#[cfg_attr(kani, kani::stub(midnight_proofs::plonk::prepare, crate::stubs::prepare_stub))]
#[cfg_attr(kani, kani::stub(midnight_proofs::poly::kzg::msm::DualMSM::check, crate::stubs::DualStubs::check))]
#[cfg_attr(kani, kani::stub(blst::blst_p1_from_affine, crate::stubs::blst_p1_from_affine_stub))]
pub fn verify_pins_public_input_count() {
    let la: usize = any();
    let lb: usize = any();
    assume(la <= 3 && lb <= 3 && la != lb);
    #[cfg(kani)]
    let store = Store(kani::any());
    #[cfg(not(kani))]
    let store = Store([0u8; 2 * core::mem::size_of::<MidnightVK>()]);
    let pstore = core::mem::MaybeUninit::uninit();
    let vk = &fake_vks(&store, 1)[0];
    let one = <F as ff::Field>::ONE;
    let full = vec![one, one, one];
    let ia = full[..la].to_vec();
    let ib = full[..lb].to_vec();
    let proof = [0u8; 0];
    let ra = midnight_zk_stdlib::verify::<RawRel, KH>(fake_params(&pstore), vk, &ia, None, &proof);
    let rb = midnight_zk_stdlib::verify::<RawRel, KH>(fake_params(&pstore), vk, &ib, None, &proof);
    let (ia_err, ib_err) = (matches!(ra, Err(Error::InvalidInstances)), matches!(rb, Err(Error::InvalidInstances)));
    assert!(ia_err || ib_err, "two different public-input lengths both got past the length guard");
    crate::vcover!(ra.is_ok());
    crate::vcover!(ia_err && !ib_err);
    core::mem::forget((ra, rb, ia, ib, full));
}
