//! Thin layer that lets the SAME harness body run (a) under Kani, where `any()` is a symbolic value
//! and `vcover!` is `kani::cover!`, and (b) natively in the replay binary, where `any()` pops the next
//! concrete value of the solver's counterexample (the `concrete_vals` Kani prints with
//! `--concrete-playback=print`, in the order the `kani::any()` calls are executed), a violated
//! `assume` aborts the replay as "not reproduced", and a failing `assert!` is a panic that the
//! replay binary reports as "reproduced".
//!
//! Only primitive integers, `bool` and arrays of those are supported, so that the native queue is
//! consumed exactly as Kani's own playback would consume it (one entry per primitive value,
//! `bool` = one `u8` entry constrained to 0/1).

#[cfg(kani)]
mod imp {
    pub trait Arb: kani::Arbitrary {}
    impl<T: kani::Arbitrary> Arb for T {}
    #[inline(always)]
    pub fn any<T: Arb>() -> T {
        kani::any()
    }
    #[inline(always)]
    pub fn assume(c: bool) {
        kani::assume(c)
    }
}

#[cfg(not(kani))]
mod imp {
    use std::cell::RefCell;
    use std::collections::VecDeque;

    thread_local! {
        pub static QUEUE: RefCell<VecDeque<Vec<u8>>> = RefCell::new(VecDeque::new());
        pub static STATE: RefCell<super::ReplayState> = RefCell::new(super::ReplayState::default());
    }

    fn pop(n: usize) -> Vec<u8> {
        let v = QUEUE.with(|q| q.borrow_mut().pop_front());
        match v {
            Some(v) if v.len() == n => v,
            Some(v) => {
                STATE.with(|s| s.borrow_mut().desync = true);
                let mut w = v;
                w.resize(n, 0);
                w
            }
            None => {
                STATE.with(|s| s.borrow_mut().exhausted = true);
                vec![0; n]
            }
        }
    }

    pub trait Arb: Sized {
        fn arb() -> Self;
    }
    macro_rules! prim {
        ($($t:ty),*) => {$(
            impl Arb for $t {
                fn arb() -> Self {
                    let b = pop(core::mem::size_of::<$t>());
                    let mut a = [0u8; core::mem::size_of::<$t>()];
                    a.copy_from_slice(&b);
                    <$t>::from_le_bytes(a)
                }
            }
        )*};
    }
    prim!(u8, u16, u32, u64, u128, usize, i8, i16, i32, i64, i128, isize);
    impl Arb for bool {
        fn arb() -> Self {
            let b = u8::arb();
            assume(b < 2);
            b == 1
        }
    }
    impl<T: Arb, const N: usize> Arb for [T; N] {
        fn arb() -> Self {
            core::array::from_fn(|_| T::arb())
        }
    }

    pub fn any<T: Arb>() -> T {
        T::arb()
    }

    pub fn assume(c: bool) {
        if !c {
            STATE.with(|s| s.borrow_mut().assume_failed = true);
            // unwinding with a private payload; the replay binary tells it apart from assert panics
            std::panic::panic_any(super::AssumeViolated);
        }
    }
}

pub use imp::{any, assume, Arb};

/// Bookkeeping of one native replay.
#[derive(Default, Clone, Debug)]
pub struct ReplayState {
    pub assume_failed: bool,
    pub exhausted: bool,
    pub desync: bool,
    pub covers_hit: u32,
}

#[derive(Debug)]
pub struct AssumeViolated;

#[cfg(not(kani))]
pub fn load_queue(vals: Vec<Vec<u8>>) {
    imp::QUEUE.with(|q| *q.borrow_mut() = vals.into());
    imp::STATE.with(|s| *s.borrow_mut() = ReplayState::default());
}

#[cfg(not(kani))]
pub fn state() -> (ReplayState, usize) {
    (imp::STATE.with(|s| s.borrow().clone()), imp::QUEUE.with(|q| q.borrow().len()))
}

#[cfg(not(kani))]
pub fn cover_hit() {
    imp::STATE.with(|s| s.borrow_mut().covers_hit += 1);
}

#[cfg(kani)]
#[macro_export]
macro_rules! vcover {
    ($($t:tt)*) => { kani::cover!($($t)*) };
}

#[cfg(not(kani))]
#[macro_export]
macro_rules! vcover {
    ($c:expr) => { if $c { $crate::vk::cover_hit(); } };
    ($c:expr, $m:expr) => { if $c { $crate::vk::cover_hit(); } };
}

/// Integer comparison of two little-endian byte strings (specification side; simple loop).
pub fn lt_le_bytes(a: &[u8], b: &[u8]) -> bool {
    // a < b as little-endian integers of the same length
    let mut lt = false;
    let mut i = 0;
    while i < a.len() {
        if a[i] < b[i] {
            lt = true;
        } else if a[i] > b[i] {
            lt = false;
        }
        i += 1;
    }
    lt
}

/// Integer comparison of little-endian u64 limbs (specification side).
pub fn lt_le_limbs<const N: usize>(a: &[u64; N], b: &[u64; N]) -> bool {
    let mut lt = false;
    let mut i = 0;
    while i < N {
        if a[i] < b[i] {
            lt = true;
        } else if a[i] > b[i] {
            lt = false;
        }
        i += 1;
    }
    lt
}

// ---------------------------------------------------------------------------------------------
// Specification-side multi-limb integer arithmetic (independent of the code under test: plain
// carry chains over u128, no Montgomery tricks, no masks).

/// a + b over N limbs, returns (sum mod 2^(64N), carry-out)
pub fn addn<const N: usize>(a: &[u64; N], b: &[u64; N]) -> ([u64; N], bool) {
    let mut o = [0u64; N];
    let mut c: u128 = 0;
    let mut i = 0;
    while i < N {
        let t = a[i] as u128 + b[i] as u128 + c;
        o[i] = t as u64;
        c = t >> 64;
        i += 1;
    }
    (o, c != 0)
}

/// a - b over N limbs, returns (difference mod 2^(64N), borrow-out)
pub fn subn<const N: usize>(a: &[u64; N], b: &[u64; N]) -> ([u64; N], bool) {
    let mut o = [0u64; N];
    let mut br: u128 = 0;
    let mut i = 0;
    while i < N {
        let t = (a[i] as u128).wrapping_sub(b[i] as u128 + br);
        o[i] = t as u64;
        br = (t >> 64) & 1;
        i += 1;
    }
    (o, br != 0)
}

pub fn is_zero_n<const N: usize>(a: &[u64; N]) -> bool {
    let mut z = true;
    let mut i = 0;
    while i < N {
        if a[i] != 0 {
            z = false;
        }
        i += 1;
    }
    z
}

/// (a + b) mod m for a, b < m
pub fn addmod<const N: usize>(a: &[u64; N], b: &[u64; N], m: &[u64; N]) -> [u64; N] {
    let (s, c) = addn(a, b);
    if c || !lt_le_limbs(&s, m) {
        subn(&s, m).0
    } else {
        s
    }
}

/// (a - b) mod m for a, b < m
pub fn submod<const N: usize>(a: &[u64; N], b: &[u64; N], m: &[u64; N]) -> [u64; N] {
    let (d, br) = subn(a, b);
    if br {
        addn(&d, m).0
    } else {
        d
    }
}

/// (-a) mod m for a < m
pub fn negmod<const N: usize>(a: &[u64; N], m: &[u64; N]) -> [u64; N] {
    if is_zero_n(a) {
        [0; N]
    } else {
        subn(m, a).0
    }
}

/// little-endian bytes -> limbs
pub fn limbs_of_bytes<const N: usize, const NB: usize>(b: &[u8; NB]) -> [u64; N] {
    let mut o = [0u64; N];
    let mut i = 0;
    while i < N {
        let mut v = 0u64;
        let mut j = 0;
        while j < 8 {
            v |= (b[8 * i + j] as u64) << (8 * j);
            j += 1;
        }
        o[i] = v;
        i += 1;
    }
    o
}

/// three-way integer comparison of little-endian byte strings
pub fn cmp_le_bytes(a: &[u8], b: &[u8]) -> core::cmp::Ordering {
    if lt_le_bytes(a, b) {
        core::cmp::Ordering::Less
    } else if lt_le_bytes(b, a) {
        core::cmp::Ordering::Greater
    } else {
        core::cmp::Ordering::Equal
    }
}

/// limb-wise equality (a `==` on arrays is a byte-wise memcmp loop under CBMC: 8x more iterations)
pub fn eqn<const N: usize>(a: &[u64; N], b: &[u64; N]) -> bool {
    let mut e = true;
    let mut i = 0;
    while i < N {
        e &= a[i] == b[i];
        i += 1;
    }
    e
}

/// byte-wise equality with an explicit loop
pub fn eqb<const N: usize>(a: &[u8; N], b: &[u8; N]) -> bool {
    let mut e = true;
    let mut i = 0;
    while i < N {
        e &= a[i] == b[i];
        i += 1;
    }
    e
}
