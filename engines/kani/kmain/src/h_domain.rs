//! C16 (a, continued): the integer prefix of `EvaluationDomain::new(j, k)` (proofs/src/poly/domain.rs),
//! which `VerifyingKey::read_from_cs` calls with `j = cs.degree()` and the header byte `k` after having
//! checked only `k <= F::S`.
//!
//! Under Kani the REAL generic `EvaluationDomain::<F>::new` is instantiated at `CutF`: a field with
//! `S = 32` (as BLS12-381's scalar field) whose every arithmetic operation ends the path, so exactly
//! the code up to the first field operation is explored: `(j - 1)`, `1 << k`, the `extended_k` loop and
//! `assert!(extended_k <= F::S)`. Natively (replay) the same call is made on the real `Fq`.
use crate::vk::{any, assume};
use midnight_proofs::poly::EvaluationDomain;

fn run(j: u32, k: u32) {
    #[cfg(kani)]
    {
        let d = EvaluationDomain::<crate::toyf::CutF>::new(j, k);
        core::mem::forget(d);
    }
    #[cfg(not(kani))]
    {
        // k <= 12 keeps the native run small; the panic (if any) happens before any allocation
        let d = EvaluationDomain::<midnight_curves::Fq>::new(j, k);
        core::mem::forget(d);
    }
}

/// minimal degree any constraint system with a permutation argument has (j = 3): for every header
/// byte k accepted by read_from_cs (k <= S) the prefix does not panic.
#[cfg_attr(kani, kani::proof)]
#[cfg_attr(kani, kani::unwind(36))]
pub fn domain_prefix_min_degree() {
    let k: u8 = any();
    assume(k as u32 <= 32);
    crate::vcover!(k == 32);
    crate::vcover!(k == 0);
    run(3, k as u32);
}

/// all degrees 3..=17
#[cfg_attr(kani, kani::proof)]
#[cfg_attr(kani, kani::unwind(40))]
pub fn domain_prefix_any_degree() {
    let k: u8 = any();
    let j: u8 = any();
    assume(k as u32 <= 32);
    assume(j >= 3 && j <= 17);
    crate::vcover!(j == 17 && k == 20);
    run(j as u32, k as u32);
}
