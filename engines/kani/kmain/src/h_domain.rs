//! C16 (a, continued): the integer prefix of `EvaluationDomain::new(j, k)` (proofs/src/poly/domain.rs),
//! which `VerifyingKey::read_from_cs` calls with `j = cs.degree()` and the header byte `k` after having
//! checked `k <= F::S` and (since fix 3aa0b09) `extended_k_for(j, k) <= F::S`.
//!
//! Assume-guarantee split: h_vk_read.rs proves that the reader calls `EvaluationDomain::new` only
//! inside this precondition (the stand-in for `new` there asserts it through hook H11
//! `verif_extended_k_for`, the real function); the harnesses here prove that under the precondition the
//! integer prefix of the real `new` does not panic.
//!
//! Under Kani the REAL generic `EvaluationDomain::<F>::new` is instantiated at `CutF`: a field with
//! `S = 32` (as BLS12-381's scalar field) whose every arithmetic operation ends the path, so exactly
//! the code up to the first field operation is explored: `(j - 1)`, `1 << k`, the `extended_k` loop and
//! `assert!(extended_k <= F::S)`. Natively (replay) the same call is made on the real `Fq`.
use crate::vk::{any, assume};
use midnight_proofs::poly::EvaluationDomain;

fn run(j: u32, k: u32) {
    #[cfg(kani)]
    {
        let d = EvaluationDomain::<crate::toyf::CutF>::new(j, k);
        core::mem::forget(d);
    }
    #[cfg(not(kani))]
    {
        // k <= 12 keeps the native run small; the panic (if any) happens before any allocation
        let d = EvaluationDomain::<midnight_curves::Fq>::new(j, k);
        core::mem::forget(d);
    }
}

/// the precondition the reader establishes before calling `new` (real code, hook H11)
fn reader_lets_through(j: u32, k: u32) -> bool {
    #[cfg(kani)]
    {
        k <= 32 && EvaluationDomain::<crate::toyf::CutF>::verif_extended_k_for(j, k) <= 32
    }
    #[cfg(not(kani))]
    {
        k <= 32 && EvaluationDomain::<midnight_curves::Fq>::verif_extended_k_for(j, k) <= 32
    }
}

/// minimal degree any constraint system with a permutation argument has (j = 3): for every header
/// byte k accepted by read_from_cs the prefix does not panic.
#[cfg_attr(kani, kani::proof)]
#[cfg_attr(kani, kani::unwind(36))]
pub fn domain_prefix_min_degree() {
    let k: u8 = any();
    assume(k as u32 <= 32);
    assume(reader_lets_through(3, k as u32));
    crate::vcover!(k == 31);
    crate::vcover!(k == 0);
    run(3, k as u32);
}

/// all degrees 3..=17
#[cfg_attr(kani, kani::proof)]
#[cfg_attr(kani, kani::unwind(40))]
pub fn domain_prefix_any_degree() {
    let k: u8 = any();
    let j: u8 = any();
    assume(k as u32 <= 32);
    assume(j >= 3 && j <= 17);
    assume(reader_lets_through(j as u32, k as u32));
    crate::vcover!(j == 17 && k == 20);
    crate::vcover!(j == 17 && k == 28);
    run(j as u32, k as u32);
}
