//! C18 / C16 (e): zkir operations and parsers (zkir/src/instructions/operations/*.rs,
//! zkir/src/parser/offcircuit.rs, zkir/src/instructions/arity.rs), reached through the add-only
//! `verif-hooks` re-export `midnight_zkir::verif_hooks`.
use crate::vk::{any, assume};
use midnight_zkir::verif_hooks as zk;
use midnight_zkir::{Instruction, IrType, IrValue, Operation, ZkirRelation};

type F = midnight_curves::Fq;

#[repr(C, align(16))]
struct Store<const N: usize>([u8; N]);

// ------------------------------------------------------------------------------------------------
// IntoBytes

/// Off-circuit `IrValue::Native(x).into_bytes(n)` for every n: usize: an error value or n bytes, never a
/// panic. (`Fq::to_bytes_le` is a blst call: stubbed to return any 4 limbs.)
#[cfg_attr(kani, kani::proof)]
#[cfg_attr(kani, kani::unwind(34))]
#[cfg_attr(kani, kani::stub(std::fmt::format, crate::stubs::format_stub))]
#[cfg_attr(kani, kani::stub(blst::blst_uint64_from_fr, crate::stubs::blst_uint64_from_fr_stub))]
pub fn into_bytes_offcircuit_native() {
    let n: usize = any();
    crate::vcover!(n == 32);
    crate::vcover!(n > 40);
    let x = <F as ff::Field>::ONE;
    let r = IrValue::Native(x).into_bytes(n);
    match r {
        Ok(IrValue::Bytes(v)) => {
            assert!(v.len() == n);
            core::mem::forget(v);
        }
        Ok(o) => {
            core::mem::forget(o);
            panic!("into_bytes returned a non-Bytes value");
        }
        Err(e) => core::mem::forget(e),
    }
}

/// In-circuit `into_bytes_incircuit(std_lib, layouter, BigUint(big), n)`: the REAL function up to the
/// first field operation after its slice arithmetic. `BigUintGadget::to_le_bytes` (the gadget) is
/// replaced by a stand-in that returns L opaque bytes, L and n symbolic with n >= L (for n < L the
/// function range-checks the tail through trait methods Kani cannot stub). The docs of
/// `Operation::IntoBytes` say "`BigUint` for any `n`". Predicted defect F5.
#[cfg_attr(kani, kani::proof)]
#[cfg_attr(kani, kani::unwind(6))]
#[cfg_attr(kani, kani::stub(std::fmt::format, crate::stubs::format_stub))]
#[cfg_attr(kani, kani::stub(midnight_circuits::biguint::biguint_gadget::BigUintGadget::to_le_bytes, crate::stubs::BigUintStubs::to_le_bytes))]
#[cfg_attr(kani, kani::stub(blst::blst_scalar_fr_check, crate::stubs::blst_cut_scalar_fr_check))]
#[cfg_attr(kani, kani::stub(core::cell::RefCell::borrow_mut, crate::stubs::RefCellCuts::borrow_mut))]
#[cfg_attr(kani, kani::stub(core::cell::RefCell::borrow, crate::stubs::RefCellCuts::borrow))]
pub fn into_bytes_incircuit_biguint() {
    let n: usize = any();
    let l: usize = any();
    assume(l <= 3 && n <= 5 && n >= l);
    crate::vcover!(n == l);
    #[cfg(kani)]
    unsafe {
        crate::stubs::TO_LE_BYTES_LEN = l;
    }
    #[cfg(kani)]
    {
        let store = Store([0u8; core::mem::size_of::<midnight_zk_stdlib::ZkStdLib>()]);
        let std_lib: &midnight_zk_stdlib::ZkStdLib = unsafe { &*(store.0.as_ptr() as *const midnight_zk_stdlib::ZkStdLib) };
        let big: zk::CircuitValue = zk::CircuitValue::BigUint(unsafe { core::mem::MaybeUninit::zeroed().assume_init() });
        let mut layouter = crate::stubs::CutLayouter;
        let r = zk::into_bytes_incircuit(std_lib, &mut layouter, &big, n);
        core::mem::forget(r);
        core::mem::forget(big);
    }
    #[cfg(not(kani))]
    {
        // native: the real thing. The counterexample says "n exceeds the number of bytes the gadget
        // returns by d = n - l"; a BigUint(64) has fewer than 64 bytes whatever the limb layout, so the
        // program `load BigUint(64); into_bytes(64 + d)` (valid per the documentation of IntoBytes:
        // "BigUint for any n") is in the same situation. It is compiled by the real circuit synthesis.
        if n > l && crate::scenarios::zkir_into_bytes_biguint(64, 64 + (n - l)) {
            panic!("into_bytes_incircuit panicked");
        }
    }
}

// ------------------------------------------------------------------------------------------------
// Arity vs. the indices the off-circuit interpreter uses

fn op_of(sel: u8, p: u64) -> Operation {
    use Operation::*;
    match sel {
        0 => Load(IrType::Bool),
        1 => Publish,
        2 => AssertEqual,
        3 => AssertNotEqual,
        4 => IsEqual,
        5 => Add,
        6 => Sub,
        7 => Mul,
        8 => Neg,
        9 => ModExp(p),
        10 => InnerProduct,
        11 => AffineCoordinates,
        12 => IntoBytes(p as usize),
        13 => FromBytes(IrType::Native),
        14 => Poseidon,
        15 => Sha256,
        _ => Sha512,
    }
}

/// n empty names (name resolution is stubbed; empty Strings own no heap memory)
fn names(n: usize) -> Vec<String> {
    let mut v = Vec::with_capacity(4);
    let mut i = 0;
    while i < n {
        v.push(String::new());
        i += 1;
    }
    v
}

fn arity_run(sel: u8) {
    let p: u64 = any();
    let nin: usize = any();
    let nout: usize = any();
    assume(nin <= 4 && nout <= 4 && p <= 40);
    let instr = Instruction { operation: op_of(sel, p), inputs: names(nin), outputs: names(nout) };
    let accepted = ZkirRelation::from_instructions(core::slice::from_ref(&instr)).is_ok();
    crate::vcover!(accepted);
    crate::vcover!(!accepted);
    if accepted {
        let value = IrValue::Bool(true);
        #[cfg(kani)]
        unsafe {
            crate::stubs::HM_VALUE = &value as *const IrValue as *const u8;
        }
        let mut parser = zk::offcircuit::Parser::new(std::collections::HashMap::new());
        let r = parser.process_instruction(&instr);
        core::mem::forget(r);
        core::mem::forget(parser);
    }
    core::mem::forget(instr);
}

/// For one operation and every input/output count in 0..=4: if the arity check performed by
/// `ZkirRelation::from_instructions` accepts the instruction, the off-circuit interpreter's
/// `process_instruction` does not panic on it (its `inps[i]`, `inps[..len/2]`, and the
/// `names.len() == values.len()` assertion of `insert_many`). Every name resolves to the Bool `true`
/// (memory/witness lookups are stubbed), so most operations fail with their typed error after the
/// index expressions have been evaluated. One harness per operation (17).
macro_rules! arity_harness {
    ($name:ident, $sel:expr) => {
        #[cfg_attr(kani, kani::proof)]
        #[cfg_attr(kani, kani::unwind(7))]
        #[cfg_attr(kani, kani::stub(std::fmt::format, crate::stubs::format_stub))]
        #[cfg_attr(kani, kani::stub(std::hash::RandomState::new, crate::stubs::random_state_new_stub))]
        #[cfg_attr(kani, kani::stub(std::collections::HashMap::get, crate::stubs::HmStubs::get))]
        #[cfg_attr(kani, kani::stub(midnight_zkir::verif_hooks::insert, crate::stubs::zkir_insert_stub))]
        pub fn $name() {
            arity_run($sel)
        }
    };
}
arity_harness!(arity_load, 0);
arity_harness!(arity_publish, 1);
arity_harness!(arity_assert_equal, 2);
arity_harness!(arity_assert_not_equal, 3);
arity_harness!(arity_is_equal, 4);
arity_harness!(arity_add, 5);
arity_harness!(arity_sub, 6);
arity_harness!(arity_mul, 7);
arity_harness!(arity_neg, 8);
arity_harness!(arity_mod_exp, 9);
arity_harness!(arity_inner_product, 10);
arity_harness!(arity_affine_coordinates, 11);
arity_harness!(arity_into_bytes, 12);
arity_harness!(arity_from_bytes, 13);
arity_harness!(arity_poseidon, 14);
arity_harness!(arity_sha256, 15);
arity_harness!(arity_sha512, 16);
pub const ARITY_HARNESSES: &[(&str, fn())] = &[
    ("h_zkir::arity_load", arity_load),
    ("h_zkir::arity_publish", arity_publish),
    ("h_zkir::arity_assert_equal", arity_assert_equal),
    ("h_zkir::arity_assert_not_equal", arity_assert_not_equal),
    ("h_zkir::arity_is_equal", arity_is_equal),
    ("h_zkir::arity_add", arity_add),
    ("h_zkir::arity_sub", arity_sub),
    ("h_zkir::arity_mul", arity_mul),
    ("h_zkir::arity_neg", arity_neg),
    ("h_zkir::arity_mod_exp", arity_mod_exp),
    ("h_zkir::arity_inner_product", arity_inner_product),
    ("h_zkir::arity_affine_coordinates", arity_affine_coordinates),
    ("h_zkir::arity_into_bytes", arity_into_bytes),
    ("h_zkir::arity_from_bytes", arity_from_bytes),
    ("h_zkir::arity_poseidon", arity_poseidon),
    ("h_zkir::arity_sha256", arity_sha256),
    ("h_zkir::arity_sha512", arity_sha512),
];
