//! C17 real-public-API scenarios (native only): the situations the h_roundtrip.rs harnesses describe, on a REAL
//! key (BLS12-381, KZG, `midnight_zk_stdlib::setup_vk` of the tiny relation of scenarios.rs).
//! Return value: true = the real API shows the defect, false = it does not.
use midnight_proofs::{poly::kzg::params::ParamsKZG, utils::SerdeFormat};
use midnight_zk_stdlib::MidnightVK;
use rand::SeedableRng;

use crate::scenarios::Tiny;

fn fmt_of(name: &str) -> SerdeFormat {
    match name {
        "processed" | "0" => SerdeFormat::Processed,
        "unchecked" | "2" => SerdeFormat::RawBytesUnchecked,
        _ => SerdeFormat::RawBytes,
    }
}

fn real_key() -> MidnightVK {
    let rng = rand::rngs::StdRng::seed_from_u64(7);
    let relation = Tiny;
    let k = midnight_zk_stdlib::MidnightCircuit::from_relation(&relation).min_k();
    let srs: ParamsKZG<midnight_curves::Bls12> = ParamsKZG::unsafe_setup(k, rng);
    midnight_zk_stdlib::setup_vk(&srs, &relation)
}

/// `VerifyingKey::bytes_length(format)` against the length of `to_bytes(format)` on a real key.
pub fn vk_bytes_length_real(format: &str) -> bool {
    let fmt = fmt_of(format);
    let mvk = real_key();
    let vk = mvk.vk();
    let claimed = vk.bytes_length(fmt);
    let written = vk.to_bytes(fmt).len();
    println!("real key (k = {}): bytes_length({format}) = {claimed}, to_bytes({format}).len() = {written}", mvk.k());
    claimed != written
}

/// write -> read -> write on a real `MidnightVK`: same bytes, same transcript identity, nothing left unread.
pub fn vk_roundtrip_real(format: &str) -> bool {
    let fmt = fmt_of(format);
    let mvk = real_key();
    let mut b1 = vec![];
    mvk.write(&mut b1, fmt).unwrap();
    let mut rd = &b1[..];
    let r = std::panic::catch_unwind(std::panic::AssertUnwindSafe(|| MidnightVK::read(&mut rd, fmt)));
    let back = match r {
        Ok(Ok(v)) => v,
        Ok(Err(e)) => {
            println!("real key: read refuses what write produced ({format}): {e}");
            return true;
        }
        Err(_) => {
            println!("real key: read PANICS on what write produced ({format})");
            return true;
        }
    };
    let mut b2 = vec![];
    back.write(&mut b2, fmt).unwrap();
    let same_bytes = b1 == b2;
    let same_repr = back.vk().transcript_repr() == mvk.vk().transcript_repr();
    println!("real key ({format}, {} bytes): re-written bytes equal = {same_bytes}, transcript_repr equal = {same_repr}, unread bytes = {}", b1.len(), rd.len());
    !(same_bytes && same_repr && rd.is_empty())
}

/// OBSERVATION ONLY (proving keys are outside every K claim): `ProvingKey::bytes_length` against `to_bytes().len()`,
/// and write -> read -> write of a real `MidnightPK`.
pub fn pk_bytes_length_and_roundtrip_real(format: &str) -> bool {
    let fmt = fmt_of(format);
    let rng = rand::rngs::StdRng::seed_from_u64(7);
    let relation = Tiny;
    let k = midnight_zk_stdlib::MidnightCircuit::from_relation(&relation).min_k();
    let srs: ParamsKZG<midnight_curves::Bls12> = ParamsKZG::unsafe_setup(k, rng);
    let vk = midnight_zk_stdlib::setup_vk(&srs, &relation);
    let mpk = midnight_zk_stdlib::setup_pk(&relation, &vk);
    let claimed = mpk.pk().bytes_length(fmt);
    let written = mpk.pk().to_bytes(fmt).len();
    println!("real proving key (k = {}): bytes_length({format}) = {claimed}, to_bytes({format}).len() = {written}", mpk.k());
    let mut b1 = vec![];
    mpk.write(&mut b1, fmt).unwrap();
    let mut rd = &b1[..];
    let same = match midnight_zk_stdlib::MidnightPK::<Tiny>::read(&mut rd, fmt) {
        Ok(back) => {
            let mut b2 = vec![];
            back.write(&mut b2, fmt).unwrap();
            println!("real proving key: re-written bytes equal = {}, unread bytes = {}, vk transcript_repr equal = {}", b1 == b2, rd.len(),
                     back.pk().get_vk().transcript_repr() == mpk.pk().get_vk().transcript_repr());
            b1 == b2 && rd.is_empty()
        }
        Err(e) => {
            println!("real proving key: read refuses what write produced: {e}");
            false
        }
    };
    claimed != written || !same
}
