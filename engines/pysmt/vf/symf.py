"""Driver of engine S (symfield): build + run `sx`, load term DAGs, normalise, emit SMT obligations.

What is decided how (said once, referred to from every part):

* `sx` executes the REAL generic functions of /repo (keygen_vk, prepare, create_proof, best_fft,
  EvaluationDomain, ...) on the term-building field SymF / LinF. The output is a DAG of terms over
  named variables plus the path conditions of that execution.
* A polynomial identity A == B between two terms (one produced by the implementation, one by the
  specification) is decided by normalising BOTH DAGs in Python, with exact arithmetic mod p, to the
  canonical sum-of-monomials form in the ring  F_p[vars][x, W]/(W*(x^n-1) - 1)  (W stands for
  1/(x^n-1); an inverse of a polynomial D(x) that divides (x^n-1)^e is rewritten to
  ((x^n-1)^e / D) * W^e by exact univariate division; the canonical basis is x^b W^a with b < n
  whenever a > 0). Any other inverted term is an opaque atom (a fresh variable per distinct
  normalised argument): sound for proving identities, possibly incomplete.
  The residual, one ground congruence  cA_m - cB_m = 0 (mod p)  per monomial m, is sent to the solver
  portfolio (z3-new || cvc5); `unsat` of "some coefficient differs" = HOLDS. The twin query (vacuity)
  perturbs one coefficient and must be `sat`.
* The normaliser itself is validated on every run by evaluating DAG and normal form at a
  pseudo-random point (translator validation), never used as evidence.
"""
import json, os, subprocess, sys, time, threading, tempfile, hashlib, random
from . import core, solvers
from .core import HOLDS, VIOLATION, INCONCLUSIVE
from .solvers import I

P = 0x73eda753299d7d483339d80809a1d80553bda402fffe5bfeffffffff00000001  # BLS12-381 scalar field

SX_DIR, SX_TARGET = core.crate_dirs("engines/symfield")
SX = os.path.join(SX_TARGET, "debug", "sx")
_build_lock = threading.Lock()
_built = False


def build(run=None):
    """(Re)build `sx` against the current working tree of core.REPO (path deps => cargo recompiles)."""
    global _built
    with _build_lock:
        if _built:
            return
        t = time.time()
        env = dict(os.environ, CARGO_TARGET_DIR=SX_TARGET, CARGO_NET_OFFLINE="true")
        p = subprocess.run(["cargo", "build", "--offline", "--bin", "sx"], cwd=SX_DIR, env=env,
                           capture_output=True, text=True)
        if p.returncode != 0:
            raise RuntimeError("sx build failed:\n" + p.stderr[-3000:])
        _built = True
        if run:
            run.log(f"sx built in {time.time() - t:.1f}s")


class SxError(Exception):
    pass


def sx(scenario, timeout=300, **kw):
    """Run one scenario; kw values: str/int, dict/list (written to a temp json file)."""
    build()
    args, tmp = [SX, scenario], []
    for k, v in kw.items():
        if isinstance(v, (dict, list)) and k in ("shape", "vals"):
            f = tempfile.NamedTemporaryFile("w", suffix=".json", delete=False)
            json.dump(v, f)
            f.close()
            tmp.append(f.name)
            v = f.name
        elif isinstance(v, (list, tuple)):
            v = ",".join(str(x) for x in v)
        args.append(f"{k}={v}")
    try:
        p = subprocess.run(args, capture_output=True, text=True, timeout=timeout)
    finally:
        for f in tmp:
            os.unlink(f)
    if p.returncode != 0:
        raise SxError(f"sx {scenario} {kw}: rc={p.returncode}: {p.stderr[-1500:]}")
    return json.loads(p.stdout)


# ------------------------------------------------------------------ polynomials
# monomial: tuple of (var_index, exponent), sorted by var_index; polynomial: dict monomial -> coeff in [0,P)

def mono_mul(a, b):
    if not a:
        return b
    if not b:
        return a
    out, i, j = [], 0, 0
    while i < len(a) and j < len(b):
        if a[i][0] == b[j][0]:
            out.append((a[i][0], a[i][1] + b[j][1]))
            i += 1
            j += 1
        elif a[i][0] < b[j][0]:
            out.append(a[i])
            i += 1
        else:
            out.append(b[j])
            j += 1
    out.extend(a[i:])
    out.extend(b[j:])
    return tuple(out)


class Ring:
    """F_p[vars][x, W]/(W (x^n - 1) - 1). `xname`/`n` may be None (plain polynomial ring)."""

    def __init__(self, xname=None, n=None):
        self.vars = {}
        self.names = []
        self.xname, self.n = xname, n
        self.X = self.var_index(xname) if xname else None
        self.W = self.var_index("$W") if xname else None
        self._red = {}
        self.atoms = {}          # canonical key of an inverted normal form -> atom var index

    def var_index(self, name):
        if name not in self.vars:
            self.vars[name] = len(self.names)
            self.names.append(name)
        return self.vars[name]

    def const(self, c):
        c %= P
        return {(): c} if c else {}

    def var(self, name):
        return {((self.var_index(name), 1),): 1}

    def add(self, a, b):
        if len(a) < len(b):
            a, b = b, a
        out = dict(a)
        for m, c in b.items():
            v = (out.get(m, 0) + c) % P
            if v:
                out[m] = v
            else:
                out.pop(m, None)
        return out

    def neg(self, a):
        return {m: P - c for m, c in a.items()}

    def scale(self, a, k):
        k %= P
        if k == 0:
            return {}
        return {m: c * k % P for m, c in a.items()}

    def reduce_mono(self, m):
        """x^b W^a with a > 0, b >= n  ->  x^(b-n) W^a + x^(b-n) W^(a-1)   (repeat)."""
        if self.X is None:
            return ((m, 1),)
        r = self._red.get(m)
        if r is not None:
            return r
        a = b = 0
        for v, e in m:
            if v == self.X:
                b = e
            elif v == self.W:
                a = e
        if a == 0 or b < self.n:
            r = ((m, 1),)
        else:
            rest = tuple((v, e) for v, e in m if v != self.X and v != self.W)
            # expand x^b W^a  in the canonical basis
            acc = {(b, a): 1}
            done = {}
            while acc:
                (bb, aa), c = acc.popitem()
                if aa == 0 or bb < self.n:
                    done[(bb, aa)] = (done.get((bb, aa), 0) + c) % P
                else:
                    for key in ((bb - self.n, aa), (bb - self.n, aa - 1)):
                        acc[key] = (acc.get(key, 0) + c) % P
            out = []
            for (bb, aa), c in done.items():
                if c:
                    extra = []
                    if bb:
                        extra.append((self.X, bb))
                    if aa:
                        extra.append((self.W, aa))
                    out.append((tuple(sorted(rest + tuple(extra))), c))
            r = tuple(out)
        self._red[m] = r
        return r

    def mul(self, a, b):
        if not a or not b:
            return {}
        if len(a) < len(b):
            a, b = b, a
        out = {}
        get = out.get
        plain = self.X is None
        for mb, cb in b.items():
            for ma, ca in a.items():
                m = mono_mul(ma, mb)
                c = ca * cb % P
                if plain:
                    out[m] = (get(m, 0) + c)
                else:
                    red = self.reduce_mono(m)
                    if len(red) == 1 and red[0][1] == 1:
                        out[m] = get(m, 0) + c
                    else:
                        for m2, c2 in red:
                            out[m2] = get(m2, 0) + c * c2
        return {m: c % P for m, c in out.items() if c % P}

    # --- inverses
    def univariate_x(self, a):
        """dense coefficient list if `a` is a polynomial in x only, else None"""
        if self.X is None:
            return None
        deg = 0
        for m in a:
            if len(m) > 1 or (len(m) == 1 and m[0][0] != self.X):
                return None
            if m:
                deg = max(deg, m[0][1])
        co = [0] * (deg + 1)
        for m, c in a.items():
            co[m[0][1] if m else 0] = c
        return co

    def inv(self, a):
        if not a:
            raise ZeroDivisionError("inverse of the zero polynomial")
        if len(a) == 1 and () in a:
            return {(): pow(a[()], P - 2, P)}
        d = self.univariate_x(a)
        if d is not None:
            vn = [P - 1] + [0] * (self.n - 1) + [1]   # x^n - 1
            num = [1]
            for e in range(1, 6):
                num = upoly_mul(num, vn)
                q, r = upoly_divmod(num, d)
                if not any(r):
                    out = {}
                    for i, c in enumerate(q):
                        if c:
                            out[((self.X, i),) if i else ()] = c
                    w = {((self.W, e),): 1}
                    return self.mul(out, w)
        key = tuple(sorted(a.items()))
        if key not in self.atoms:
            self.atoms[key] = self.var_index(f"$inv{len(self.atoms)}")
        return {((self.atoms[key], 1),): 1}

    def evaluate(self, a, val):
        """val: var_index -> int"""
        s = 0
        for m, c in a.items():
            t = c
            for v, e in m:
                t = t * pow(val[v], e, P) % P
            s += t
        return s % P

    def show(self, a, limit=6):
        out = []
        for m, c in list(a.items())[:limit]:
            out.append(f"{c if c < P // 2 else -(P - c)}*" + "*".join(f"{self.names[v]}^{e}" for v, e in m))
        return " + ".join(out) + (" + ..." if len(a) > limit else "")


def upoly_mul(a, b):
    out = [0] * (len(a) + len(b) - 1)
    for i, x in enumerate(a):
        if x:
            for j, y in enumerate(b):
                out[i + j] = (out[i + j] + x * y) % P
    return out


def upoly_divmod(a, b):
    a = list(a)
    while b and b[-1] == 0:
        b = b[:-1]
    db = len(b) - 1
    inv = pow(b[-1], P - 2, P)
    q = [0] * max(1, len(a) - db)
    for i in range(len(a) - 1, db - 1, -1):
        c = a[i] * inv % P
        if c:
            q[i - db] = c
            for j in range(db + 1):
                a[i - db + j] = (a[i - db + j] - c * b[j]) % P
    return q, a[:db] if db else [0]


class Dag:
    """Term DAG as dumped by sx (`arena`)."""

    def __init__(self, arena):
        self.nodes = arena["nodes"]
        self.path = arena.get("path", [])
        self.ord_symbolic = arena.get("ord_symbolic", 0)

    def var_name(self, i):
        n = self.nodes[i]
        return n[1] if n[0] == "v" else None

    def const(self, i):
        n = self.nodes[i]
        return int(n[1], 16) if n[0] == "c" else None

    def normal(self, ring, root, memo):
        """canonical form of node `root` in `ring` (iterative post-order, memoised)"""
        stack = [root]
        nodes = self.nodes
        while stack:
            i = stack[-1]
            if i in memo:
                stack.pop()
                continue
            n = nodes[i]
            k = n[0]
            if k == "c":
                memo[i] = ring.const(int(n[1], 16))
            elif k == "v":
                memo[i] = ring.var(n[1])
            else:
                kids = n[1:]
                missing = [c for c in kids if c not in memo]
                if missing:
                    stack.extend(missing)
                    continue
                if k == "a":
                    memo[i] = ring.add(memo[n[1]], memo[n[2]])
                elif k == "m":
                    memo[i] = ring.mul(memo[n[1]], memo[n[2]])
                elif k == "n":
                    memo[i] = ring.neg(memo[n[1]])
                elif k == "i":
                    memo[i] = ring.inv(memo[n[1]])
                else:
                    raise ValueError(k)
            stack.pop()
        return memo[root]

    def evaluate(self, root, env, memo):
        """numeric value of node `root` with env: var name -> int (all arithmetic mod P)"""
        stack = [root]
        nodes = self.nodes
        while stack:
            i = stack[-1]
            if i in memo:
                stack.pop()
                continue
            n = nodes[i]
            k = n[0]
            if k == "c":
                memo[i] = int(n[1], 16)
            elif k == "v":
                memo[i] = env[n[1]] % P
            else:
                missing = [c for c in n[1:] if c not in memo]
                if missing:
                    stack.extend(missing)
                    continue
                if k == "a":
                    memo[i] = (memo[n[1]] + memo[n[2]]) % P
                elif k == "m":
                    memo[i] = memo[n[1]] * memo[n[2]] % P
                elif k == "n":
                    memo[i] = (-memo[n[1]]) % P
                elif k == "i":
                    memo[i] = pow(memo[n[1]], P - 2, P)
            stack.pop()
        return memo[root]

    def support(self, root, memo):
        """set of variable names under `root`"""
        stack = [root]
        nodes = self.nodes
        while stack:
            i = stack[-1]
            if i in memo:
                stack.pop()
                continue
            n = nodes[i]
            if n[0] == "c":
                memo[i] = frozenset()
            elif n[0] == "v":
                memo[i] = frozenset([n[1]])
            else:
                missing = [c for c in n[1:] if c not in memo]
                if missing:
                    stack.extend(missing)
                    continue
                s = frozenset()
                for c in n[1:]:
                    s |= memo[c]
                memo[i] = s
            stack.pop()
        return memo[root]


def default_value(name):
    """the same deterministic default as sx's concrete mode is NOT needed here; values are passed explicitly"""
    h = hashlib.sha256(name.encode()).digest()
    return int.from_bytes(h, "big") % P


# ------------------------------------------------------------------ ground residual to the solver

def residual_smt(pairs):
    """pairs: list of (cA, cB) coefficient pairs (ints in [0,P)). SMT text asserting 'some pair differs mod p'."""
    lines = ["(set-logic ALL)", f"(define-fun p () Int {P})"]
    dis = []
    for k, (a, b) in enumerate(pairs):
        dis.append(f"(not (= (mod (- {I(a)} {I(b)}) p) 0))")
    if not dis:
        lines.append("(assert false)")
    else:
        # chunk the disjunction through boolean definitions to keep lines short
        names = []
        for i in range(0, len(dis), 200):
            nm = f"d{i // 200}"
            lines.append(f"(define-fun {nm} () Bool (or false {' '.join(dis[i:i + 200])}))")
            names.append(nm)
        lines.append(f"(assert (or false {' '.join(names)}))")
    return "\n".join(lines)


def decide_equal(ring, A, B, timeout=60, max_pairs=None):
    """A == B as canonical forms? ground residual to the portfolio.
    returns (status 'unsat'|'sat'|'unknown', solver, seconds, differing monomials (python view), n_pairs, twin_ok)"""
    monos = set(A) | set(B)
    pairs = [(A.get(m, 0), B.get(m, 0)) for m in monos]
    diff = [m for m in monos if A.get(m, 0) != B.get(m, 0)]
    r = solvers.solve(residual_smt(pairs), timeout=timeout)
    # vacuity twin: the same encoding with one coefficient perturbed must be sat
    tw_pairs = list(pairs[:50]) or [(0, 0)]
    tw_pairs[0] = (tw_pairs[0][0], (tw_pairs[0][1] + 1) % P)
    tw = solvers.solve(residual_smt(tw_pairs), timeout=timeout)
    return r.status, r.solver, r.time_s + tw.time_s, diff, len(pairs), tw.status == "sat"


# ------------------------------------------------------------------ shape family (C01/C02/C03)
# atoms: ["a",col,rot] advice, ["f",col,rot] fixed, ["i",col,rot] instance, ["c",idx] challenge, ["k",int]

def _a(c, r=0):
    return ["a", c, r]


BOUNDARY_SHAPES = {
    # degree 3, chunk_len 1: 2 permutation sets; one plain instance column queried at rotation 1
    "min-deg3": dict(shape={"adv": [0, 0, 0], "nfix": 1, "ninst": 1, "chal": [],
                            "gates": [{"sel": "mul", "cons": [{"prods": [[_a(0), _a(1)], [["f", 0, 0]], [["i", 0, 1]]], "out": _a(2, 1)}]}],
                            "eq": [["a", 0], ["a", 2]], "copies": [["eq", 0, 2]]},
                     np=1, nbc=0, lens=[2]),
    # degree 4 gate with rotations -1,0,1; permutation over 5 columns incl. instance and constant column
    # (chunk_len 2 -> 3 sets); two proofs; one committed + one plain instance column
    "deg4-perm3sets-2proofs": dict(shape={"adv": [0, 0, 0], "nfix": 1, "ninst": 2, "chal": [],
                                          "gates": [{"sel": "mul", "cons": [{"prods": [[_a(0, -1), _a(1), _a(0, 1)], [["f", 0, 0]]], "out": _a(2)}]}],
                                          "eq": [["a", 0], ["a", 1], ["a", 2], ["i", 1]], "const_col": True,
                                          "copies": [["eq", 0, 1], ["inst", 2, 1, 0], ["const", 0, 7]]},
                                   np=2, nbc=1, lens=[2, 2]),
    # degree 5 gate (chunk_len 3 -> 1 set of 3 columns), one lookup with two (input, table) pairs (theta)
    "deg5-lookup": dict(shape={"adv": [0, 0, 0], "nfix": 3, "ninst": 1, "chal": [],
                               "gates": [{"sel": "mul", "cons": [{"prods": [[_a(0), _a(1), _a(0, 1), _a(1, -1)]], "out": _a(2)}]}],
                               "lookups": [{"pairs": [[[_a(0)], [["f", 1, 0]]], [[["f", 0, 0], _a(1, 1)], [["f", 2, 0]]]]}],
                               "eq": [["a", 0], ["a", 2], ["i", 0]], "copies": [["inst", 0, 0, 1]]},
                        np=1, nbc=0, lens=[3]),
    # trash argument with two constraints (trash challenge), complex multiplicative selector, two phases with a challenge
    "trash-2phase": dict(shape={"adv": [0, 0, 1, 1], "nfix": 1, "ninst": 1, "chal": [0],
                                "gates": [{"sel": "add", "cons": [{"prods": [[_a(0), _a(1)]], "out": _a(0, 1)},
                                                                  {"prods": [[_a(1), _a(1)], [["f", 0, 0]]], "out": _a(1, 1)}]},
                                          {"sel": "cmul", "cons": [{"prods": [[["c", 0], _a(0)], [["i", 0, -1]]], "out": _a(2)}]}],
                                "eq": [["a", 2], ["a", 3], ["i", 0]], "const_col": True,
                                "copies": [["eq", 2, 3], ["const", 3, 5]]},
                         np=1, nbc=0, lens=[1]),
    # three phases, two challenges, two lookups, two trashcans, two proofs, two committed (one queried at
    # rotation -1 by a gate) + two plain instance columns of lengths 3 and 0
    "full-3phase-2proofs": dict(shape={"adv": [0, 0, 1, 2], "unbl": [1], "nfix": 2, "ninst": 4, "chal": [0, 1],
                                       "gates": [{"sel": "add", "cons": [{"prods": [[_a(0), _a(0)]], "out": _a(1)}]},
                                                 {"sel": "add", "cons": [{"prods": [[_a(1), ["i", 0, -1]]], "out": _a(1, 1)},
                                                                         {"prods": [[_a(0, 1)], [["k", 3]]], "out": _a(0, -1)}]},
                                                 {"sel": "mul", "cons": [{"prods": [[["c", 0], _a(0), _a(1)], [["i", 2, 1]]], "out": _a(2)},
                                                                         {"prods": [[["c", 1], _a(2)], [["c", 0]]], "out": _a(3)}]}],
                                       "lookups": [{"pairs": [[[_a(0)], [["f", 0, 0]]]]},
                                                   {"pairs": [[[_a(2), _a(1)], [["f", 1, 0]]], [[_a(3, -1)], [["f", 0, 1]]]]}],
                                       "eq": [["a", 0], ["a", 3], ["i", 1], ["i", 2], ["f", 1]], "const_col": True,
                                       "copies": [["inst", 0, 2, 0], ["const", 3, 9]]},
                                np=2, nbc=2, lens=[1, 2, 3, 0]),
    # degree 5 (chunk_len 3) with 8 permutation columns (6 advice, a plain instance, the constant column): 3 sets of
    # sizes 3,3,2; committed instance column queried at rotations 1 and -1; two proofs
    "deg5-perm3chunks-2proofs": dict(shape={"adv": [0, 0, 0, 0, 0, 0], "nfix": 1, "ninst": 2, "chal": [],
                                            "gates": [{"sel": "mul", "cons": [{"prods": [[_a(0), _a(1, 1), _a(2, -1), _a(3)], [["i", 0, 1], ["i", 0, -1]]],
                                                                               "out": _a(4)}]},
                                                      {"sel": "cmul", "cons": [{"prods": [[_a(4, 1), _a(5)], [["f", 0, 1]]], "out": _a(5, 1)}]}],
                                            "eq": [["a", 0], ["a", 1], ["a", 2], ["a", 3], ["a", 4], ["a", 5], ["i", 1]], "const_col": True,
                                            "copies": [["eq", 0, 5], ["inst", 3, 1, 0], ["const", 2, 11]]},
                                     np=2, nbc=1, lens=[2, 1]),
    # no permutation argument at all, gate without selector, unblinded advice column
    "noperm-nosel": dict(shape={"adv": [0, 0], "unbl": [1], "nfix": 1, "ninst": 1, "chal": [],
                                "gates": [{"sel": "none", "cons": [{"prods": [[["f", 0, 0], _a(0), _a(0)]], "out": _a(1)}]}],
                                "eq": [], "copies": []},
                         np=1, nbc=1, lens=[2]),
}


def random_shape(rnd, lookups=True, honest=False, max_np=2):
    """A seeded member of the family. honest=True restricts to shapes whose synthesize() yields a
    satisfying witness in every phase (used by the prover runs of C01: lookup-free)."""
    nadv = rnd.randint(2, 4)
    nph = rnd.randint(1, 3)
    adv = sorted(rnd.randint(0, nph - 1) for _ in range(nadv))
    adv[0] = 0
    # phases must be contiguous (the constraint system refuses a phase-2 column without a phase-1 column)
    dense = {ph: i for i, ph in enumerate(sorted(set(adv)))}
    adv = [dense[ph] for ph in adv]
    nph = max(adv) + 1
    chal = sorted(rnd.randint(0, max(0, nph - 2)) for _ in range(rnd.randint(0, 2))) if nph > 1 else []
    nfix = rnd.randint(1, 2)
    ninst = rnd.randint(0, 3)
    gates = []
    ngates = rnd.randint(1, 2)
    for g in range(ngates):
        sel = rnd.choice(["mul", "cmul", "add", "none"])
        cons = []
        used_out = set()
        for _ in range(rnd.randint(1, 2)):
            # out cell: a column/rotation not used as output before; inputs: other cells
            ocol = rnd.randrange(nadv)
            orot = rnd.choice([-1, 0, 1])
            if (ocol, orot) in used_out:
                continue
            used_out.add((ocol, orot))
            ophase = adv[ocol]
            prods = []
            for _ in range(rnd.randint(1, 2)):
                deg = rnd.randint(1, 3 if sel != "none" else 4)
                p = []
                for _ in range(deg):
                    kind = rnd.choice(["a", "a", "a", "f", "i", "c"])
                    if kind == "a":
                        cands = [(c, r) for c in range(nadv) for r in (-1, 0, 1)
                                 if adv[c] <= ophase and (c, r) not in used_out]
                        if not cands:
                            continue
                        c, r = rnd.choice(cands)
                        p.append(["a", c, r])
                    elif kind == "f":
                        p.append(["f", rnd.randrange(nfix), rnd.choice([-1, 0, 1])])
                    elif kind == "i" and ninst:
                        p.append(["i", rnd.randrange(ninst), rnd.choice([-1, 0, 1])])
                    elif kind == "c":
                        ok = [i for i, ph in enumerate(chal) if ph < ophase]
                        if ok:
                            p.append(["c", rnd.choice(ok)])
                if not p:
                    p = [["k", rnd.randint(1, 9)]]
                prods.append(p)
            cons.append({"prods": prods, "out": ["a", ocol, orot]})
        if not cons:
            cons = [{"prods": [[["k", 1]]], "out": ["a", 0, 0]}]
        # inputs must not coincide with outputs of the same gate (honest witness computation order)
        outs = {(c["out"][1], c["out"][2]) for c in cons}
        for c in cons:
            c["prods"] = [[a for a in p if not (a[0] == "a" and (a[1], a[2]) in outs)] or [["k", 2]] for p in c["prods"]]
        gates.append({"sel": sel, "cons": cons})
    eq = []
    for c in range(nadv):
        if rnd.random() < 0.6:
            eq.append(["a", c])
    for c in range(ninst):
        if rnd.random() < 0.5:
            eq.append(["i", c])
    if rnd.random() < 0.3:
        eq.append(["f", rnd.randrange(nfix)])
    rnd.shuffle(eq)
    const_col = rnd.random() < 0.5
    eqa = [e[1] for e in eq if e[0] == "a"]
    copies = []
    if len(eqa) >= 2 and rnd.random() < 0.7:
        c1, c2 = rnd.sample(eqa, 2)
        copies.append(["eq", c1, c2])
    eqi = [e[1] for e in eq if e[0] == "i"]
    lens = [rnd.randint(0, 3) for _ in range(ninst)]
    if eqa and eqi and rnd.random() < 0.7:
        ic = rnd.choice(eqi)
        if lens[ic] == 0:
            lens[ic] = 1
        copies.append(["inst", rnd.choice(eqa), ic, rnd.randrange(lens[ic])])
    if eqa and const_col and rnd.random() < 0.7:
        copies.append(["const", rnd.choice(eqa), rnd.randint(1, 20)])
    lks = []
    if lookups and not honest:
        for _ in range(rnd.randint(0, 2)):
            pairs = []
            for _ in range(rnd.randint(1, 2)):
                inp = [["a", rnd.randrange(nadv), rnd.choice([-1, 0, 1])]]
                if rnd.random() < 0.4:
                    inp.append(["f", rnd.randrange(nfix), 0])
                pairs.append([inp, [["f", rnd.randrange(nfix), rnd.choice([0, 1])]]])
            lks.append({"pairs": pairs})
    shape = {"adv": adv, "unbl": [c for c in range(nadv) if rnd.random() < 0.2], "nfix": nfix, "ninst": ninst,
             "chal": chal, "gates": gates, "lookups": lks, "eq": eq, "const_col": const_col, "copies": copies}
    np_ = rnd.randint(1, max_np)
    nbc = rnd.randint(0, min(2, ninst))
    return dict(shape=shape, np=np_, nbc=nbc, lens=lens)


def run_verifier(member, vals=None):
    """sx verifier on a family member; k = 4, falling back to 5 when the rows do not fit."""
    last = None
    for k in (member.get("k") or 4, 5):
        try:
            kw = dict(shape=member["shape"], k=k, np=member["np"], nbc=member["nbc"], lens=member["lens"] or [0])
            if vals is not None:
                kw["vals"] = vals
            d = sx("verifier", **kw)
            d["_k"] = k
            return d
        except SxError as e:
            last = e
            if "NotEnoughRows" not in str(e) and "not enough rows" not in str(e).lower():
                raise
    raise last


def poly_key(a):
    return tuple(sorted(a.items()))


class VerifierRun:
    """Normal forms of one verifier run: T = expected_h_eval * (x^n - 1), its y-decomposition, the
    specification identities, the guard and the specification queries."""

    def __init__(self, d):
        self.d = d
        self.dag = Dag(d["arena"])
        sp = d["spec"]
        info = sp["info"]
        self.info = info
        self.n = info["n"]
        self.xname = self.dag.var_name(info["x"])
        self.yname = self.dag.var_name(sp["y"])
        self.ring = Ring(self.xname, self.n)
        self.memo = {}
        hq = [q for q in d["guard"] if q["label"] == "custom:vanishing"]
        self.hq = hq[0] if len(hq) == 1 else None
        self.ids = [(cls, t, self.nf(t)) for cls, t in sp["ids"]]

    def nf(self, t):
        return self.dag.normal(self.ring, t, self.memo)

    def T(self):
        H = self.nf(self.hq["eval"])
        return self.ring.mul(H, self.nf(self.info["xn_minus_1"]))

    def by_y(self, T):
        Y = self.ring.var_index(self.yname)
        out = {}
        for m, c in T.items():
            e, rest = 0, []
            for v, ee in m:
                if v == Y:
                    e = ee
                else:
                    rest.append((v, ee))
            out.setdefault(e, {})[tuple(rest)] = c
        return out

    def horner_rhs(self):
        """sum_i y^(m-1-i) id_i  for the specification's list order (halo2 convention)"""
        y = self.ring.var(self.yname)
        acc = {}
        for _, _, nf in self.ids:
            acc = self.ring.add(self.ring.mul(acc, y), nf)
        return acc


# ------------------------------------------------------------------ honest proof vs committed polynomials (C01 e2e)
ROOT_OF_UNITY = 0x16a2a19edfe81f20d09b681922c813b4b63683508c2280b93829971f439f0d2b   # cross-checked against sx consts in C12
S_2ADICITY = 32


class ProverRun:
    """A `sx prover ... nodes=1 coms=1 guard=1` run: the verifier's queries (on the prover's own proof) and the
    vectors the prover committed. spec_eval(q) = value at the query point of the polynomial behind q's
    commitment(s), written from the definition (Lagrange basis l_j(p) = (w^j/n)(p^n-1)/(p-w^j); monomial basis;
    chopped = sum_i piece_i(p) p^((n-1) i))."""

    def __init__(self, d):
        self.d = d
        self.dag = Dag(d["arena"])
        self.k = d["k"]
        self.n = 1 << self.k
        hq = [q for q in d["guard"] if q["label"] == "custom:vanishing"]
        self.hq = hq[0]
        self.concrete = d["arena"].get("concrete", False)
        self.w = pow(ROOT_OF_UNITY, 1 << (S_2ADICITY - self.k), P)
        if not self.concrete:
            self.xname = self.dag.var_name(self.hq["point"])
            self.ring = Ring(self.xname, self.n)
            self.memo = {}

    def nf(self, t):
        return self.dag.normal(self.ring, t, self.memo)

    def spec_eval(self, q):
        ring, n, w = self.ring, self.n, self.w
        p = self.nf(q["point"])
        coms = [self.d["world"]["coms"][h] for h in q["coms"]]
        ninv = pow(n, P - 2, P)
        xn1 = ring.add(ring.const(P - 1), {((ring.X, n),): 1})

        def monomial(vec, pt):
            acc = {}
            for co in reversed(vec):
                acc = ring.add(ring.mul(acc, pt), co)
            return acc

        if q["n"] is None:
            c = coms[0]
            if c[0] != "commit":
                raise ValueError(f"query on a commitment the prover did not make: {c}")
            vec = [self.nf(t) for t in c[2]]
            if c[1] == "coeff":
                return monomial(vec, p)
            acc = {}
            for j, v in enumerate(vec):
                wj = pow(w, j, P)
                lj = ring.mul(ring.scale(xn1, wj * ninv % P), ring.inv(ring.add(p, ring.const(P - wj))))
                acc = ring.add(acc, ring.mul(v, lj))
            return acc
        sf = {(): 1}
        for _ in range(q["n"] - 1):
            sf = ring.mul(sf, p)
        acc = {}
        for c in reversed(coms):
            acc = ring.add(ring.mul(acc, sf), monomial([self.nf(t) for t in c[2]], p))
        return acc

    def spec_eval_concrete(self, q):
        """the same definition on numbers (concrete-mode run)"""
        dag, n, w = self.dag, self.n, self.w
        p = dag.const(q["point"])
        coms = [self.d["world"]["coms"][h] for h in q["coms"]]

        def monomial(vec, pt):
            acc = 0
            for t in reversed(vec):
                acc = (acc * pt + dag.const(t)) % P
            return acc

        if q["n"] is None:
            c = coms[0]
            if c[1] == "coeff":
                return monomial(c[2], p)
            acc = 0
            pn1 = (pow(p, n, P) - 1) % P
            for j, t in enumerate(c[2]):
                wj = pow(w, j, P)
                acc = (acc + dag.const(t) * wj % P * pow(n, P - 2, P) % P * pn1 % P * pow((p - wj) % P, P - 2, P)) % P
            return acc
        sf = pow(p, q["n"] - 1, P)
        acc = 0
        for c in reversed(coms):
            acc = (acc * sf + monomial(c[2], p)) % P
        return acc


# ------------------------------------------------------------------ expression-shape family (C01-c: GraphEvaluator)
# Trees are the JSON lists understood by engines/symfield/src/exprfam.rs:
#   leaves ["a",col,rot] ["f",col,rot] ["i",col,rot] ["c",idx] ["k",n] ["q"]
#   operator overloads ["neg",e] ["add",l,r] ["sub",l,r] ["mul",l,r] ["scale",e,n] ["square",e]
#   hand-built nodes   ["Negated",e] ["Sum",l,r] ["Product",l,r] ["Scaled",e,n]
# A family member is a one-gate circuit with M constraints  wrap(E_j, o_j),  o_j an output cell of its own whose
# honest value is E_j(witness): the constraint holds on the enabled row for ALL values of the free cells.
EF_UNARY = [("neg",), ("scale", 0), ("scale", 1), ("scale", -1), ("scale", 3)]
EF_BINARY = ["add", "sub", "mul"]
EF_RAW = {"neg": "Negated", "add": "Sum", "mul": "Product", "scale": "Scaled"}
EF_WRAPS = ["E-o", "o-E", "no+E", "n(o-E)", "rawE-o"]
EF_NADV = 3           # advice columns a, b, c; output columns follow


def ef_a(c, r=0):
    return ["a", c, r]


def ef_k(n):
    return ["k", n]


def ef_un(op, e):
    return [op[0], e] if len(op) == 1 else [op[0], e, op[1]]


def ef_key(t):
    return json.dumps(t, separators=(",", ":"))


def ef_show(t):
    tag = t[0]
    if tag in ("a", "f", "i"):
        nm = ("abc"[t[1]] if t[1] < 3 else f"a{t[1]}") if tag == "a" else f"{tag}{t[1] if t[1] else ''}"
        return nm + (f"@{t[2]}" if t[2] else "")
    if tag == "k":
        return str(t[1])
    if tag == "c":
        return f"ch{t[1]}"
    if tag == "q":
        return "q"
    if tag == "neg":
        return f"-{ef_show(t[1])}"
    if tag == "square":
        return f"sq({ef_show(t[1])})"
    if tag in ("add", "sub", "mul"):
        return f"({ef_show(t[1])}{dict(add='+', sub='-', mul='*')[tag]}{ef_show(t[2])})"
    if tag == "scale":
        return f"({ef_show(t[1])}*#{t[2]})"
    if tag == "Scaled":
        return f"Scaled[{ef_show(t[1])},{t[2]}]"
    return f"{tag}[{','.join(ef_show(x) for x in t[1:])}]"


def ef_leaves(t, out=None):
    out = [] if out is None else out
    if t[0] in ("a", "f", "i", "c", "k", "q"):
        out.append(t)
    else:
        for x in t[1:]:
            if isinstance(x, list):
                ef_leaves(x, out)
    return out


def ef_depth(t):
    if t[0] in ("a", "f", "i", "c", "k", "q"):
        return 0
    return 1 + max(ef_depth(x) for x in t[1:] if isinstance(x, list))


def ef_map_leaves(t, fn):
    if t[0] in ("a", "f", "i", "c", "k", "q"):
        return fn(t)
    return [t[0]] + [ef_map_leaves(x, fn) if isinstance(x, list) else x for x in t[1:]]


def ef_canon(t):
    """rename the advice columns a,b,c by first occurrence (left to right): the order in which GraphEvaluator meets
    the queries (hence every Intermediate index and every `<=` decision) is invariant under this renaming"""
    ren = {}

    def fn(l):
        if l[0] == "a" and l[1] < EF_NADV:
            if l[1] not in ren:
                ren[l[1]] = len(ren)
            return ["a", ren[l[1]], l[2]]
        return l
    return ef_map_leaves(t, fn)


def ef_dedupe(trees, canon=True):
    seen, out = set(), []
    for t in trees:
        c = ef_canon(t) if canon else t
        k = ef_key(c)
        if k not in seen:
            seen.add(k)
            out.append(c)
    return out


def ef_grow(operands, right=None, raw=True, unary=EF_UNARY, binary=EF_BINARY):
    """one more level: every unary operator on every operand, every binary operator on every ordered pair; with
    raw=True also the hand-built Sum/Product nodes for pairs with a literal constant operand (the only pairs on
    which the overloads rewrite), hand-built Negated/Scaled being identical to -e / e*F"""
    right = operands if right is None else right
    out = []
    for e in operands:
        for op in unary:
            out.append(ef_un(op, e))
    for l in operands:
        for r in right:
            for op in binary:
                out.append([op, l, r])
            if raw and (l[0] == "k" or r[0] == "k"):
                out.append(["Sum", l, r])
                out.append(["Sum", l, ["Negated", r]])
                out.append(["Product", l, r])
    return out


def ef_member(trees, sel="mul", wraps=None, blinded=False, outrot=True):
    """one-gate circuit holding the trees as separate constraints; returns the member dict for sx prover / real"""
    wraps = wraps or ["E-o"] * len(trees)
    leaves = [l for t in trees for l in ef_leaves(t)]
    plus = any(l[0] in ("a", "f", "i") and l[2] == 1 for l in leaves)
    k = 4 if (plus or sel == "add") else 3
    rots = ([0, 1, -1] if k == 4 else [0, -1]) if outrot else [0]
    chal = any(l[0] == "c" for l in leaves)
    ninst = 1 + max([l[1] for l in leaves if l[0] == "i"], default=-1)
    nfix = 1 + max([l[1] for l in leaves if l[0] == "f"], default=0)
    nout = -(-len(trees) // len(rots))
    adv = [0] * EF_NADV + [1 if chal else 0] * nout
    cons = [{"expr": t, "out": ["a", EF_NADV + j // len(rots), rots[j % len(rots)]], "wrap": w}
            for j, (t, w) in enumerate(zip(trees, wraps))]
    # the output columns are always blinded: an output column that is identically zero (E folds to 0, nothing else
    # in the column) would hide a wrong sign of `o` in the prover's numerator
    shape = {"adv": adv, "unbl": [] if blinded else list(range(EF_NADV)), "nfix": nfix, "ninst": ninst,
             "chal": [0] if chal else [], "gates": [{"sel": sel, "cons": cons}], "eq": [], "copies": []}
    # instance rows 0..2 (k=4) / 0..1 (k=3, no rotation +1) are queried on the enabled row 1 and must be supplied
    return dict(shape=shape, k=k, np=1, nbc=0, lens=[3 if k == 4 else 2] * ninst or [0])


def ef_sig(members, procs=4):
    """`sx exprsig` on the members (keygen only), in parallel chunks; list of {"polys","ev"} per member"""
    from concurrent.futures import ThreadPoolExecutor
    if not members:
        return []
    build()
    size = max(1, -(-len(members) // procs))
    chunks = [members[i:i + size] for i in range(0, len(members), size)]

    def one(chunk):
        f = tempfile.NamedTemporaryFile("w", suffix=".json", delete=False)
        json.dump([{"shape": m["shape"], "k": m["k"]} for m in chunk], f)
        f.close()
        try:
            return sx("exprsig", shapes=f.name)["members"]
        finally:
            os.unlink(f.name)
    with ThreadPoolExecutor(max_workers=procs) as ex:
        return [x for part in ex.map(one, chunks) for x in part]


# worker entry point for process pools: a part module is loaded under a synthetic module name, so its functions cannot
# be pickled by reference; the part registers them here before the pool forks and submits `ef_dispatch` instead
EF_WORKERS = {}


def ef_dispatch(name, *args):
    return EF_WORKERS[name](*args)


# ------------------------------------------------------------------ static lookup tables (C02_S table-binding, C02_S2 vk-vs-checker)
# Shape keys understood by engines/symfield/src/shape.rs: "tables", "assign_order", "slookups", "lkcheat" (see its header).
# A static table is a set of `meta.lookup_table_column()` columns filled through `layouter.assign_table`; the keygen side
# (plonk/keygen.rs Assembly::assign_fixed + fill_from_row) and the checker side (dev/mod.rs) pad it separately.

def _st(tables, slookups, nadv, gates=None, assign_order=None):
    shape = {"adv": [0] * nadv, "nfix": 1, "ninst": 0, "chal": [], "gates": gates or [], "eq": [], "copies": [],
             "tables": tables, "slookups": slookups}
    if assign_order:
        shape["assign_order"] = assign_order
    return dict(shape=shape, np=1, nbc=0, lens=[])


STATIC_SHAPES = {
    # {1,2,3}, input an advice cell behind a complex selector (the C02-c demo circuit): q*a + (1-q)*1
    "st-123-mux-adv": _st([{"rows": [[1], [2], [3]]}], [{"table": 0, "sel": "mux", "rows": 3, "inputs": [[[_a(0)]]]}], 1),
    # {1,2,3}, no selector, input the linear expression a0 + 2*a1 on every usable row
    "st-123-none-lin": _st([{"rows": [[1], [2], [3]]}], [{"table": 0, "sel": "none", "inputs": [[[_a(0)], [["k", 2], _a(1)]]]}], 2),
    # {(1,5),(2,6)}: two table columns (theta compression), selector, second input a1 + 3*a2
    "st-pairs-mux-lin": _st([{"rows": [[1, 5], [2, 6]]}],
                            [{"table": 0, "sel": "mux", "rows": 2, "inputs": [[[_a(0)]], [[_a(1)], [["k", 3], _a(2)]]]}], 3),
    # {(1,5),(2,6)}, no selector, two advice cells
    "st-pairs-none-adv": _st([{"rows": [[1, 5], [2, 6]]}], [{"table": 0, "sel": "none", "inputs": [[[_a(0)]], [[_a(1)]]]}], 2),
    # CONTROL: the table contains the zero tuple (as the real chips' tables do); q*a with a complex selector
    "st-zero-mul-ctl": _st([{"rows": [[0], [1], [2]]}], [{"table": 0, "sel": "mul", "rows": 2, "inputs": [[[_a(0)]]]}], 1),
    # CONTROL, two columns, no selector: {(0,0),(1,5)}
    "st-zero-pairs-none-ctl": _st([{"rows": [[0, 0], [1, 5]]}], [{"table": 0, "sel": "none", "inputs": [[[_a(0)]], [[_a(1)]]]}], 2),
    # a table of length 1
    "st-len1-mux": _st([{"rows": [[7]]}], [{"table": 0, "sel": "mux", "rows": 1, "inputs": [[[_a(0)]]]}], 1),
    # a table filling all usable rows but one (exactly one padding row), input a0 + a1
    "st-fullbut1-mux": _st([{"ncols": 1, "len_from_usable": -1}], [{"table": 0, "sel": "mux", "rows": 2, "inputs": [[[_a(0)], [_a(1)]]]}], 2),
    # two tables declared (1 column, 2 columns), assigned in the opposite order, two lookups, plus an ordinary gate with a
    # complex selector of its own (selector indices 0,1,2: a mixed-up selector replacement shows)
    "st-two-tables": _st([{"rows": [[1], [2], [3]]}, {"rows": [[1, 5], [2, 6]]}],
                         [{"table": 1, "sel": "mux", "rows": 1, "inputs": [[[_a(0)]], [[_a(1)]]]},
                          {"table": 0, "sel": "mux", "rows": 2, "inputs": [[[_a(2)], [["k", 2], _a(0)]]]}], 5,
                         gates=[{"sel": "cmul", "cons": [{"prods": [[_a(3), _a(3)]], "out": _a(4)}]}], assign_order=[1, 0]),
}


def random_static_shape(rnd):
    """A seeded static-table member: 1-2 table columns, 1..6 distinct rows, zero tuple first with probability 0.3,
    selector form mux / none (mul only for zero-first tables), inputs a_j or a_j + c*a_extra."""
    ncols = rnd.randint(1, 2)
    length = rnd.randint(1, 6)
    rows = []
    while len(rows) < length:
        r = [rnd.randint(1, 30) for _ in range(ncols)]
        if r not in rows:
            rows.append(r)
    zero_first = rnd.random() < 0.3
    if zero_first:
        rows[0] = [0] * ncols
    sel = rnd.choice(["mux", "none", "mul"] if zero_first else ["mux", "none"])
    inputs, nadv = [], ncols
    for j in range(ncols):
        inp = [[_a(j)]]
        if rnd.random() < 0.5:
            inp.append([["k", rnd.randint(2, 5)], _a(nadv)])
            nadv += 1
        inputs.append(inp)
    lk = {"table": 0, "sel": sel, "inputs": inputs}
    if sel != "none":
        lk["rows"] = rnd.randint(1, 3)
    return _st([{"rows": rows}], [lk], nadv)


def static_members():
    members = dict(STATIC_SHAPES)
    rnd = random.Random(2000 + core.seed())
    for i in range(2 if core.tier() == "quick" else 24):
        members[f"st-seeded{i}"] = random_static_shape(rnd)
    return members


def static_table_fixed_index(shape, t, j):
    """index of the fixed column behind column j of static table t: the table columns are allocated after the shape's
    own fixed columns and the constant column, tables in declared order"""
    base = shape.get("nfix", 0) + (1 if shape.get("const_col") else 0)
    for tt in shape["tables"][:t]:
        base += tt.get("ncols") or len(tt["rows"][0])
    return base + j


def static_expected_column(rows, j, n, usable):
    """the declared table column: the rows, then the first row's value up to the last usable row, 0 on the rest"""
    return [rows[i][j] if i < len(rows) else (rows[0][j] if i < usable else 0) for i in range(n)]


def static_cheat_tuple(rows):
    """a tuple that is NOT a row of the declared table: the zero tuple, or (max+1, ..) when the table contains it"""
    nc = len(rows[0])
    if [0] * nc not in rows:
        return [0] * nc
    return [max(max(r) for r in rows) + 1] * nc


def static_real(member, lookup=None, tup=None):
    """the shape on the real stack (Fq, KZG, Blake2b, MockProver); optionally lookup `lookup` looks `tup` up on its first
    enabled row. returns (mock_accepts, real_accepts, text). A proof the real prover cannot produce counts as rejected."""
    shape = dict(member["shape"])
    if lookup is not None:
        shape["lkcheat"] = [lookup, [str(int(v)) for v in tup]]
    rd = sx("real", shape=shape, k=member.get("k") or 4, np=1, nbc=0, lens=member["lens"] or [0])
    mock_ok = all(x == "Ok(())" for x in rd.get("mock_prover", []))
    real_ok = rd.get("accepted") is True
    txt = (f"MockProver {rd.get('mock_prover', ['?'])[0][:110]} ; real prover+verifier: "
           f"{rd.get('verdict') or ('no proof: ' + str(rd.get('create_proof_error')))}")
    return mock_ok, real_ok, txt


def static_tuple_replay(member, tables_vk, tables_ref, ref_name):
    """tables_*: per static lookup index the list of tuples on the usable rows (vk side / reference side). A tuple in
    exactly one of them is looked up on the real stack: reproduced iff MockProver (or the declaration) and the real
    verifier disagree on it. returns 1 / 0 / None (no tuple difference)."""
    tried = False
    for li, (tv, tr) in enumerate(zip(tables_vk, tables_ref)):
        sv, sr = {tuple(t) for t in tv}, {tuple(t) for t in tr}
        for tup in sorted(sv - sr)[:2]:
            tried = True
            mock_ok, real_ok, txt = static_real(member, li, tup)
            print(f"static lookup {li}: tuple {tup} is a row of the vk's table but not of {ref_name}'s; witness looking it up: {txt}")
            if real_ok and not mock_ok:
                return 1
        for tup in sorted(sr - sv)[:2]:
            tried = True
            mock_ok, real_ok, txt = static_real(member, li, tup)
            print(f"static lookup {li}: tuple {tup} is a row of {ref_name}'s table but not of the vk's; witness looking it up: {txt}")
            if mock_ok and not real_ok:
                return 1
    return 0 if tried else None
