"""Specification helpers for big unsigned integers held as limbs in base 2^LOG2_BASE (BigUintGadget; used by
specs/parts/C05_B.py and specs/parts/C18_B.py).

The value of a limb vector is val(l) = sum_i base^i * l_i. Specifications are integer arithmetic on val.
Products val(x)*val(y) are expanded by distributivity over the limb products x_i*y_j, which are exact
integers (both limbs range-checked) and are THE SAME atoms in the gates and in the specification
(`Enc.fmul` caches products by operand pair), so additions, subtractions, multiplications, comparisons
and divisions with an exposed quotient stay linear.

Modular exponentiation has hidden quotients. Its specification is the closed form `out = (x^n) mod m`
(SMT `mod`); the proof needs, per modular multiplication, the quotient and remainder cells the gadget
assigned. They are located heuristically in the extracted system (cells multiplied with the limbs of the
modulus / of later operands, matched against the honest run) and ONLY used inside hint formulas that are
instances of lemmas proved valid by the solvers first (`e.side`), with all their premises kept inside
the formula. A wrong guess can therefore only make an obligation INCONCLUSIVE, never HOLDS; the
specification itself never mentions a hidden cell, so a counterexample is a counterexample of
`out = x^n mod m`."""
import re
from .cspec import *
from . import csmt


LB_DEFAULT = None     # set by a caller whose extracted family does not record the limb size (zkir programs)


def LB(e):
    v = e.extra.get("log2_base") if isinstance(e.extra, dict) else None
    if v is None:
        v = LB_DEFAULT
    if v is None:
        raise NotImplementedError("limb size of the BigUint gadget unknown")
    return int(v)


def val(e, limbs, lb=None):
    """SMT integer term of sum base^i limb_i"""
    lb = lb or LB(e)
    return e.named_sum([(1 << (lb * i), l) for i, l in enumerate(limbs)])


def within(e, limbs, nb, lb=None):
    """the limbs respect the bounds a normalised integer of nb bits carries: every limb below the base, the
    most significant one below 2^((nb - 1) mod LOG2_BASE + 1)"""
    lb = lb or LB(e)
    n = len(limbs)
    if n == 0:
        return "true"
    assert n == -(-nb // lb), (n, nb)
    top = (nb - 1) % lb + 1
    return AND(*[lt(l, 1 << (lb if i < n - 1 else top)) for i, l in enumerate(limbs)])


def exact_prod(e, a, b):
    """atom of the exact integer product of two range-checked cells (shared with the gates)"""
    if isinstance(a, int) and isinstance(b, int):
        return a * b
    t = e.fmul(a, b)
    if isinstance(t, int):
        raise NotImplementedError("product with a constant limb")
    if e.ub.get(t, e.P) >= e.P:
        raise NotImplementedError(f"limb product {a}*{b} is not statically exact (operand not range-checked)")
    return t


def prodsum_terms(e, xs, ys, lb=None):
    lb = lb or LB(e)
    terms, const = {}, 0
    for i, a in enumerate(xs):
        for j, b in enumerate(ys):
            w = 1 << (lb * (i + j))
            if isinstance(a, int) and isinstance(b, int):
                const += w * a * b
            elif isinstance(a, int) or isinstance(b, int):
                k, v = (a, b) if isinstance(a, int) else (b, a)
                terms[v] = terms.get(v, 0) + w * k
            else:
                t = exact_prod(e, a, b)
                terms[t] = terms.get(t, 0) + w
    return [(c, t) for t, c in terms.items()], const


def prodsum(e, xs, ys, lb=None):
    """val(xs) * val(ys), expanded by distributivity over the exact limb products (shared atoms)"""
    terms, const = prodsum_terms(e, xs, ys, lb)
    s = e.named_sum(terms) if terms else "0"
    return s if not const else f"(+ {s} {const})"


def named(e, term):
    """a variable equal to an integer SMT term (definitional), cached per term text"""
    if not hasattr(e, "_cbig_named"):
        e._cbig_named = {}
    if term not in e._cbig_named:
        v = e.fresh("N")
        e.lines.append(f"(assert (= {v} {term}))")
        e._cbig_named[term] = v
    return e._cbig_named[term]


def nval(e, limbs, lb=None):
    return named(e, val(e, limbs, lb))


# ------------------------------------------------------------------------------------------------
# locating hidden big integers of the extracted system (heuristic; only ever used inside proved hints)
# ------------------------------------------------------------------------------------------------

def _atom_info(e):
    """atom -> (first row, column) of its advice cells, and atom -> honest value"""
    if hasattr(e, "_cbig_info"):
        return e._cbig_info
    pos = {}
    inv = {n: c for c, n in e.vars.items()}
    for cell in list(e.s.uf.p):
        m_ = re.match(r"a(\d+)_(\d+)$", cell)
        if not m_:
            continue
        cls = e.s.cls(cell)
        n = e.vars.get(cls)
        if n is None:
            continue
        key = (int(m_.group(2)), int(m_.group(1)))
        if n not in pos or key < pos[n]:
            pos[n] = key
    hon = e.s.honest_assign()
    hv = {n: hon.get(c, 0) for c, n in e.vars.items()}
    e._cbig_info = (pos, hv, inv)
    return e._cbig_info


def partners(e):
    """atom -> set of atoms it is multiplied with (exact products only)"""
    out = {}
    for (a, b), t in e.prods.items():
        if e.ub.get(t, e.P) >= e.P or e.ub.get(a, e.P) <= 2 or e.ub.get(b, e.P) <= 2:
            continue        # field products (inverse hints) and products with a bit (comparison gadgets)
        out.setdefault(a, set()).add(b)
        out.setdefault(b, set()).add(a)
    return out


def windows(e, cands, values, lb=None):
    """split the (row-ordered) candidate atoms into consecutive windows whose honest limb values represent
    `values` (in order); trailing zero limbs are attached to the window they follow. Returns list of atom
    lists, or None."""
    lb = lb or LB(e)
    pos, hv, _ = _atom_info(e)

    def rec(i, k):
        if k == len(values):
            return [] if all(hv[c] == 0 for c in cands[i:]) else None
        acc = 0
        for j in range(i, len(cands)):
            acc += hv[cands[j]] << (lb * (j - i))
            if acc == values[k]:
                # extend through zeros as far as the rest still matches
                jj = j + 1
                while jj < len(cands) and hv[cands[jj]] == 0:
                    jj += 1
                for end in range(jj, j, -1):
                    rest = rec(end, k + 1)
                    if rest is not None:
                        return [cands[i:end]] + rest
                return None
            if acc > values[k]:
                break
        return None
    return rec(0, 0)


# ------------------------------------------------------------------------------------------------
# hints (instances of side lemmas proved valid first)
# ------------------------------------------------------------------------------------------------

def hint_product_identity(e, xs, ys, lb=None):
    """PS(xs, ys) = V(xs) * V(ys) for named values V: the polynomial identity
    sum_ij B^(i+j) (x_i*y_j) = (sum_i B^i x_i)(sum_j B^j y_j), proved once per shape as a side lemma and
    instantiated with the defining equations of the product atoms as premises. Returns (PS, Vx, Vy)."""
    lb = lb or LB(e)
    B = 1 << lb
    nx, ny = len(xs), len(ys)
    sq = list(xs) == list(ys)
    if not hasattr(e, "_cbig_pid"):
        e._cbig_pid = set()
    key = (nx, ny, sq)
    if key not in e._cbig_pid:
        e._cbig_pid.add(key)
        d = []
        for i in range(nx):
            d.append(f"(declare-const x{i} Int)")
        yn = [f"x{j}" for j in range(nx)] if sq else [f"y{j}" for j in range(ny)]
        if not sq:
            for j in range(ny):
                d.append(f"(declare-const y{j} Int)")
        d += ["(declare-const Vx Int)", "(declare-const Vy Int)", "(declare-const PS Int)"]
        d.append("(assert (= Vx (+ 0 " + " ".join(f"(* {B ** i} x{i})" for i in range(nx)) + ")))")
        d.append("(assert (= Vy (+ 0 " + " ".join(f"(* {B ** j} {yn[j]})" for j in range(ny)) + ")))")
        d.append("(assert (= PS (+ 0 " + " ".join(f"(* {B ** (i + j)} (* x{i} {yn[j]}))" for i in range(nx) for j in range(ny)) + ")))")
        e.side.append((f"product-identity-{nx}x{ny}{'sq' if sq else ''}", d, "(= PS (* Vx Vy))"))
    Vx, Vy = nval(e, xs, lb), nval(e, ys, lb)
    terms, const = prodsum_terms(e, xs, ys, lb)
    PS = named(e, prodsum(e, xs, ys, lb))
    defs = []
    for a in xs:
        for b in ys:
            if isinstance(a, int) or isinstance(b, int):
                continue
            t = exact_prod(e, a, b)
            defs.append(f"(= {t} (* {a} {b}))")
    prem = AND(*sorted(set(defs))) if defs else "true"
    e.lines.append(f"(assert (=> {prem} (= {PS} (* {A(Vx)} {A(Vy)}))))")
    return PS, Vx, Vy


def modexp_plan(n):
    """the chain of modular multiplications computing x^n: list of (lhs, rhs) with operands 'x' or the
    index of an earlier step, and for every step the exponent of x it represents. Left-to-right over the
    binary expansion is NOT assumed: this is the generic square-and-multiply schedule (squarings of a
    running power, multiplications into an accumulator); it only guides where hidden cells are looked for."""
    steps, expo = [], []
    tmp, tmp_e = "x", 1
    res, res_e = None, 0
    k = n
    while k > 0:
        if k & 1:
            if res is None:
                res, res_e = tmp, tmp_e
            else:
                steps.append((res, tmp))
                expo.append(res_e + tmp_e)
                res, res_e = len(steps) - 1, res_e + tmp_e
        k >>= 1
        if k > 0:
            steps.append((tmp, tmp))
            expo.append(2 * tmp_e)
            tmp, tmp_e = len(steps) - 1, 2 * tmp_e
    return steps, expo, res


def S_mod_exp(n, get_operands, claim="value"):
    """modular exponentiation by the constant n >= 0. get_operands(e, I, O) -> (x_limbs, nbx, m_limbs, nbm,
    z_limbs, nbz).
      claim "value":  operands and result within their bounds, and  m > 0  =>  out = x^n mod m
      claim "dom":    m > 0   (x^n mod 0 is undefined: a zero modulus must be unsatisfiable)"""
    def spec(e, I, O):
        xl, nbx, ml, nbm, zl, nbz = get_operands(e, I, O)
        dom = AND(within(e, xl, nbx), within(e, ml, nbm), within(e, zl, nbz))
        Mv, Rv = nval(e, ml), nval(e, zl)
        if claim == "dom":
            return lt(0, Mv)
        Xv = nval(e, xl)
        Xn = "1" if n == 0 else (Xv if n == 1 else "(* " + " ".join([Xv] * n) + ")")
        goal = AND(dom, IMP(lt(0, Mv), eq(Rv, f"(mod {Xn} {Mv})")))
        if not any(isinstance(a, int) for a in list(xl) + list(ml) + list(zl)):
            try:
                if n >= 2:
                    _modexp_hints(e, n, xl, ml, zl, Xv, Mv, Rv, Xn)
                else:
                    _single_division_hint(e, n, xl, ml, zl, Mv, Rv, Xn)
            except Exception as ex:  # hints are optional: without them the obligation is simply harder
                e.lines.append(f"; mod_exp hints not generated: {ex!r}"[:300].replace("\n", " "))
        return goal
    return spec


def _euclid_lemma(e):
    if not getattr(e, "_cbig_l2", False):
        e._cbig_l2 = True
        e.side.append(("euclid-uniqueness", ["(declare-const A Int)", "(declare-const K Int)", "(declare-const M Int)", "(declare-const r Int)"],
                       "(=> (and (= A (+ (* K M) r)) (<= 0 r) (< r M)) (= r (mod A M)))"))


def _single_division_hint(e, n, xl, ml, zl, Mv, Rv, An):
    """n in {0, 1}: when the implementation reduces 1 resp. x modulo m by one division, the quotient cells
    are the ones multiplied with every limb of m; `out = A mod m` then follows from A = q*m + out, out < m."""
    lb = LB(e)
    pos, hv, _ = _atom_info(e)
    X = sum(hv[a] << (lb * i) for i, a in enumerate(xl))
    M = sum(hv[a] << (lb * i) for i, a in enumerate(ml))
    if M == 0:
        return
    A = 1 if n == 0 else X
    io = set(list(xl) + list(ml) + list(zl))
    pt = partners(e)
    qc = sorted([a for a in pt if a not in io and all(m_ in pt[a] for m_ in ml)], key=lambda a: pos.get(a, (1 << 30, 0)))
    if not qc:
        return
    qw = windows(e, qc, [A // M])
    if qw is None:
        raise RuntimeError("quotient cells not located")
    PSqm, Vq, Vm = hint_product_identity(e, qw[0], list(ml))
    _euclid_lemma(e)
    e.lines.append(f"(assert (=> (and (= {An} (+ (* {A_(Vq)} {Mv}) {Rv})) (<= 0 {Rv}) (< {Rv} {Mv})) (= {Rv} (mod {An} {Mv}))))")


def A_(x):
    return str(x) if isinstance(x, int) else x


def _modexp_hints(e, n, xl, ml, zl, Xv, Mv, Rv, Xn):
    lb = LB(e)
    B = 1 << lb
    pos, hv, _ = _atom_info(e)
    steps, expo, res = modexp_plan(n)
    if not steps or res != len(steps) - 1:
        return
    X = sum(hv[a] << (lb * i) for i, a in enumerate(xl))
    M = sum(hv[a] << (lb * i) for i, a in enumerate(ml))
    if M == 0:
        return
    # honest quotients / remainders of the schedule (for locating cells only)
    Tv, Qv = [], []
    for a, b in steps:
        va = X if a == "x" else Tv[a]
        vb = X if b == "x" else Tv[b]
        Qv.append(va * vb // M)
        Tv.append(va * vb % M)
    io = set(a for a in list(xl) + list(ml) + list(zl))
    pt = partners(e)
    order = lambda atoms: sorted(atoms, key=lambda a: pos.get(a, (1 << 30, 0)))
    qc = order([a for a in pt if a not in io and all(m_ in pt[a] for m_ in ml)])
    qw = windows(e, qc, Qv)
    if qw is None:
        raise RuntimeError("quotient cells not located")
    tc = order([a for a in pt if a not in io and a not in set(qc)])
    tw = windows(e, tc, Tv[:-1]) if len(steps) > 1 else []
    if tw is None:
        raise RuntimeError("intermediate remainder cells not located")
    tl = list(tw) + [list(zl)]
    # per step: PS(a,b) = Va*Vb, PS(q,m) = Q*M  (product identities), named values
    names = []
    for s, (a, b) in enumerate(steps):
        al = list(xl) if a == "x" else tl[a]
        bl = list(xl) if b == "x" else tl[b]
        PSab, Va, Vb = hint_product_identity(e, al, bl)
        PSqm, Vq, Vm = hint_product_identity(e, qw[s], list(ml))
        Vt = nval(e, tl[s])
        names.append((Va, Vb, Vq, Vt))
    # lifted identity: (and_s Va*Vb = Vq*M + Vt) => X^n = K*M + R   with K built by the recurrence
    #   K_s = Q_s + K_a X^(e_b) + K_b X^(e_a) - K_a K_b M      (K_x = 0, e_x = 1)
    def build(sym):
        Xs, Ms = sym["X"], sym["M"]
        pw = lambda k: Xs if k == 1 else "(* " + " ".join([Xs] * k) + ")"
        K = []
        for s, (a, b) in enumerate(steps):
            Ka = "0" if a == "x" else K[a]
            Kb = "0" if b == "x" else K[b]
            ea = 1 if a == "x" else expo[a]
            eb = 1 if b == "x" else expo[b]
            K.append(f"(+ {sym['Q'][s]} (* {Ka} {pw(eb)}) (* {Kb} {pw(ea)}) (- (* {Ka} {Kb} {Ms})))")
        eqs = []
        for s, (a, b) in enumerate(steps):
            Va = Xs if a == "x" else sym["T"][a]
            Vb = Xs if b == "x" else sym["T"][b]
            eqs.append(f"(= (* {Va} {Vb}) (+ (* {sym['Q'][s]} {Ms}) {sym['T'][s]}))")
        return eqs, K[-1], pw(n)
    gsym = dict(X="X", M="M", Q=[f"Q{s}" for s in range(len(steps))], T=[f"T{s}" for s in range(len(steps))])
    geqs, gK, gXn = build(gsym)
    decls = ["(declare-const X Int)", "(declare-const M Int)"] + [f"(declare-const Q{s} Int)" for s in range(len(steps))] + \
            [f"(declare-const T{s} Int)" for s in range(len(steps))]
    e.side.append((f"modexp-lifted-identity-n{n}", decls, f"(=> (and {' '.join(geqs)}) (= {gXn} (+ (* {gK} M) T{len(steps) - 1})))"))
    _euclid_lemma(e)
    msym = dict(X=Xv, M=Mv, Q=[nm[2] for nm in names], T=[nm[3] for nm in names])
    meqs, mK, mXn = build(msym)
    # composition of the two proved lemmas (lifted identity, then uniqueness of Euclidean division with A = X^n, K)
    e.lines.append(f"(assert (=> (and {' '.join(meqs)} (<= 0 {Rv}) (< {Rv} {Mv})) (= {Rv} (mod {Xn} {Mv}))))")


# ------------------------------------------------------------------------------------------------
# entries whose extraction panics inside the repository's code
# ------------------------------------------------------------------------------------------------

def split_panicking(run, family, ents):
    """cengine.run_family reports a panic of the real synthesis as VIOLATION `:honest-panics` but then also
    registers a keygen-comparison obligation that cannot be decided (it needs the same extraction). Entries
    flagged `maypanic` (degenerate shapes) are therefore extracted once up front:
      * a panic inside /repo code  -> VIOLATION obligation here (same id / key / replay payload as run_family
        would produce), entry left out;
      * the library refuses the shape with an error (synthesis returns Err, no circuit) -> ground obligation
        HOLDS "refused with an error" (a clean refusal is an acceptable treatment of a degenerate shape; what
        is not acceptable is a panic or a silently wrong bound), entry left out;
      * otherwise the entry is returned unchanged and decided as usual."""
    import json, os, re as _re, subprocess
    from . import core, cengine
    keep = []
    only = getattr(run, "only", None)
    for ent in ents:
        if not ent.get("maypanic"):
            keep.append(ent)
            continue
        oid = f"{family}/{ent['op']}[{cengine.pstr(ent['params'])}]"
        if only and only not in oid:
            keep.append(ent)
            continue
        args = cengine.cx_args(family, ent["op"], ent["params"], ent["ins"], ent["k"])
        p = subprocess.run([cengine.CX] + args, capture_output=True, text=True)
        refused = None
        if p.returncode == 0:
            try:
                d = json.loads(p.stdout)
                if d.get("no_circuit"):
                    refused = str(d.get("extra", {}).get("synth_err") or d.get("extra", {}).get("offcircuit_err"))
            except Exception:
                pass
            if refused is None:
                keep.append(ent)
                continue
        mk = lambda key: core.Ob(oid, "C", ent.get("what") or f"constraints emitted by {ent['op']} imply its specification for every assignment",
                                 functions=ent.get("functions") or [f"{family}::{ent['op']}"], bound=f"k={ent['k']} params={cengine.pstr(ent['params'])}", key=key)
        m_ = _re.search(r"panicked at ([^\s:]+):(\d+)", p.stderr)
        if p.returncode != 0 and m_ and os.path.abspath(m_.group(1)).startswith(os.path.abspath(core.REPO) + "/"):
            ob = mk(f"{family}/{ent['op']}:honest-panics")
            run.add(ob)
            path = run.write_replay(ob, dict(kind="honest-panics", cx=args))
            ob.set(core.VIOLATION, "the real synthesis/witness generation panics on admissible inputs: " + p.stderr[p.stderr.find("panicked at"):][:400], replay=path)
        elif refused is not None or (p.returncode != 0 and "Synthesis(" in p.stderr):
            ob = mk(f"{family}/{ent['op']}")
            run.add(ob)
            ob.nontrivial = False
            msg = refused or p.stderr[p.stderr.find("Synthesis("):][:200]
            ob.set(core.HOLDS, f"degenerate shape refused by the library with an error (no panic, no circuit): {msg[:200]}")
        else:
            ob = mk(f"{family}/{ent['op']}")
            run.add(ob)
            ob.set(core.INCONCLUSIVE, f"extraction failed: {p.stderr[-400:]}")
        run.log(f"{ob.status:12s} {oid} {ob.detail[:200]}")
    return keep
