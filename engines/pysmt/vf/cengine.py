"""Driver of engine C: extract -> validate -> encode -> decide -> (exact re-check, refine) -> replay."""
import os
import json, os, subprocess, time, threading, tempfile
from . import core, solvers, csmt
from .core import HOLDS, VIOLATION, INCONCLUSIVE
from .solvers import I

CX_DIR, CX_TARGET = core.crate_dirs("engines/extract")
CX = os.path.join(CX_TARGET, "debug", "cx")
_build_lock = threading.Lock()
_built = False


def build(run=None):
    """(Re)build the extractor against /repo's current working tree (path dependencies => cargo
    recompiles whatever changed)."""
    global _built
    with _build_lock:
        if _built:
            return
        t = time.time()
        env = dict(os.environ, CARGO_TARGET_DIR=CX_TARGET, CARGO_NET_OFFLINE="true")
        lock = os.path.join(CX_DIR, "Cargo.lock")
        p = subprocess.run(["cargo", "build", "--offline", "--bin", "cx"], cwd=CX_DIR, env=env,
                           capture_output=True, text=True)
        if p.returncode != 0:
            raise RuntimeError("extractor build failed:\n" + p.stderr[-3000:])
        _built = True
        if run:
            run.log(f"extractor built in {time.time() - t:.1f}s")


def cx_args(family, op, params, ins, k):
    a = [family, f"op={op}"] + ([f"k={k}"] if k else [])
    if ins:
        a.append("in=" + ":".join(hex(x) for x in ins))
    for kk, vv in params.items():
        if isinstance(vv, (list, tuple)):
            vv = ":".join(hex(x) if isinstance(x, int) else str(x) for x in vv)
        elif isinstance(vv, bool):
            vv = "1" if vv else "0"
        elif vv is None:
            vv = "none"
        elif isinstance(vv, int) and vv > 10 ** 6:
            vv = hex(vv)
        a.append(f"p.{kk}={vv}")
    return a


class ExtractError(Exception):
    pass


class ExtractPanic(ExtractError):
    """the real synthesis / witness generation panicked inside the repository's code"""
    pass


def extract(family, op, params, ins, k=10, P=csmt.P_BLS, keygen=False):
    build()
    p = subprocess.run([CX] + cx_args(family, op, params, ins, k) + (["keygen=1"] if keygen else []), capture_output=True, text=True)
    if p.returncode != 0:
        err = p.stderr[-1500:]
        import re as _re
        m_ = _re.search(r"panicked at ([^\s:]+):(\d+)", p.stderr)
        if m_ and os.path.abspath(m_.group(1)).startswith(os.path.abspath(core.REPO) + "/"):
            raise ExtractPanic(f"{family}/{op} {params} in={ins}: {p.stderr[p.stderr.find('panicked at'):][:400]}")
        raise ExtractError(f"cx failed for {family}/{op} {params} in={ins}: {err}")
    return csmt.System(json.loads(p.stdout), P)


def replay(family, op, params, ins, k, overrides):
    with tempfile.NamedTemporaryFile("w", suffix=".json", delete=False) as f:
        json.dump(overrides, f)
        path = f.name
    try:
        p = subprocess.run([CX] + cx_args(family, op, params, ins, k) + [f"replay={path}"],
                           capture_output=True, text=True)
        if p.returncode != 0:
            return None, p.stderr[-800:]
        return json.loads(p.stdout), ""
    finally:
        os.unlink(path)


def overrides_from_model(system, enc, model):
    """cell -> hex for every advice/instance cell whose class has a value in the model."""
    byclass = {}
    for cls, name in enc.vars.items():
        if name in model:
            byclass[cls] = model[name]
    ov = {}
    cells = set(system.honest) | set(system.uf.p)
    for cell in cells:
        if cell[0] not in "ai":
            continue
        r = system.cls(cell)
        if r in byclass:
            ov[cell] = hex(byclass[r] % system.P)
    return ov


def decide(run, ob, family, op, params, ins, spec, k=10, timeout=60, drop=(), monomial_mode=False, P=csmt.P_BLS,
           variants=(), ff=False):
    """Decide `forall assignment. Sys => Spec` for one extracted operation.

    spec(e, I, O) -> SMT Bool string. I, O: atoms (smt names or python ints) of the input / output
    instance cells in call order.
    variants: [(suffix, pred(e, I, O) -> SMT Bool)] — named classes of counterexamples. A replayed
    violation falling in class `suffix` gets key `<key>:<suffix>`; if that key is a listed known finding
    the class is excluded from the query and the search continues, so that any OTHER violation of the
    same operation is still reported."""
    t0 = time.time()
    ob.functions = ob.functions or [f"{family}::{op}"]
    try:
        system = extract(family, op, params, ins, k, P)
    except ExtractPanic as ex:
        ob.key = ob.key + ":honest-panics"
        path = run.write_replay(ob, dict(kind="honest-panics", cx=cx_args(family, op, params, ins, k)))
        return ob.set(VIOLATION, f"the real synthesis/witness generation panics on admissible inputs: {ex}", replay=path)
    except ExtractError as ex:
        return ob.set(INCONCLUSIVE, f"extraction failed: {ex}")
    d = system.d
    # ---- translator validation on the honest point (exact arithmetic) ----
    try:
        honest = system.honest_assign()
    except AssertionError as ex:
        return ob.set(INCONCLUSIVE, f"honest run inconsistent: {ex}")
    bad = system.check_exact(honest)
    if d["honest_verify"] and bad:
        return ob.set(INCONCLUSIVE, f"extractor/encoder disagree with MockProver on the honest run: {bad[:3]}")
    if not d["honest_verify"]:
        # the real chip rejects its own honest witness on an admissible input: completeness failure
        ob.key = ob.key + ":honest-rejected"
        path = run.write_replay(ob, dict(kind="honest-rejected", cx=cx_args(family, op, params, ins, k)))
        return ob.set(VIOLATION, f"real MockProver rejects the honest witness of {op} {params} on admissible inputs {ins}", replay=path)
    e = csmt.Enc(system, drop=drop)
    e.extra = d.get("extra", {})
    chain_note = ""
    try:
        if ff:
            from . import ffchain
            groups = ffchain.group_ff_gates(d["gates"])
            gkeys = set(groups)
            e.skip_gate = lambda g: (g["gate"].rsplit(":", 1)[0], g["row"]) in gkeys
            e.opaque_products = True
            e.extra = d.get("extra", {})
        e.encode(monomial_mode)
        if ff:
            try:
                recs = ffchain.run_chain(e, ob, d["extra"], timeout=timeout)
                ob.sample_chain = recs[:8]
                e.chain_records = recs
                # the raw modular rows of the groups (implied by nothing the hypotheses say about the
                # private quotient cells): kept aside; used when searching for forged assignments so that
                # models respect them, not needed for the unsat direction
                n0 = len(e.lines)
                for g in e.skipped:
                    e.constraint(g["poly"], True)
                e.raw_ff_lines = e.lines[n0:]
                del e.lines[n0:]
            except ffchain.ChainFail as cf:
                # the chained argument does not go through: fall back to the raw modular rows and look
                # for a forged assignment directly (a sat answer is replayed; anything else is inconclusive)
                chain_note = f"foreign-field chain failed: {cf}"
                for g in e.skipped:
                    e.constraint(g["poly"], True)
        Iat = [e.v(c) for c in system.ins]
        Oat = [e.v(c) for c in system.outs]
        spec_smt = spec(e, Iat, Oat)
        e.assoc_lemmas()
    except NotImplementedError as ex:
        return ob.set(INCONCLUSIVE, f"untranslatable: {ex}")
    # ---- side obligations: lemmas the spec hands to the main query must be valid ----
    if e.side:
        t_side = time.time()
        # each side obligation is a closed formula with its own declarations: prove validity (negation unsat)
        for (nm, decls, body) in e.side:
            qs = "\n".join(["(set-logic ALL)"] + list(decls) + [f"(assert (not {body}))"])
            rs = solvers.solve(qs, timeout=timeout)
            ob.queries += 1
            ob.solver_s += rs.time_s
            if rs.status != "unsat":
                return ob.set(INCONCLUSIVE, f"a lemma supplied by the specification is not valid / not proved ({nm}): {rs.status}")
    names = sorted(set(e.vars.values()))
    ob.sample = dict(op=op, params={k_: str(v)[:40] for k_, v in params.items()}, vars=len(names),
                     gates=len(d["gates"]), lookups=sum(len(l["inputs"]) for l in d["lookups"]))
    # ---- vacuity / encoder validation twin: the honest assignment satisfies the encoded system ----
    hon_assign = {n: honest.get(c, 0) for c, n in e.vars.items()}
    hon_exact = e.exact_atoms(hon_assign)
    pins = [f"(assert (= {n} {v}))" for n, v in hon_exact.items()]
    r = solvers.solve(e.text(pins + [f"(assert {spec_smt})"]), timeout=timeout)
    ob.queries += 1
    ob.solver_s += r.time_s
    if r.status == "unsat" and d["honest_verify"] and spec_smt.strip() != "false":     # ("false": a part hands over its own verdict)
        # the honest run is accepted by the real checker, satisfies every extracted row exactly (checked above),
        # and the solver says its (inputs, outputs) contradict the specification: is it the system or the spec
        # pins that are inconsistent? decide the system alone at the honest point first.
        r0 = solvers.solve(e.text(pins), timeout=timeout)
        ob.queries += 1
        if r0.status == "sat":
            io = {c: hex(honest.get(system.cls(c), system.const.get(system.cls(c), 0))) for c in system.ins + system.outs}
            ob.key = ob.key + ":honest-output-violates-spec"
            path = run.write_replay(ob, dict(kind="honest-output", cx=cx_args(family, op, params, ins, k), instance=io))
            return ob.set(VIOLATION, f"{op} {pstr(params)}: the honest run of the real chip on inputs {ins} is accepted with instance {io}, which violates the specification", solver=r.solver, replay=path)
    if r.status != "sat":
        return ob.set(INCONCLUSIVE, f"vacuity twin (honest assignment satisfies encoding and spec) came back {r.status}: {r.raw[:200]}")
    ob.vacuity = True
    # ---- main query with refinement ----
    extra = [f"(assert (not {spec_smt}))"]
    known = core.load_known()
    base_key = ob.key
    known_hits, known_replay = [], None
    # Bug-finding pre-pass: with the INPUT instance cells (and every product of pinned cells) fixed to
    # their honest values the search for a forged output/witness is a much smaller problem; a model found
    # here goes through the same exact re-check and replay as any other. unsat/unknown here decides
    # nothing: the unrestricted query below is the one whose unsat means HOLDS.
    in_names = {a for a in Iat if not isinstance(a, int)}
    seed_pins = []
    if in_names:
        pinned_vals = {a: hon_exact[a] for a in in_names if a in hon_exact}
        for it in e.order:
            if it[0] == "mul" and all(isinstance(x, int) or x in pinned_vals for x in (it[2], it[3])):
                pinned_vals[it[1]] = hon_exact[it[1]]
        seed_pins = [f"(assert (= {n} {v}))" for n, v in pinned_vals.items()]
    # Second family of seeded searches (under-constrained selector / flag cells): inputs pinned as above and
    # ONE witness cell whose honest value is a bit pinned to the opposite bit. With that cell constant the
    # products it occurs in are linear, so a forged output is found at once when the cell is not bound
    # (e.g. a constant witnessed with assign_advice instead of copied from a fixed cell). Budgeted: at most
    # 8 cells, short time-outs; like the first pre-pass it can only FIND violations, never decide HOLDS.
    seed_queue = [(seed_pins, max(10, timeout // 3))] if seed_pins else []
    if seed_pins:
        io_names = in_names | {a for a in Oat if not isinstance(a, int)}
        cands = sorted(n for n in e.vars.values() if n not in io_names and hon_exact.get(n) in (0, 1))
        name2cls = {nm: c for c, nm in e.vars.items()}
        if cands:
            rot = core.seed() % len(cands)
            cands = cands[rot:] + cands[:rot]
        for n in cands[:8]:
            # everything keeps its honest value except: the flipped cell, the cells sharing a gate row with
            # it (they must be able to follow the flip) and the outputs
            ncls = name2cls[n]
            free = set()
            for g in system.d["gates"]:
                cs_ = {system.cls(c) for _, cells in g["poly"] for c in cells}
                if ncls in cs_:
                    free |= cs_
            free_names = {e.vars[c] for c in free if c in e.vars} - in_names
            free_names |= {a for a in Oat if not isinstance(a, int)}
            pv = {a: hon_exact[a] for a in e.vars.values() if a in hon_exact and a not in free_names}
            pv[n] = 1 - hon_exact[n]
            for it in e.order:   # products of pinned cells are constants (computed exactly, not taken from the honest run)
                if it[0] == "mul" and all(isinstance(x, int) or x in pv for x in (it[2], it[3])):
                    va, vb = (x if isinstance(x, int) else pv[x] for x in (it[2], it[3]))
                    pv[it[1]] = va * vb % P
            fl = [f"(assert (= {a} {v}))" for a, v in pv.items()]
            seed_queue.insert(len(seed_queue) - 1, (fl, 6))    # cheap near-ground queries first, the plain seeded query last
    phase = "seeded" if seed_queue else "full"
    flip_budget = 16.0
    rnd = -1
    while rnd < 8:
        rnd += 1
        atoms = names + [it[1] for it in e.order]
        if phase == "seeded":
            pins_now, tmo_now = seed_queue[0]
            r = solvers.solve(e.text(extra + pins_now + getattr(e, "raw_ff_lines", [])), timeout=tmo_now, get_values=atoms)
            ob.queries += 1
            ob.solver_s += r.time_s
            if pins_now is not seed_pins:
                flip_budget -= r.time_s
            if os.environ.get("VERIF_DEBUG"):
                run.log(f"  dbg {ob.id} seeded variant ({len(pins_now)} pins, flip={pins_now is not seed_pins}) -> {r.status} {r.time_s:.1f}s rnd={rnd}")
            if r.status != "sat":
                seed_queue.pop(0)
                if not seed_queue or flip_budget <= 0:
                    phase = "full"
                rnd = -1
                continue
        else:
            r = solvers.solve(e.text(extra), timeout=timeout, get_values=atoms)
            ob.queries += 1
            ob.solver_s += r.time_s
        if r.status == "unsat":
            if known_hits:
                # everything outside the listed known-finding classes holds
                ob.key = f"{base_key}:{known_hits[0]}"
                return ob.set(core.KNOWN, f"only the listed known finding(s) {known_hits} violate the specification; all other assignments hold", solver=r.solver, replay=known_replay)
            if chain_note:
                return ob.set(INCONCLUSIVE, chain_note + " (and no forged assignment was found)")
            return ob.set(HOLDS, solver=r.solver)
        if r.status != "sat":
            return ob.set(INCONCLUSIVE, f"solver: {r.status} {r.raw[:200]} {r.per_solver} {chain_note}")
        model = r.model
        assign = {n: model.get(n, 0) % P for n in names}
        assign = e.repair_model(assign)
        for n_ in names:
            model[n_] = assign[n_]
        cls_assign = {c: assign[n] for c, n in e.vars.items()}
        for c in system.used_classes():
            cls_assign.setdefault(c, honest.get(c, 0))
        exact = e.exact_atoms(assign)
        bad = system.check_exact(cls_assign)
        wrong = [it for it in e.order if it[0] == "mul" and model.get(it[1]) is not None and model[it[1]] != exact[it[1]]]
        wrong_mm = [it for it in e.order if it[0] == "mm" and not isinstance(it[3], int) and model.get(it[1]) is not None and model[it[1]] != exact[it[1]]]
        if not bad:
            # all real constraints hold exactly: is the spec really violated? ground re-check by the solver
            pins = [f"(assert (= {n} {v}))" for n, v in exact.items()]
            r2 = solvers.solve(e.text(pins + extra), timeout=timeout)
            ob.queries += 1
            if r2.status == "sat":
                ov = overrides_from_model(system, e, model)
                res, err = replay(family, op, params, ins, k, ov)
                iv = {c: hex(cls_assign.get(system.cls(c), system.const.get(system.cls(c), 0))) for c in system.ins + system.outs}
                if res and res.get("accepted"):
                    cls_suffix = None
                    for suffix, pred in variants:
                        r3 = solvers.solve(e.text(pins + [f"(assert {pred(e, Iat, Oat)})"]), timeout=timeout)
                        ob.queries += 1
                        if r3.status == "sat":
                            cls_suffix = suffix
                            break
                    if cls_suffix and (run.pid, f"{base_key}:{cls_suffix}") in known:
                        # listed known finding: record it, exclude its class, keep searching
                        known_hits.append(cls_suffix)
                        path = run.write_replay(ob, dict(kind="forged-assignment", cx=cx_args(family, op, params, ins, k),
                                                         overrides=ov, instance=iv, key=f"{base_key}:{cls_suffix}"))
                        known_replay = path
                        pred_smt = [p for sfx, p in variants if sfx == cls_suffix][0](e, Iat, Oat)
                        extra.append(f"(assert (not {pred_smt}))")
                        continue
                    if cls_suffix:
                        ob.key = f"{base_key}:{cls_suffix}"
                    path = run.write_replay(ob, dict(kind="forged-assignment", cx=cx_args(family, op, params, ins, k),
                                                     overrides=ov, instance=iv,
                                                     note="real MockProver::verify() accepts this assignment although the (inputs, outputs) on the instance column violate the operation's specification"))
                    return ob.set(VIOLATION, f"{op} {params}: the real MockProver accepts instance {iv} which violates the specification", solver=r.solver, replay=path)
                return ob.set(INCONCLUSIVE, f"exact counterexample did not replay on MockProver: {res} {err}")
            if r2.status != "unsat":
                return ob.set(INCONCLUSIVE, f"ground re-check: {r2.status}")
        if not wrong and bad and getattr(e, "raw_ff_lines", None):
            # spurious with respect to the dropped raw foreign-field rows: add them and search again
            e.lines += e.raw_ff_lines
            e.raw_ff_lines = []
            continue
        if not wrong and bad:
            return ob.set(INCONCLUSIVE, f"model violates real constraints {bad[:2]} but no abstract product is wrong (encoder bug?)")
        # refine: pin wrong products linearly in each operand
        for _, t, a, b in wrong[:40]:
            va, vb = exact[a] if not isinstance(a, int) else a, exact[b] if not isinstance(b, int) else b
            q1 = e.fresh("q", 0, P)
            e.lines.append(f"(assert (=> (= {a} {va}) (= {t} (- (* {va} {b}) (* {P} {q1})))))")
            if a != b:
                q2 = e.fresh("q", 0, P)
                e.lines.append(f"(assert (=> (= {b} {vb}) (= {t} (- (* {vb} {a}) (* {P} {q2})))))")
    return ob.set(INCONCLUSIVE, "refinement rounds exhausted")


def keygen_structure(run, ob, system, family, op, params, ins, k, timeout=60):
    """The verifying key's permutation (decoded from the sigma polynomials the REAL keygen_vk commits to)
    induces the same partition of cells as MockProver's copy constraints, and the fixed columns the key
    commits to are MockProver's. Two EUF queries (each side's edges entail the other's) + a ground
    comparison of the fixed columns."""
    d = system.d
    kv = d.get("keygen")
    if not isinstance(kv, dict) or "sigma_edges" not in kv:
        return ob.set(INCONCLUSIVE, f"no keygen view: {kv}")
    cells = set()
    for a, b in d["copies"] + kv["sigma_edges"]:
        cells.add(a)
        cells.add(b)
    if kv.get("undecodable"):
        return ob.set(VIOLATION, f"{kv['undecodable']} entries of the key's sigma polynomials are not of the form delta^j * omega^i",
                      replay=run.write_replay(ob, dict(kind="keygen-structure", cx=cx_args(family, op, params, ins, k))))
    decl = ["(set-logic ALL)", "(declare-sort Cell 0)"] + [f"(declare-const c_{c} Cell)" for c in sorted(cells)]
    E = lambda edges: [f"(= c_{a} c_{b})" for a, b in edges]
    verdicts = []
    q = list(decl)
    for hyp, goal in ((d["copies"], kv["sigma_edges"]), (kv["sigma_edges"], d["copies"])):
        q.append("(push 1)")
        q += [f"(assert {x})" for x in E(hyp)]
        q.append("(assert (not (and true " + " ".join(E(goal)) + ")))")
        q.append("(check-sat)")
        q.append("(pop 1)")
    t0 = time.time()
    try:
        pz = subprocess.run(["z3-new", "-in", f"-T:{int(timeout)}"], input="\n".join(q), capture_output=True, text=True, timeout=timeout + 5)
        outl = [l.strip() for l in pz.stdout.split("\n") if l.strip()]
    except subprocess.TimeoutExpired:
        outl = []
    ob.queries += 2
    ob.solver_s += time.time() - t0
    ob.solver = "z3-new"
    verdicts = [(l if l in ("sat", "unsat") else "unknown") for l in outl[:2]] + ["unknown"] * (2 - len(outl[:2]))
    if any("(error" in l for l in outl):
        verdicts = ["unknown", "unknown"]
    # vacuity twin: an edge between two different classes must be refutable
    # fixed columns (ground)
    P = system.P
    mock_fixed = {}
    for cell, v in d["fixed"].items():
        mock_fixed[cell] = int(v, 16)
    bad_fixed = []
    for j, col in enumerate(kv["fixed"]):
        for r_, hv in enumerate(col):
            v = int(hv, 16)
            if v != mock_fixed.get(f"f{j}_{r_}", 0):
                bad_fixed.append((j, r_))
                if len(bad_fixed) > 3:
                    break
    if any(v == "unknown" for v in verdicts):
        return ob.set(INCONCLUSIVE, f"EUF partition queries: {verdicts}")
    if verdicts != ["unsat", "unsat"] or bad_fixed:
        # find a concrete lost / extra tie for the message
        uf_m, uf_k = csmt.UF(), csmt.UF()
        for a, b in d["copies"]:
            uf_m.union(a, b)
        for a, b in kv["sigma_edges"]:
            uf_k.union(a, b)
        lost = [(a, b) for a, b in d["copies"] if uf_k.find(a) != uf_k.find(b)][:3]
        extra = [(a, b) for a, b in kv["sigma_edges"] if uf_m.find(a) != uf_m.find(b)][:3]
        path = run.write_replay(ob, dict(kind="keygen-structure", cx=cx_args(family, op, params, ins, k), lost=lost, extra=extra, fixed_mismatch=bad_fixed))
        return ob.set(VIOLATION, f"the verifying key and the development-time checker disagree on the circuit: copy constraints lost by the key {lost}, extra {extra}, fixed cells differing {bad_fixed}", replay=path)
    ob.vacuity = True
    return ob.set(HOLDS)


class _SpecOnly:
    """Minimal stand-in for csmt.Enc with no constraint system: lets a specification be evaluated on
    CONCRETE inputs (python ints) and symbolic outputs, to ask the solver whether the inputs are in the
    operation's domain (exists an output satisfying the specification)."""

    def __init__(self, P, extra=None):
        self.P = P
        self.lines = []
        self.nq = 0
        self.ub = {}
        self.side = []
        self.extra = extra or {}
        self.order = []
        self._enc = None

    def fresh(self, pfx, lo=None, hi=None):
        self.nq += 1
        n = f"{pfx}{self.nq}"
        self.lines.append(f"(declare-const {n} Int)")
        if lo is not None:
            self.lines.append(f"(assert (and (<= {I(lo)} {n}) (<= {n} {I(hi)})))")
        return n

    def bound(self, a):
        return a + 1 if isinstance(a, int) else self.ub.get(a, self.P)

    def set_bound(self, a, B):
        pass

    def radix_hint(self, x, bits):
        return False

    def signed(self, a):
        if isinstance(a, int):
            return I(csmt.sym(a, self.P))
        return f"(ite (< {a} {self.P // 2 + 1}) {a} (- {a} {self.P}))"

    def lin_smt(self, terms, const):
        return csmt.Enc.lin_smt(self, terms, const)

    def modeq(self, terms, const, as_bool=False):
        q = self.fresh("q")
        f = f"(= {self.lin_smt([(c, n) for c, n in terms if c], const)} (* {self.P} {q}))"
        if as_bool:
            return f
        self.lines.append(f"(assert {f})")

    def define_mod(self, terms, const=0):
        P = self.P
        ints = sum(c * n for c, n in terms if isinstance(n, int))
        terms = [(csmt.sym(c, P), n) for c, n in terms if not isinstance(n, int) and c % P]
        const = (const + ints) % P
        if not terms:
            return const
        r = self.fresh("r", 0, P - 1)
        self.modeq(terms + [(-1, r)], csmt.sym(const, P))
        return r

    def fmul(self, a, b):
        P = self.P
        if isinstance(a, int) and isinstance(b, int):
            return a * b % P
        if isinstance(a, int):
            a, b = b, a
        if isinstance(b, int):
            return self.define_mod([(b, a)])
        t = self.fresh("m", 0, P - 1)
        self.lines.append(f"(assert (= {t} (mod (* {a} {b}) {P})))")
        return t

    def named_sum(self, terms):
        ints = sum(c * a for c, a in terms if isinstance(a, int))
        terms = [(c, a) for c, a in terms if not isinstance(a, int) and c]
        if not terms:
            return I(ints)
        return self.lin_smt(terms, ints)

    def residue(self, terms, const, m):
        ints = sum(c * csmt.sym(a, self.P) for c, a in terms if isinstance(a, int))
        terms = [(c, a) for c, a in terms if not isinstance(a, int) and c]
        if not terms:
            return (const + ints) % m
        r = self.fresh("res", 0, m - 1)
        q = self.fresh("rq")
        body = "(+ " + I(const + ints) + " " + " ".join(f"(* {I(c)} {self.signed(a)})" for c, a in terms) + ")"
        self.lines.append(f"(assert (= {body} (+ {r} (* {m} {q}))))")
        return r

    def addmod(self, a, b, m, sign=1):
        if isinstance(a, int) and isinstance(b, int):
            return (a + sign * b) % m
        r = self.fresh("am", 0, m - 1)
        q = self.fresh("aq", -1, 1)
        A_ = lambda x: I(x) if isinstance(x, int) else x
        self.lines.append(f"(assert (= (+ {A_(a)} (* {I(sign)} {A_(b)})) (+ {r} (* {m} {q}))))")
        return r

    def MM(self, a, b, m):
        if isinstance(a, int) and isinstance(b, int):
            return a * b % m
        t = self.fresh("mm", 0, m - 1)
        A_ = lambda x: I(x) if isinstance(x, int) else x
        self.lines.append(f"(assert (= {t} (mod (* {A_(a)} {A_(b)}) {m})))")
        return t

    def zero_rep_lemma(self, limbs):
        pass


def in_domain(spec, ins_vals, n_out, P, extra=None, timeout=20):
    """True / False / None: do concrete instance inputs admit SOME output under the specification?"""
    so = _SpecOnly(P, extra)
    outs = [so.fresh("out", 0, P - 1) for _ in range(n_out)]
    try:
        f = spec(so, list(ins_vals), outs)
    except Exception:
        return None
    r = solvers.solve("(set-logic ALL)\n" + "\n".join(so.lines) + f"\n(assert {f})", timeout=timeout)
    return True if r.status == "sat" else (False if r.status == "unsat" else None)


def boundary_tuples(n_in, given, params, P, rnd, count):
    """candidate instance-input tuples from boundary values (filtered by the domain query afterwards)"""
    vals = {0, 1, 2, 3, P - 1, P - 2, (P - 1) // 2, (P + 1) // 2}
    for k in (1, 2, 7, 8, 9, 15, 16, 17, 31, 32, 63, 64, 65, 127, 128, 253, 254):
        vals |= {(1 << k) - 1, 1 << k, (1 << k) + 1}
    for v in params.values():
        if isinstance(v, int) and not isinstance(v, bool):
            vals |= {v % P, (v - 1) % P, (v + 1) % P}
            if 0 < v < 300:
                vals |= {(1 << v) - 1, (1 << v) % P, ((1 << v) + 1) % P, ((1 << v) - 2) % P}
    for g in given:
        vals |= {x % P for x in g}
    vals = sorted(vals)
    out = []
    for v in vals[:40]:
        out.append([v] * n_in)
    for _ in range(count * 6):
        out.append([rnd.choice(vals) for _ in range(n_in)])
    for _ in range(count):
        a = rnd.choice(vals)
        out.append([(a + rnd.choice([-1, 0, 1])) % P for _ in range(n_in)])
    rnd.shuffle(out)
    return out


def pstr(params):
    params = {k: v for k, v in params.items() if k != "prog"}
    return ",".join(f"{k}={(hex(v)[:14] + '..') if isinstance(v, int) and v > 10**9 else (str(v) if not isinstance(v, (list, tuple)) else 'list' + str(len(v)))}" for k, v in sorted(params.items()))


def structure_hash(system):
    d = system.d
    return core.stable_hash(json.dumps([d["gates"], [(l["name"], l["inputs"]) for l in d["lookups"]], sorted(map(tuple, d["copies"])), d["fixed"]], sort_keys=True))


def complete_obligation(run, family, ent, oid, engine="C"):
    """Solver-decided completeness (vf/ccomplete.py): for ALL (I, O) with Spec(I, O) (and the caller-side
    precondition) the emitted system is satisfiable, the witness being Skolem terms read off the system.
    Registered only when decided: unsat -> HOLDS; a sat candidate whose inputs the real chip rejects ->
    VIOLATION (replayed honest run); everything else (not triangular, unknown, candidate accepted by the
    real chip = Skolem strategy too weak) is counted in run.extra['completeness'] and stays covered by the
    honest-run sampling only."""
    from . import ccomplete
    stats = run.extra.setdefault("completeness", dict(decided=0, violated=0, not_triangular=0, undecided=0, undecided_shapes=[]))
    tmo = 8 if core.tier() == "quick" else 60
    t0 = time.time()
    try:
        system = extract(family, ent["op"], ent["params"], ent["ins"], ent["k"])
        st, info = ccomplete.decide_complete(system, ent["spec"], timeout=tmo, pre=ent.get("pre_smt"))
    except ccomplete.NotTriangular:
        stats["not_triangular"] += 1
        return
    except Exception as ex:  # noqa
        stats["undecided"] += 1
        stats["undecided_shapes"].append(f"{oid}: {ex!r}"[:160])
        return
    def mk():
        ob3 = core.Ob(oid + ":complete", engine, "for every (inputs, outputs) satisfying the specification the emitted constraints are satisfiable "
                      "(existential witness given by Skolem terms derived from the constraint system; products uninterpreted with field lemmas)",
                      functions=ent.get("functions") or [f"{family}::{ent['op']}"], bound=f"k={ent['k']} params={pstr(ent['params'])}",
                      key=f"{family}/{ent['op']}:complete")
        ob3.queries = info.get("queries", 1)
        ob3.vacuity = True
        run.add(ob3)
        return ob3
    if st == "unsat":
        stats["decided"] += 1
        mk().set(HOLDS, f"free bits {info['free_bits']}", solver=info.get("solver"), solver_s=time.time() - t0)
        return
    if st == "sat":
        names = [a for a in info["Iat"] if not isinstance(a, int)]
        ins_model = [info["model"].get(a, 0) if not isinstance(a, int) else a for a in info["Iat"]]
        try:
            s3 = extract(family, ent["op"], ent["params"], ins_model, ent["k"])
            if not s3.d["honest_verify"]:
                stats["violated"] += 1
                ob3 = mk()
                ob3.key = f"{family}/{ent['op']}:honest-rejected"
                path = run.write_replay(ob3, dict(kind="honest-rejected", cx=cx_args(family, ent["op"], ent["params"], ins_model, ent["k"])))
                ob3.set(VIOLATION, f"real MockProver rejects the honest witness of {ent['op']} {pstr(ent['params'])} on the admissible inputs {ins_model} found by the completeness query", replay=path)
                run.log(f"{ob3.status:12s} {ob3.id} {ob3.detail[:160]}")
                return
        except ExtractPanic as ex:
            stats["violated"] += 1
            ob3 = mk()
            ob3.key = f"{family}/{ent['op']}:honest-panics"
            ob3.set(VIOLATION, f"the real synthesis/witness generation panics on the admissible inputs {ins_model} found by the completeness query: {ex}",
                    replay=run.write_replay(ob3, dict(kind="honest-panics", cx=cx_args(family, ent["op"], ent["params"], ins_model, ent["k"]))))
            run.log(f"{ob3.status:12s} {ob3.id} {ob3.detail[:160]}")
            return
        except ExtractError:
            pass
    stats["undecided"] += 1
    if len(stats["undecided_shapes"]) < 60:
        stats["undecided_shapes"].append(f"{oid}: {st}")


def run_family(run, family, entries, timeout=60, workers=8, only=None, engine="C"):
    """One obligation per entry: soundness `Sys => Spec` for all assignments; plus, per entry, the
    alternative admissible inputs are pushed through the real chip (honest witness must verify, emitted
    structure must not depend on the input)."""
    from concurrent.futures import ThreadPoolExecutor
    build(run)
    seen = {}

    def one(ent):
        oid = f"{family}/{ent['op']}[{pstr(ent['params'])}]"
        if oid in seen:
            seen[oid] += 1
            oid += f"#{seen[oid]}"
        else:
            seen[oid] = 0
        ob = core.Ob(oid, engine, ent.get("what") or f"constraints emitted by {ent['op']} imply its specification for every assignment",
                     functions=ent.get("functions") or [f"{family}::{ent['op']}"],
                     bound=f"k={ent['k']} params={pstr(ent['params'])}", key=f"{family}/{ent['op']}")
        run.add(ob)
        if only and only not in oid:
            ob.set(HOLDS, "skipped by --only")
            ob.nontrivial = False
            return
        try:
            decide(run, ob, family, ent["op"], ent["params"], ent["ins"], ent["spec"], k=ent["k"], timeout=ent.get("timeout") or timeout,
                   monomial_mode=ent.get("monomial", False), variants=ent.get("variants", ()), ff=ent.get("ff", False))
        except Exception as ex:  # noqa
            import traceback
            ob.set(INCONCLUSIVE, f"engine error: {ex!r} {traceback.format_exc()[-400:]}")
        # alternative honest inputs: concrete runs of the real chip (not the deciding step)
        if ob.status == HOLDS and ent.get("alt_params"):
            try:
                for ap in ent["alt_params"]:
                    s2 = extract(family, ent["op"], ap, ent["ins"], ent["k"])
                    if not s2.d.get("honest_verify"):
                        ob.key = ob.key + ":honest-rejected"
                        path = run.write_replay(ob, dict(kind="honest-rejected", cx=cx_args(family, ent["op"], ap, ent["ins"], ent["k"])))
                        ob.set(VIOLATION, f"real MockProver rejects the honest witness of {ent['op']} ({pstr(ap)})", replay=path)
                        break
            except ExtractPanic as ex:
                ob.key = ob.key + ":honest-panics"
                ob.set(VIOLATION, f"the real synthesis/witness generation panics on admissible inputs: {ex}",
                       replay=run.write_replay(ob, dict(kind="honest-panics", cx=cx_args(family, ent["op"], ap, ent["ins"], ent["k"]))))
            except ExtractError as ex:
                ob.set(INCONCLUSIVE, f"alt input extraction failed: {ex}")
        if ob.status == HOLDS and ent.get("alt"):
            try:
                base = structure_hash(extract(family, ent["op"], ent["params"], ent["ins"], ent["k"]))
                for alt in ent["alt"]:
                    s2 = extract(family, ent["op"], ent["params"], alt, ent["k"])
                    if not s2.d["honest_verify"]:
                        ob.key = ob.key + ":honest-rejected"
                        path = run.write_replay(ob, dict(kind="honest-rejected", cx=cx_args(family, ent["op"], ent["params"], alt, ent["k"])))
                        ob.set(VIOLATION, f"real MockProver rejects the honest witness of {ent['op']} {pstr(ent['params'])} on admissible inputs {alt}", replay=path)
                        break
                    if structure_hash(s2) != base:
                        ob.set(INCONCLUSIVE, f"emitted structure depends on the input ({alt}): the per-shape claim does not transfer")
                        break
                    ob.queries += 0
            except ExtractPanic as ex:
                ob.key = ob.key + ":honest-panics"
                path = run.write_replay(ob, dict(kind="honest-panics", cx=cx_args(family, ent["op"], ent["params"], alt, ent["k"])))
                ob.set(VIOLATION, f"the real synthesis/witness generation panics on admissible inputs: {ex}", replay=path)
            except ExtractError as ex:
                ob.set(INCONCLUSIVE, f"alt input extraction failed: {ex}")
        if ob.status == HOLDS and ent.get("boundary") and not (only and only not in oid):
            # boundary completeness sampling: admissible boundary inputs (domain decided by the solver on
            # the specification alone) must be accepted by the real chip. Concrete runs: they extend the
            # alternative inputs, they are not the deciding step of the soundness claim.
            import random as _r
            rnd = _r.Random(int(core.stable_hash(oid + str(core.seed())), 16))
            n_in = len(ent["ins"])
            n_out = None
            tried = admitted = 0
            budget = ent.get("boundary") if isinstance(ent.get("boundary"), int) else (6 if core.tier() == "quick" else 40)
            try:
                base_sys = extract(family, ent["op"], ent["params"], ent["ins"], ent["k"])
                n_out = len(base_sys.outs)
                for tup in boundary_tuples(n_in, [ent["ins"]] + ent.get("alt", []), ent["params"], base_sys.P, rnd, budget):
                    if admitted >= budget or tried >= budget * 5:
                        break
                    tried += 1
                    if ent.get("pre") and not ent["pre"](tup):
                        continue          # caller-side precondition (documented responsibility of the caller)
                    dom = in_domain(ent["spec"], tup, n_out, base_sys.P, base_sys.d.get("extra"))
                    if dom is not True:
                        continue
                    admitted += 1
                    s3 = extract(family, ent["op"], ent["params"], tup, ent["k"])
                    if not s3.d["honest_verify"]:
                        ob.key = ob.key + ":honest-rejected"
                        path = run.write_replay(ob, dict(kind="honest-rejected", cx=cx_args(family, ent["op"], ent["params"], tup, ent["k"])))
                        ob.set(VIOLATION, f"real MockProver rejects the honest witness of {ent['op']} {pstr(ent['params'])} on the admissible boundary inputs {tup}", replay=path)
                        break
                ob.boundary = (tried, admitted)
            except ExtractPanic as ex:
                ob.key = ob.key + ":honest-panics"
                ob.set(VIOLATION, f"the real synthesis/witness generation panics on admissible boundary inputs {tup}: {ex}",
                       replay=run.write_replay(ob, dict(kind="honest-panics", cx=cx_args(family, ent["op"], ent["params"], tup, ent["k"]))))
            except ExtractError as ex:
                ob.set(INCONCLUSIVE, f"boundary input extraction failed: {ex}")
        run.log(f"{ob.status:12s} {oid} {ob.solver or ''} {ob.solver_s:.1f}s {ob.detail[:160]}")
        if ob.status == HOLDS and ent.get("complete") and not (only and only not in oid):
            complete_obligation(run, family, ent, oid, engine)
        if not (only and only not in oid):
            ob2 = core.Ob(oid + ":keygen", engine, "the verifying key generated by the real keygen_vk commits to the same copy constraints and fixed columns as the development-time checker sees",
                          functions=["midnight_proofs::plonk::keygen_vk", "permutation::keygen::Assembly::copy", "dev::MockProver::copy"],
                          bound=ob.bound, key=f"{family}/{ent['op']}:keygen-vs-checker-structure")
            run.add(ob2)
            try:
                sysk = extract(family, ent["op"], ent["params"], ent["ins"], ent["k"], keygen=True)
                keygen_structure(run, ob2, sysk, family, ent["op"], ent["params"], ent["ins"], ent["k"], timeout=timeout)
            except Exception as ex:  # noqa
                ob2.set(INCONCLUSIVE, f"keygen structure comparison failed: {ex!r}")
            if ob2.status != HOLDS:
                run.log(f"{ob2.status:12s} {ob2.id} {ob2.detail[:200]}")

    with ThreadPoolExecutor(workers) as ex:
        list(ex.map(one, entries))
