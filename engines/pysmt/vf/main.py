"""check <ID> [--tier quick|thorough] [--only SUBSTR] [--replay PATH]"""
import sys, os, importlib.util, argparse, json, subprocess

HERE = os.path.dirname(os.path.abspath(__file__))
sys.path.insert(0, os.path.dirname(HERE))
from vf import core  # noqa


def load_spec(pid):
    path = os.path.join(core.VERIF, "specs", f"{pid}.py")
    if not os.path.exists(path):
        print(f"no spec module for {pid}")
        sys.exit(3)
    spec = importlib.util.spec_from_file_location(f"spec_{pid}", path)
    mod = importlib.util.module_from_spec(spec)
    spec.loader.exec_module(mod)
    return mod


def do_replay(path):
    r = json.load(open(path))
    print(json.dumps({k: v for k, v in r.items() if k not in ("overrides",)}, indent=1)[:3000])
    mod = load_spec(r["property"])
    if hasattr(mod, "replay"):
        rc = mod.replay(r)
        if rc is not None:
            return rc
    if "cx" in r:
        from vf import cengine
        cengine.build()
        args = [cengine.CX] + r["cx"]
        if r.get("overrides"):
            import tempfile
            with tempfile.NamedTemporaryFile("w", suffix=".json", delete=False) as f:
                json.dump(r["overrides"], f)
            args.append(f"replay={f.name}")
        if r.get("kind") == "keygen-structure":
            args.append("keygen=1")
        p = subprocess.run(args, capture_output=True, text=True)
        if r.get("kind") == "keygen-structure":
            out = json.loads(p.stdout) if p.returncode == 0 else {}
            from vf import csmt as _c
            kv = out.get("keygen", {})
            um, uk = _c.UF(), _c.UF()
            for a, b in out.get("copies", []):
                um.union(a, b)
            for a, b in kv.get("sigma_edges", []):
                uk.union(a, b)
            lost = [(a, b) for a, b in out.get("copies", []) if uk.find(a) != uk.find(b)]
            extra = [(a, b) for a, b in kv.get("sigma_edges", []) if um.find(a) != um.find(b)]
            print("copy constraints lost by the key:", lost[:5], "extra:", extra[:5])
            return 1 if (lost or extra) else 0
        if r.get("kind") == "honest-panics":
            print("exit code:", p.returncode, p.stderr[-300:])
            return 1 if p.returncode != 0 else 0
        out = json.loads(p.stdout) if p.returncode == 0 else {"error": p.stderr[-500:]}
        if r.get("kind") == "honest-rejected":
            print("honest_verify:", out.get("honest_verify"))
            return 1 if out.get("honest_verify") is False else 0
        if r.get("kind") == "honest-output":
            io = {f"i1_{x['row']}": hex(int(x["value"], 16)) for x in out.get("io", [])}
            same = all(io.get(c) == hex(int(v, 16)) for c, v in r.get("instance", {}).items())
            print("honest_verify:", out.get("honest_verify"), "same instance as recorded:", same)
            return 1 if (out.get("honest_verify") and same) else 0
        print("real MockProver verdict on the forged assignment:", out)
        return 1 if out.get("accepted") else 0
    print("nothing to replay")
    return 2


def main():
    ap = argparse.ArgumentParser()
    ap.add_argument("pid")
    ap.add_argument("--tier", default=None)
    ap.add_argument("--only", default=None)
    ap.add_argument("--replay", default=None)
    a = ap.parse_args()
    if a.tier:
        os.environ["VERIF_TIER"] = a.tier
    if a.replay:
        sys.exit(do_replay(a.replay))
    mod = load_spec(a.pid)
    run = core.Run(a.pid, getattr(mod, "LEVEL", "model_checking"))
    run.only = a.only
    try:
        mod.check(run)
    except Exception as ex:
        import traceback
        traceback.print_exc()
        ob = core.Ob("engine", "-", "check infrastructure")
        ob.set(core.INCONCLUSIVE, f"check crashed: {ex!r}")
        run.add(ob)
    sys.exit(run.finish())


if __name__ == "__main__":
    main()
