"""Aggregate the per-engine part modules /verif/specs/parts/<ID>_<ENGINE>.py of one property."""
import glob, importlib.util, os, traceback
from . import core


def run_parts(run, pid, only_engines=None):
    paths = sorted(glob.glob(os.path.join(core.VERIF, "specs", "parts", f"{pid}_*.py")))
    for p in paths:
        eng = os.path.basename(p)[len(pid) + 1:-3]
        if only_engines and eng not in only_engines:
            continue
        spec = importlib.util.spec_from_file_location(f"part_{pid}_{eng}", p)
        mod = importlib.util.module_from_spec(spec)
        try:
            spec.loader.exec_module(mod)
            run.log(f"--- part {pid}_{eng}")
            mod.check(run)
        except Exception as ex:  # a crashing part is an inconclusive obligation, never a silent pass
            traceback.print_exc()
            ob = core.Ob(f"{pid}/{eng}/part-crashed", eng, f"part module {os.path.basename(p)}")
            ob.set(core.INCONCLUSIVE, f"part crashed: {ex!r}")
            run.add(ob)


def replay_parts(pid, payload):
    eng = payload.get("engine_part")
    paths = sorted(glob.glob(os.path.join(core.VERIF, "specs", "parts", f"{pid}_*.py")))
    for p in paths:
        spec = importlib.util.spec_from_file_location("part", p)
        mod = importlib.util.module_from_spec(spec)
        spec.loader.exec_module(mod)
        if hasattr(mod, "replay") and (eng is None or p.endswith(f"_{eng}.py")):
            r = mod.replay(payload)
            if r is not None:
                return r
    return None
