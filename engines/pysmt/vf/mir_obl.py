"""Engine M: obligation builders shared by the part modules (C10_M, C11_M)."""
import os, re, sys, time, random, json, threading, traceback
from concurrent.futures import ThreadPoolExecutor

from vf import core, solvers
from vf import mir_parse as mp
from vf import mir2smt as M
from vf import mir_field as MF
from vf.mir2smt import Untranslatable, S

ENGINE = "M"
W = 1 << 64
PID = "C10"


def cap():
    return 60 if core.tier() == "quick" else 600


# --------------------------------------------------------------------------------------------------------
# generic decision helper
# --------------------------------------------------------------------------------------------------------
class Decider:
    def __init__(self, run, rep):
        self.run, self.rep = run, rep
        self.jobs = []

    def job(self, fn):
        self.jobs.append(fn)

    def flush(self, workers=5):
        jobs, self.jobs = self.jobs, []

        def wrap(f):
            try:
                f()
            except Exception as ex:
                traceback.print_exc()
        with ThreadPoolExecutor(max_workers=workers) as ex:
            list(ex.map(wrap, jobs))


def new_ob(run, oid, what, functions, bound, key=None):
    ob = core.Ob(f"{run.pid}/M/{oid}", ENGINE, what, functions=functions, bound=bound, key=key or oid)
    run.add(ob)
    return ob


def solve_all(ob, queries, timeout):
    """queries: [(label, smt, get_values)] all must be unsat. returns ('unsat'|'sat'|'unknown', label, result)"""
    worst = ("unsat", None, None)
    tot = 0.0
    for label, smt, gv in queries:
        if smt is None:
            continue
        r = solvers.solve(smt, timeout=timeout, get_values=gv)
        ob.queries += 1
        tot += r.time_s
        ob.timing = getattr(ob, "timing", "") + f"{label}:{r.status}/{r.solver}/{r.time_s:.1f}s "
        ob.solver = r.solver or ob.solver
        if r.status == "sat":
            ob.solver_s = tot
            return "sat", label, r
        if r.status != "unsat":
            worst = ("unknown", label, r)
    ob.solver_s = tot
    return worst


# --------------------------------------------------------------------------------------------------------
# kernels
# --------------------------------------------------------------------------------------------------------
def boundary_vectors(fld, rnd, canonical=True, count=6):
    p = fld.p
    vs = [0, 1, p - 1, fld.raw.get("R", 1), (p - 1) // 2, (p + 1) // 2, fld.raw.get("R2", 2)]
    if not canonical:
        vs += [fld.R - 1, p, p + 1, (1 << 64) - 1, 1 << 64, (1 << 255) % fld.R]
    for _ in range(count):
        vs.append(rnd.randrange(p if canonical else fld.R))
    return vs


def ints_of_model(model, leaves):
    out = []
    for lv in leaves:
        v = 0
        for i, x in enumerate(lv):
            if isinstance(x, int):
                xi = x
            else:
                xi = model.get(x.t)
                if xi is None:
                    return None
            v += xi << (64 * i)
        out.append(v)
    return out


class Kernel:
    """one op of one field: encoding + spec + replay"""

    def __init__(self, K, fld, op):
        self.K, self.fld, self.op = K, fld, op


class Kernels:
    def __init__(self, run, P, rep, dec):
        self.run, self.P, self.rep, self.dec = run, P, rep, dec
        self.rnd = random.Random(core.seed() * 7919 + 10)
        self.tv = {"smt": 0, "concrete": 0, "mismatch": []}
        self.lock = threading.Lock()

    # -------------------------------------------------------- replay
    def replay_op(self, fld, op, operands):
        """-> dict(profile -> (tag, value))"""
        out = {}
        rop = fld.d["replay_ops"].get(op)
        self.rep.finished.wait(900)          # a counterexample is replayed on the dev AND the release build
        if rop is None or not self.rep.bins:
            return out
        line = f"{fld.d['replay']} {rop} " + " ".join(MF.hexs(x) for x in operands)
        for prof in list(self.rep.bins):
            try:
                out[prof] = MF.parse_replay(self.rep.field_batch([line], prof)[0])
            except Exception as ex:
                out[prof] = ("err", repr(ex))
        return out

    def violation_or_inconclusive(self, ob, fld, op, label, r, leaves, expect, what):
        """replay the model; expect(vals) -> ('ok'|'some'|'none', int|None) or None when only 'no panic' is claimed"""
        vals = ints_of_model(r.model, leaves)
        if vals is None:
            ob.set(core.INCONCLUSIVE, f"{label}: sat but model incomplete")
            return
        res = self.replay_op(fld, op, vals)
        if not res:
            ob.set(core.INCONCLUSIVE, f"{label}: sat ({r.solver}) but no native replay available for {fld.key}.{op}")
            return
        exp = expect(vals) if expect else None
        bad = {}
        for prof, (tag, v) in res.items():
            if tag == "panic":
                bad[prof] = f"panic: {v}"
            elif tag == "err":
                continue
            elif exp is not None and (tag, v) != exp:
                bad[prof] = f"real={tag} {MF.hexs(v) if isinstance(v, int) else v} expected={exp[0]} " \
                            f"{MF.hexs(exp[1]) if isinstance(exp[1], int) else ''}"
        if bad:
            payload = dict(engine_part="M", kind="field-kernel", field=fld.key, op=op, replay_type=fld.d["replay"],
                           replay_op=fld.d["replay_ops"][op], operands=[MF.hexs(x) for x in vals],
                           expected=[exp[0], MF.hexs(exp[1]) if exp and isinstance(exp[1], int) else None] if exp else None,
                           observed=bad, query=label)
            path = self.run.write_replay(ob, payload)
            ob.set(core.VIOLATION, f"{what}: {label} sat ({r.solver}); operands {[MF.hexs(x) for x in vals]}; {bad}",
                   replay=path)
        else:
            ob.set(core.INCONCLUSIVE, f"{label}: sat ({r.solver}) but the counterexample does not reproduce natively "
                                      f"(operands {[MF.hexs(x) for x in vals]}, real {res})")

    # -------------------------------------------------------- translator validation / vacuity twin
    def twin(self, ob, fld, op, ip, leaves_in, out_leaves, pre, vectors, decode=None, native_decode=None, n_smt=2,
             extra="true"):
        """push concrete vectors through the real function and through (a) the SMT encoding with the inputs
        pinned (b) the interpreter in concrete mode. Returns True when at least one pinned query was sat and
        agreed with the native result (the vacuity witness of the encoding)."""
        rop = fld.d["replay_ops"].get(op)
        have_native = rop is not None and "dev" in self.rep.bins
        if have_native:
            lines = [f"{fld.d['replay']} {rop} " + " ".join(MF.hexs(x) for x in v) for v in vectors]
            nat = [MF.parse_replay(l) for l in self.rep.field_batch(lines, "dev")]
        else:
            # no public entry point to replay (crate-private const twin): the reference for the pinned SMT query is
            # the MIR interpreter in concrete mode (itself validated against native runs on the sibling functions)
            nat = [("interp", None)] * len(vectors)
        ok_any = False
        c = ip.ctx
        flat_in = [x for lv in leaves_in for x in lv]
        for vi, (vec, (tag, nv)) in enumerate(zip(vectors, nat)):
            # (b) concrete interpretation
            conc = []
            for val, lv in zip(vec, leaves_in):
                conc += [(val >> (64 * i)) & (W - 1) for i in range(len(lv))]
            try:
                ipc, _, rc, _ = fld.run_op(op, concrete=conc)
                got = decode(ipc, rc) if decode else ("ok", sum(x << (64 * i) for i, x in enumerate(fld.flat(ipc, rc))))
                if not have_native:
                    tag, nv = got
                else:
                    with self.lock:
                        self.tv["concrete"] += 1
                if tag in ("ok", "some", "none") and got != (tag, nv if tag != "none" else None):
                    with self.lock:
                        self.tv["mismatch"].append(f"{fld.key}.{op} concrete {[MF.hexs(x) for x in vec]}: "
                                                   f"interp {got} native {(tag, nv)}")
            except Untranslatable as ex:
                if tag != "panic":
                    with self.lock:
                        self.tv["mismatch"].append(f"{fld.key}.{op} concrete {[MF.hexs(x) for x in vec]}: {ex}")
            # (a) pinned SMT query
            if vi >= n_smt or tag not in ("ok", "some"):
                continue
            pins = " ".join(f"(= {x.t} {cv})" for x, cv in zip(flat_in, conc) if not isinstance(x, int))
            outs = [x for x in out_leaves if not isinstance(x, int)]
            smt = c.text() + f"(assert {pre})\n(assert {c.path_term()})\n(assert (and {pins} true))\n(assert {extra})\n"
            r = solvers.solve(smt, timeout=30, get_values=[x.t for x in outs])
            ob.queries += 1
            with self.lock:
                self.tv["smt"] += 1
            if r.status != "sat":
                with self.lock:
                    self.tv["mismatch"].append(f"{fld.key}.{op} pinned query {r.status} for {[MF.hexs(x) for x in vec]}")
                continue
            val = 0
            for i, x in enumerate(out_leaves):
                xi = x if isinstance(x, int) else r.model.get(x.t, 0)
                val += xi << (64 * i)
            want = nv if native_decode is None else native_decode(tag, nv)
            if val == want:
                ok_any = True
            else:
                with self.lock:
                    self.tv["mismatch"].append(f"{fld.key}.{op} smt {[MF.hexs(x) for x in vec]}: encoding "
                                               f"{MF.hexs(val)} native {MF.hexs(want)}")
        return ok_any

    def solver_vacuity(self, ob, smt):
        """twin query that must be sat (used when no native twin is available for the function)"""
        r = solvers.solve(smt, timeout=30)
        ob.queries += 1
        return r.status == "sat"

    # -------------------------------------------------------- linear ops
    def linear(self, fld, op, kind=None):
        run = self.run
        kind = kind or op
        if not fld.has(op):
            return
        ob = new_ob(run, f"{fld.key}/{op}", f"{fld.d['ty']}::{op}: for all canonical operands out = (a {op} b) mod p, "
                    f"out < p (internals-free, one quotient), and no MIR assert (overflow/index) is reachable",
                    [f"{fld.d['src']}::{op}"], "all 2^256-bit operand pairs below the modulus")

        def work():
            try:
                ip, ins, r, it = fld.run_op(op)
            except (Untranslatable, KeyError) as ex:
                ob.set(core.INCONCLUSIVE, f"untranslatable: {ex}")
                return
            out = fld.flat(ip, r)
            pre = "(and " + " ".join(fld.canon(ip, lv) for lv in ins) + ")"
            goal = fld.goal_linear(ip, kind, ins, out)
            gv = [x.t for lv in ins for x in lv]
            st, label, res = solve_all(ob, [("spec", fld.q_goal(ip, pre, goal), gv),
                                            ("no-panic", fld.q_nopanic(ip, pre), gv)], cap())
            ob.detail = f"{len(ip.ctx.panics)} MIR asserts sent to the solver, {ip.ctx.folded_asserts} folded to true " \
                        f"on constant operands; {len(ip.ctx.decl)} SMT lines"
            if st == "sat":
                exp = (lambda vals: ("ok", fld.py_linear(kind, vals))) if label == "spec" else None
                self.violation_or_inconclusive(ob, fld, op, label, res, ins, exp, f"{fld.key}.{op}")
                return
            if st != "unsat":
                ob.set(core.INCONCLUSIVE, f"{label}: {res.raw[:200] if res else ''}")
                return
            vecs = boundary_vectors(fld, self.rnd)
            nin = len(ins)
            vectors = [[vecs[(i + j * 3) % len(vecs)] for j in range(nin)] for i in range(len(vecs))]
            tw = self.twin(ob, fld, op, ip, ins, out, pre, vectors)
            if tw is None:
                tw = self.solver_vacuity(ob, fld.q_vacuity(ip, pre, goal))
            ob.vacuity = bool(tw) if tw is not None else None
            if tw is False:
                ob.set(core.INCONCLUSIVE, "vacuity twin (pinned concrete inputs) did not come back sat/agreeing")
                return
            ob.set(core.HOLDS)
        self.dec.job(work)

    # -------------------------------------------------------- montgomery_reduce (white box)
    def reduce(self, fld, op="reduce"):
        run = self.run
        if not fld.has(op):
            return
        nm = {"reduce": "montgomery_reduce", "reduce_const": "montgomery_reduce_const"}.get(op, op)
        ob = new_ob(run, f"{fld.key}/{nm}",
                    f"{fld.d['ty']}::{nm}: for every T < p*2^256, out < p and out*2^256 = T + K*p - c*p*2^256 with "
                    f"K = sum k_i 2^(64 i) built from the wrapping_mul(_, INV) values of the body (white-box Montgomery "
                    f"quotient), c in {{0,1}}; no MIR assert reachable",
                    [f"{fld.d['src']}::{nm}"], "all 512-bit T below p*2^256" if op == "reduce" else "all 256-bit inputs")

        def work():
            cut = fld.d.get("cuts", {}).get(op)
            try:
                ip, ins, r, it = fld.run_op(op, cut=cut)
                out = fld.flat(ip, r)
                leaves = [x for lv in ins for x in lv]
                c = ip.ctx
                T = MF.sum_term(ip, leaves)
                ks = fld.wrapping_muls(ip)
                goal = fld.goal_reduce(ip, T, out, ks)
            except (Untranslatable, KeyError) as ex:
                ob.set(core.INCONCLUSIVE, f"untranslatable: {ex}")
                return
            pre = f"(< {T} {fld.p * fld.R})"
            gv = [x.t for x in leaves]
            p, R = fld.p, fld.R
            cut_at = getattr(c, "cut_at", None)
            cpath = c.path_term(c.cut_path) if cut_at is not None else c.path_term()
            # per-round lemmas: the discarded low limb of mac(r_i, k_i, MODULUS[0], 0) is 0 (the number-theoretic
            # core INV*p = -1 mod 2^64, local to one round); found structurally: mac calls fed with a
            # wrapping_mul(_, INV) result and a zero carry
            kts = {ip.term(k[1]) for k in ks}
            ds = []
            for (pth, a, res_) in ip.call_log:
                if pth.endswith("::mac") and len(a) == 4 and not isinstance(ip.force(a[1]), int) \
                        and ip.term(ip.force(a[1])) in kts and a[3] == 0:
                    ds.append(ip.term(ip.force(res_.f[0])))
            queries = []
            assumed = ""
            base = c.text(cut_at) + f"(assert {pre})\n(assert {cpath})\n"
            for i_, dt in enumerate(ds):
                queries.append((f"round-{i_}-low-limb-zero", base + assumed + f"(assert (not (= {dt} 0)))\n", gv))
                assumed += f"(assert (= {dt} 0))\n"
            if ip.havoc_pairs:
                # cut at the final conditional subtraction: (1) prefix lemma on the values flowing into it,
                # (2) the subtraction on fresh values constrained only by the lemma's bound, (3) composition
                Vo = "(+ " + " ".join(f"(* {1 << (64 * i)} {ip.term(o)})" for i, (w, o) in enumerate(ip.havoc_pairs)) + ")"
                Vn = "(+ " + " ".join(f"(* {1 << (64 * i)} {w.t})" for i, (w, o) in enumerate(ip.havoc_pairs)) + ")"
                K = "(+ " + " ".join(f"(* {1 << (64 * i)} {ip.term(k[1])})" for i, k in enumerate(ks)) + ")"
                O = MF.sum_term(ip, out)
                L1 = f"(and (= (* {R} {Vo}) (+ {T} (* {p} {K}))) (< {Vo} {2 * p}))"
                tail_pre = f"(< {Vn} {2 * p})"
                L2 = f"(and (< {O} {p}) (or (= {O} {Vn}) (= {O} (- {Vn} {p}))))"
                q1 = base + assumed + f"(assert (not {L1}))\n"
                q2 = c.text() + f"(assert {tail_pre})\n(assert {c.path_term()})\n(assert (not {L2}))\n"
                q3 = "(set-logic ALL)\n" + "\n".join(f"(declare-const {v} Int)" for v in ("T", "K", "V", "O")) + \
                     f"\n(assert (and (= (* {R} V) (+ T (* {p} K))) (< V {2 * p}) (< O {p}) (or (= O V) (= O (- V {p})))))\n" \
                     f"(assert (not (and (< O {p}) (or (= (* {R} O) (+ T (* {p} K))) (= (* {R} O) (- (+ T (* {p} K)) {p * R}))))))\n"
                qp = fld.q_nopanic(ip, f"(and {pre} {tail_pre})")
                queries += [("prefix-lemma", q1, gv), ("final-subtraction", q2, [w.t for w, o in ip.havoc_pairs]),
                            ("composition", q3, None), ("no-panic", qp, gv)]
                how = f"{len(ds)} per-round lemmas, cut at the final conditional subtraction ({len(ip.havoc_pairs)} limbs havocked)"
            else:
                queries += [("spec", c.text() + f"(assert {pre})\n(assert {c.path_term()})\n" + assumed +
                             f"(assert (not {goal}))\n", gv), ("no-panic", fld.q_nopanic(ip, pre), gv)]
                how = f"{len(ds)} per-round lemmas, monolithic goal"
            st, label, res = solve_all(ob, queries, cap())
            ob.detail = f"{how}; {len(ip.ctx.panics)} MIR asserts sent to the solver, {ip.ctx.folded_asserts} folded; " \
                        f"{len(ip.ctx.decl)} SMT lines"
            if st == "sat" and label == "final-subtraction":
                # counterexample lives at the cut: find inputs that reach it, through the monolithic encoding
                try:
                    ipm, insm, rm, _ = fld.run_op(op)
                    leavesm = [x for lv in insm for x in lv]
                    Tm = ipm.ctx.define(MF.sum_term(ipm, leavesm), "T")
                    goalm = fld.goal_reduce(ipm, Tm, fld.flat(ipm, rm), fld.wrapping_muls(ipm))
                    resm = solvers.solve(fld.q_goal(ipm, f"(< {Tm} {p * R})", goalm), timeout=cap(),
                                         get_values=[x.t for x in leavesm])
                    ob.queries += 1
                    if resm.status == "sat":
                        res, leaves, label = resm, leavesm, "spec (monolithic, after the cut query was sat)"
                    else:
                        ob.set(core.INCONCLUSIVE, f"final-subtraction lemma sat at the cut but the monolithic query is "
                                                  f"{resm.status}: no input-level counterexample")
                        return
                except Untranslatable as ex:
                    ob.set(core.INCONCLUSIVE, f"final-subtraction sat; monolithic re-encoding failed: {ex}")
                    return
            allin = [leaves]
            if st == "sat":
                exp = (lambda vals: ("ok", fld.py_reduce(vals[0]))) if label != "no-panic" else None
                self.violation_or_inconclusive(ob, fld, op, label, res, allin, exp, f"{fld.key}.{nm}")
                return
            if st != "unsat":
                ob.set(core.INCONCLUSIVE, f"{label}: {res.raw[:200] if res else ''}")
                return
            p, R = fld.p, fld.R
            if op in ("reduce", "reduce_const"):
                vectors = [[0], [1], [p * R - 1], [p], [R - 1], [(p - 1) * (p - 1)], [R], [p * (R - 1)]] + \
                          [[self.rnd.randrange(p * R)] for _ in range(6)]
            else:
                vectors = [[v] for v in boundary_vectors(fld, self.rnd, canonical=False)]
            glue = "(and true " + " ".join(f"(= {w.t} {ip.term(o)})" for w, o in ip.havoc_pairs) + ")"
            tw = self.twin(ob, fld, op, ip, allin, out, pre, vectors, extra=glue)
            if tw is None:
                tw = self.solver_vacuity(ob, c.text() + f"(assert {pre})\n(assert {c.path_term()})\n(assert {glue})\n")
            ob.vacuity = bool(tw) if tw is not None else None
            if tw is False:
                ob.set(core.INCONCLUSIVE, "vacuity twin (pinned concrete inputs) did not come back sat/agreeing")
                return
            ob.set(core.HOLDS)
        self.dec.job(work)

    # -------------------------------------------------------- mul / square: schoolbook over opaque products
    def product(self, fld, op):
        run = self.run
        if not fld.has(op):
            return
        ob = new_ob(run, f"{fld.key}/{op}/schoolbook",
                    f"{fld.d['ty']}::{op}: with every 64x64-bit limb product an opaque bounded value pi(a_i,b_j), the "
                    f"eight limbs handed to montgomery_reduce sum to Sigma pi(a_i,b_j) 2^(64(i+j)), the returned value is "
                    f"the reduction's result (so out*2^256 = Sigma + m*p, out < p by the reduce contract whenever "
                    f"Sigma < p*2^256), and no MIR assert is reachable",
                    [f"{fld.d['src']}::{op}", f"{fld.d['src']}::montgomery_reduce"],
                    "all limb values and all values of the 16 (10) opaque products within [0,(2^64-1)^2]")

        def work():
            try:
                ip, ins, r, it = fld.run_op(op, product="opaque",
                                            summaries=[x for x in ("reduce", "reduce_const") if fld.has(x)])
                out = fld.flat(ip, r)
                if len(ip.summ) != 1:
                    raise Untranslatable(f"expected exactly one montgomery_reduce call, saw {len(ip.summ)}")
                sm = ip.summ[0]
                a = ins[0]
                b = ins[1] if len(ins) > 1 else ins[0]
                c = ip.ctx

                def pi(x, y):
                    nm = c.pi.get(tuple(sorted((x.t, y.t))))
                    if nm is None:
                        raise Untranslatable(f"limb product {x.t}*{y.t} never computed by the body")
                    return nm
                Tspec = c.define("(+ " + " ".join(f"(* {1 << (64 * (i + j))} {pi(a[i], b[j])})"
                                                  for i in range(fld.n) for j in range(fld.n)) + ")", "Tspec")
            except (Untranslatable, KeyError) as ex:
                ob.set(core.INCONCLUSIVE, f"untranslatable: {ex}")
                return
            pre = f"(< {Tspec} {fld.p * fld.R})"
            O = MF.sum_term(ip, out)
            goal = f"(and (= {sm['T']} {Tspec}) (= {O} {sm['O']}) (< {O} {fld.p}) " \
                   f"(= (* {fld.R} {O}) (+ {Tspec} (* {fld.p} {sm['m']}))))"
            gv = [x.t for lv in ins for x in lv]
            st, label, res = solve_all(ob, [("spec", fld.q_goal(ip, pre, goal), gv),
                                            ("no-panic+pre", fld.q_nopanic(ip, pre), gv)], cap())
            ob.detail = f"{len(ip.ctx.panics)} MIR asserts + {len(getattr(ip.ctx, 'side', []))} callee preconditions " \
                        f"sent to the solver, {ip.ctx.folded_asserts} folded; {len(c.pi)} opaque products"
            if st == "sat":
                R_inv = pow(fld.R, -1, fld.p)
                if len(ins) > 1:
                    exp = lambda vals: ("ok", vals[0] * vals[1] * R_inv % fld.p) if vals[0] * vals[1] < fld.p * fld.R else None
                else:
                    exp = lambda vals: ("ok", vals[0] * vals[0] * R_inv % fld.p) if vals[0] * vals[0] < fld.p * fld.R else None
                self.violation_or_inconclusive(ob, fld, op, label, res, ins, exp if label == "spec" else None,
                                               f"{fld.key}.{op}")
                return
            if st != "unsat":
                ob.set(core.INCONCLUSIVE, f"{label}: {res.raw[:200] if res else ''}")
                return
            # vacuity / translator validation: whole function (reduce inlined, real products) on concrete vectors
            try:
                ip2, ins2, r2, _ = fld.run_op(op)
                out2 = fld.flat(ip2, r2)
                vecs = boundary_vectors(fld, self.rnd)
                vectors = [[vecs[(i + j * 3) % len(vecs)] for j in range(len(ins))] for i in range(len(vecs))]
                pre2 = "true"
                tw = self.twin(ob, fld, op, ip2, ins2, out2, pre2, vectors, n_smt=1)
            except Untranslatable as ex:
                tw = None
            if tw is None:
                tw = self.solver_vacuity(ob, fld.q_vacuity(ip, pre, goal))
            ob.vacuity = bool(tw) if tw is not None else None
            if tw is False:
                ob.set(core.INCONCLUSIVE, "vacuity twin (pinned concrete inputs, full body) did not agree with native")
                return
            ob.set(core.HOLDS)
        self.dec.job(work)

    def bridge(self, fld):
        """distributivity bridge and magnitude bound, per limb count and modulus (pure polynomial facts)"""
        run = self.run
        n = fld.n
        ob = new_ob(run, f"{fld.key}/mul/bridge",
                    f"bridge for the {n}x{n} schoolbook: Sigma a_i*b_j*2^(64(i+j)) = (Sigma a_i 2^(64i))*(Sigma b_j 2^(64j)) "
                    f"as polynomials over the limbs, and A < 2^256, B < p  =>  A*B < p*2^256 (precondition of the reduce "
                    f"contract for mul, square, from_raw and the R2/R3 multiplications)",
                    [f"{fld.d['src']}::mul"], "all limb values; nonlinear integer arithmetic")

        def work():
            decl = ["(set-logic ALL)"]
            for v in [f"a{i}" for i in range(n)] + [f"b{i}" for i in range(n)]:
                decl += [f"(declare-const {v} Int)", f"(assert (and (<= 0 {v}) (< {v} {W})))"]
            A = "(+ " + " ".join(f"(* {1 << (64 * i)} a{i})" for i in range(n)) + ")"
            Bv = "(+ " + " ".join(f"(* {1 << (64 * i)} b{i})" for i in range(n)) + ")"
            SS = "(+ " + " ".join(f"(* {1 << (64 * (i + j))} (* a{i} b{j}))" for i in range(n) for j in range(n)) + ")"
            q1 = "\n".join(decl) + f"\n(assert (not (= {SS} (* {A} {Bv}))))\n"
            q2 = "(set-logic ALL)\n(declare-const A Int)\n(declare-const B Int)\n" \
                 f"(assert (and (<= 0 A) (< A {fld.R}) (<= 0 B) (< B {fld.p})))\n" \
                 f"(assert (not (< (* A B) {fld.p * fld.R})))\n"
            st, label, res = solve_all(ob, [("distributivity", q1, None), ("bound", q2, None)], cap())
            if st == "unsat":
                v = solvers.solve("\n".join(decl) + f"\n(assert (= {SS} (* {A} {Bv})))\n(assert (> a0 1))\n", timeout=30)
                ob.queries += 1
                ob.vacuity = v.status == "sat"
                ob.set(core.HOLDS)
            elif st == "sat":
                ob.set(core.INCONCLUSIVE, f"{label}: sat on a pure polynomial identity (encoder error?)")
            else:
                ob.set(core.INCONCLUSIVE, f"{label}: {res.raw[:200] if res else ''}")
        self.dec.job(work)

    # -------------------------------------------------------- from_raw and friends (constant second factor)
    def from_raw(self, fld):
        run = self.run
        op = "from_raw"
        if not fld.has(op) or "R2" not in fld.raw:
            return
        ob = new_ob(run, f"{fld.key}/from_raw",
                    f"{fld.d['ty']}::from_raw(v): for every 256-bit v, out < p and out*2^256 = v*R2 + m*p (so out is the "
                    f"Montgomery form of v mod p given the ground fact R2 = 2^512 mod p); products with the constant "
                    f"are exact; no MIR assert reachable, reduce precondition v*R2 < p*2^256 holds",
                    [f"{fld.d['src']}::from_raw", f"{fld.d['src']}::mul", f"{fld.d['src']}::montgomery_reduce"],
                    "all 256-bit v (not only canonical)")

        def work():
            try:
                ip, ins, r, it = fld.run_op(op, summaries=[x for x in ("reduce", "reduce_const") if fld.has(x)])
                out = fld.flat(ip, r)
                if len(ip.summ) != 1:
                    raise Untranslatable(f"expected exactly one montgomery_reduce call, saw {len(ip.summ)}")
                sm = ip.summ[0]
            except (Untranslatable, KeyError) as ex:
                ob.set(core.INCONCLUSIVE, f"untranslatable: {ex}")
                return
            V = MF.sum_term(ip, ins[0])
            O = MF.sum_term(ip, out)
            goal = f"(and (< {O} {fld.p}) (= (* {fld.R} {O}) (+ (* {fld.raw['R2']} {V}) (* {fld.p} {sm['m']}))))"
            gv = [x.t for x in ins[0]]
            st, label, res = solve_all(ob, [("spec", fld.q_goal(ip, "true", goal), gv),
                                            ("no-panic+pre", fld.q_nopanic(ip, "true"), gv)], cap())
            ob.detail = f"{len(ip.ctx.panics)} MIR asserts + {len(getattr(ip.ctx, 'side', []))} callee preconditions"
            if st == "sat":
                exp = (lambda vals: ("ok", vals[0] * fld.R % fld.p)) if label == "spec" else None
                self.violation_or_inconclusive(ob, fld, op, label, res, ins, exp, f"{fld.key}.from_raw")
                return
            if st != "unsat":
                ob.set(core.INCONCLUSIVE, f"{label}: {res.raw[:200] if res else ''}")
                return
            try:
                ip2, ins2, r2, _ = fld.run_op(op)
                vectors = [[v] for v in boundary_vectors(fld, self.rnd, canonical=False)]
                tw = self.twin(ob, fld, op, ip2, ins2, fld.flat(ip2, r2), "true", vectors, n_smt=1)
            except Untranslatable:
                tw = None
            ob.vacuity = bool(tw) if tw is not None else None
            if tw is False:
                ob.set(core.INCONCLUSIVE, "vacuity twin did not agree with native")
                return
            ob.set(core.HOLDS)
        self.dec.job(work)




    # -------------------------------------------------------- byte plumbing and wide reduction (Jubjub Fr shape)
    def bytes_ops(self, fld):
        run = self.run
        p, R = fld.p, fld.R
        Rinv = pow(R, -1, p)

        def common(op, what, bound):
            return new_ob(run, f"{fld.key}/{op}", what,
                          [f"{fld.d['src']}::{op}", f"{fld.d['src']}::montgomery_reduce"], bound)

        # ---- to_bytes
        if fld.has("to_bytes"):
            ob1 = common("to_bytes", f"{fld.d['ty']}::to_bytes(a): the 32 bytes are the little-endian digits of V with V < p and "
                         f"V*2^256 = A + m*p (A the raw Montgomery limbs): canonical encoding of a/R mod p; no MIR assert "
                         f"reachable", "all 256-bit raw limb values")

            def w1(ob=ob1):
                op = "to_bytes"
                try:
                    ip, ins, r, it = fld.run_op(op, summaries=["reduce"])
                    out = fld.flat(ip, r)
                    if len(out) != 32 or len(ip.summ) != 1:
                        raise Untranslatable(f"shape: {len(out)} output leaves, {len(ip.summ)} reduce calls")
                    sm = ip.summ[0]
                except (Untranslatable, KeyError) as ex:
                    ob.set(core.INCONCLUSIVE, f"untranslatable: {ex}")
                    return
                A = MF.sum_term(ip, ins[0])
                V = MF.sum_term(ip, out, 8)
                goal = f"(and (< {V} {p}) (= (* {R} {V}) (+ {A} (* {p} {sm['m']}))) (= {sm['T']} {A}))"
                gv = [x.t for x in ins[0]]
                st, label, res = solve_all(ob, [("spec", fld.q_goal(ip, "true", goal), gv),
                                                ("no-panic+pre", fld.q_nopanic(ip, "true"), gv)], cap())
                self.finish(ob, fld, op, st, label, res, ins, lambda vals: ("ok", vals[0] * Rinv % p),
                            [[v] for v in boundary_vectors(fld, self.rnd, canonical=False)], out_bits=8)
            self.dec.job(w1)

        # ---- from_bytes
        if fld.has("from_bytes"):
            ob2 = common("from_bytes", f"{fld.d['ty']}::from_bytes(b): is_some = 1 iff value(b) < p (else 0), and the carried "
                         f"element satisfies out < p, out*2^256 = value(b)*R2 + m*p; no MIR assert reachable",
                         "all 2^256 byte strings")

            def w2(ob=ob2):
                op = "from_bytes"
                try:
                    ip, ins, r, it = fld.run_op(op, summaries=["reduce"])
                    out = fld.flat(ip, r)
                    if len(out) != fld.n + 1 or len(ip.summ) != 1:
                        raise Untranslatable(f"shape: {len(out)} output leaves, {len(ip.summ)} reduce calls")
                    sm = ip.summ[0]
                except (Untranslatable, KeyError) as ex:
                    ob.set(core.INCONCLUSIVE, f"untranslatable: {ex}")
                    return
                Bv = MF.sum_term(ip, ins[0], 8)
                O = MF.sum_term(ip, out[:fld.n])
                flag = ip.term(out[fld.n])
                goal = f"(and (= {flag} (ite (< {Bv} {p}) 1 0)) (< {O} {p}) " \
                       f"(= (* {R} {O}) (+ (* {fld.raw['R2']} {Bv}) (* {p} {sm['m']}))))"
                gv = [x.t for x in ins[0]]
                st, label, res = solve_all(ob, [("spec", fld.q_goal(ip, "true", goal), gv),
                                                ("no-panic+pre", fld.q_nopanic(ip, "true"), gv)], cap())

                def exp(vals):
                    v = vals[0]
                    return ("some", v * R % p) if v < p else ("none", None)
                self.finish(ob, fld, op, st, label, res, ins, exp,
                            [[v] for v in boundary_vectors(fld, self.rnd, canonical=False)], in_bits=8,
                            out_sel=lambda o: o[:fld.n], decode_conc=self.decode_ctoption(fld))
            self.dec.job(w2)

        # ---- from_u512 / from_bytes_wide
        for op, in_bits in (("from_u512", 64), ("from_bytes_wide", 8)):
            if not fld.has(op):
                continue
            ob3 = common(op, f"{fld.d['ty']}::{op}(x): with x = d0 + 2^256*d1, the two products handed to montgomery_reduce are "
                         f"exactly d0*R2 and d1*R3, and out < p, out = x0 + x1 or x0 + x1 - p for the two reductions' results "
                         f"(so out = (d0*R + d1*R^2) mod p given the ground facts on R2, R3); no MIR assert reachable",
                         "all 512-bit inputs")

            def w3(ob=ob3, op=op, in_bits=in_bits):
                try:
                    ip, ins, r, it = fld.run_op(op, summaries=["reduce", "add"])
                    out = fld.flat(ip, r)
                    kinds = [x["op"] for x in ip.summ]
                    if len(out) != fld.n or kinds != ["reduce", "reduce", "add"]:
                        raise Untranslatable(f"shape: {len(out)} output leaves, callee contracts used: {kinds}")
                    s0, s1, sa = ip.summ
                except (Untranslatable, KeyError) as ex:
                    ob.set(core.INCONCLUSIVE, f"untranslatable: {ex}")
                    return
                per = 256 // in_bits
                D0 = MF.sum_term(ip, ins[0][:per], in_bits)
                D1 = MF.sum_term(ip, ins[0][per:], in_bits)
                O = MF.sum_term(ip, out)
                g0 = f"(= {s0['T']} (* {fld.raw['R2']} {D0}))"
                g1 = f"(= {s1['T']} (* {fld.raw['R3']} {D1}))"
                g2 = f"(and (< {O} {p}) (or (= {O} (+ {s0['O']} {s1['O']})) (= {O} (- (+ {s0['O']} {s1['O']}) {p}))))"
                # (the add is used through its contract, proven by the `add` obligation; its precondition - both
                # reductions' results canonical - is part of the no-panic+pre query)
                gv = [x.t for x in ins[0]]
                st, label, res = solve_all(ob, [("spec", fld.q_goal(ip, "true", g0), gv),
                                                ("spec", fld.q_goal(ip, "true", g1), gv),
                                                ("spec", fld.q_goal(ip, "true", g2), gv),
                                                ("no-panic+pre", fld.q_nopanic(ip, "true"), gv)], cap())
                vecs = [0, 1, (1 << 512) - 1, p, p << 256, (p - 1) + ((p - 1) << 256), 1 << 256, (1 << 256) - 1] + \
                       [self.rnd.randrange(1 << 512) for _ in range(5)]
                self.finish(ob, fld, op, st, label, res, ins,
                            lambda vals: ("ok", ((vals[0] % (1 << 256)) * R + (vals[0] >> 256) * R * R) % p),
                            [[v] for v in vecs], in_bits=in_bits)
            self.dec.job(w3)

    def decode_ctoption(self, fld):
        def dec(ipc, rc):
            leaves = fld.flat(ipc, rc)
            val = sum(x << (64 * i) for i, x in enumerate(leaves[:fld.n]))
            return ("some", val) if leaves[fld.n] == 1 else ("none", None)
        return dec

    def finish(self, ob, fld, op, st, label, res, ins, exp, vectors, in_bits=64, out_bits=64, out_sel=None,
               decode_conc=None):
        """common tail: sat -> replay; unsat -> vacuity twin on the FULL body (no summaries) -> HOLDS"""
        if st == "sat":
            vals = None
            if res is not None:
                vals = []
                for lv in ins:
                    v = 0
                    for i, x in enumerate(lv):
                        xi = x if isinstance(x, int) else res.model.get(x.t)
                        if xi is None:
                            vals = None
                            break
                        v += xi << (in_bits * i)
                    if vals is None:
                        break
                    vals.append(v)
            if vals is None:
                ob.set(core.INCONCLUSIVE, f"{label}: sat but model incomplete")
                return
            self.replay_vals(ob, fld, op, label, res, vals, exp if label == "spec" else None)
            return
        if st != "unsat":
            ob.set(core.INCONCLUSIVE, f"{label}: {res.raw[:200] if res else ''}")
            return
        try:
            ip2, ins2, r2, _ = fld.run_op(op)
            out2 = fld.flat(ip2, r2)
            if out_sel:
                out2 = out_sel(out2)
            tw = self.twin2(ob, fld, op, ip2, ins2, out2, vectors, in_bits, out_bits, decode_conc)
        except Untranslatable as ex:
            tw = None
        ob.vacuity = bool(tw) if tw is not None else None
        if tw is False:
            ob.set(core.INCONCLUSIVE, "vacuity twin (pinned concrete inputs, full body) did not agree with native")
            return
        ob.set(core.HOLDS)

    def replay_vals(self, ob, fld, op, label, r, vals, exp_fn):
        res = self.replay_op(fld, op, vals)
        if not res:
            ob.set(core.INCONCLUSIVE, f"{label}: sat ({r.solver}) but no native replay available for {fld.key}.{op}")
            return
        exp = exp_fn(vals) if exp_fn else None
        bad = {}
        for prof, (tag, v) in res.items():
            if tag == "panic":
                bad[prof] = f"panic: {v}"
            elif tag == "err":
                continue
            elif exp is not None and (tag, v if tag != "none" else None) != exp:
                bad[prof] = f"real={tag} {MF.hexs(v) if isinstance(v, int) else v} expected={exp[0]} " \
                            f"{MF.hexs(exp[1]) if isinstance(exp[1], int) else ''}"
        if bad:
            payload = dict(engine_part="M", kind="field-kernel", field=fld.key, op=op, replay_type=fld.d["replay"],
                           replay_op=fld.d["replay_ops"][op], operands=[MF.hexs(x) for x in vals],
                           expected=[exp[0], MF.hexs(exp[1]) if isinstance(exp[1], int) else None] if exp else None,
                           observed=bad, query=label)
            path = self.run.write_replay(ob, payload)
            ob.set(core.VIOLATION, f"{fld.key}.{op}: {label} sat ({r.solver}); operands {[MF.hexs(x) for x in vals]}; {bad}",
                   replay=path)
        else:
            ob.set(core.INCONCLUSIVE, f"{label}: sat ({r.solver}) but the counterexample does not reproduce natively "
                                      f"(operands {[MF.hexs(x) for x in vals]}, real {res})")

    def twin2(self, ob, fld, op, ip, leaves_in, out_leaves, vectors, in_bits, out_bits, decode_conc, n_smt=1):
        rop = fld.d["replay_ops"].get(op)
        if rop is None or "dev" not in self.rep.bins:
            return None
        lines = [f"{fld.d['replay']} {rop} " + " ".join(MF.hexs(x) for x in v) for v in vectors]
        nat = [MF.parse_replay(l) for l in self.rep.field_batch(lines, "dev")]
        c = ip.ctx
        flat_in = [x for lv in leaves_in for x in lv]
        ok_any = False
        mask = (1 << in_bits) - 1
        for vi, (vec, (tag, nv)) in enumerate(zip(vectors, nat)):
            conc = []
            for val, lv in zip(vec, leaves_in):
                conc += [(val >> (in_bits * i)) & mask for i in range(len(lv))]
            try:
                ipc, _, rc, _ = fld.run_op(op, concrete=conc)
                if decode_conc:
                    got = decode_conc(ipc, rc)
                else:
                    got = ("ok", sum(x << (out_bits * i) for i, x in enumerate(fld.flat(ipc, rc))))
                with self.lock:
                    self.tv["concrete"] += 1
                want = (tag, nv if tag != "none" else None)
                if tag in ("ok", "some", "none") and got != want:
                    with self.lock:
                        self.tv["mismatch"].append(f"{fld.key}.{op} concrete {[MF.hexs(x) for x in vec]}: interp {got} native {want}")
            except Untranslatable as ex:
                if tag != "panic":
                    with self.lock:
                        self.tv["mismatch"].append(f"{fld.key}.{op} concrete {[MF.hexs(x) for x in vec]}: {ex}")
            if vi >= n_smt or tag not in ("ok", "some"):
                continue
            pins = " ".join(f"(= {x.t} {cv})" for x, cv in zip(flat_in, conc) if not isinstance(x, int))
            outs = [x for x in out_leaves if not isinstance(x, int)]
            smt = c.text() + f"(assert {c.path_term()})\n(assert (and {pins} true))\n"
            r = solvers.solve(smt, timeout=30, get_values=[x.t for x in outs])
            ob.queries += 1
            with self.lock:
                self.tv["smt"] += 1
            if r.status != "sat":
                with self.lock:
                    self.tv["mismatch"].append(f"{fld.key}.{op} pinned query {r.status}")
                continue
            val = 0
            for i, x in enumerate(out_leaves):
                xi = x if isinstance(x, int) else r.model.get(x.t, 0)
                val += xi << (out_bits * i)
            if val == nv:
                ok_any = True
            else:
                with self.lock:
                    self.tv["mismatch"].append(f"{fld.key}.{op} smt {[MF.hexs(x) for x in vec]}: encoding {MF.hexs(val)} native {MF.hexs(nv)}")
        return ok_any
