"""Helpers of the C08 public-input part (specs/parts/C08_P.py): extractor family `pubin`
(engines/extract/src/pubin.rs).

Instance layout of one extracted circuit (plain instance column, call order):
  "in"  rows  the VALUE CELLS of the exposed object, put there natively by the harness
              (bit / byte / native: the cell; emulated element: its limbs; foreign point: x limbs, y limbs,
              identity flag; Jubjub point: x, y; Jubjub scalar from bytes: the bytes; BigUint: its bits through
              the gadget's own to_le_bits)
  "out" rows  what the REAL chip's `constrain_as_public_input` / `assign_as_public_input` ties to the
              instance column (rows delimited with the real `NativeChip::nb_public_inputs` counter)
`committed` path: the chip's exposure is on instance column 0 (`i0_<row>`), read directly from the system.

Decided by the solver (all assignments): `Sys => Dec(out) = value(in) and Inv(out)` -- the instance vector the
exposure binds determines the value and satisfies the type's invariant; where the exposure is a function of
the value cells, `out = Enc(in)`. Concrete companions (replay-grade runs of the real code, not solver
decisions): the REAL off-circuit encoder on the object's own `value()` equals the instance of the honest run;
the number of rows the exposure consumes equals the encoder's length; every instance row is tied."""
import importlib.util, json, os, subprocess, hashlib
from concurrent.futures import ThreadPoolExecutor
from . import core, cengine, csmt, solvers
from .cspec import *

FAMILY = "pubin"
P = csmt.P_BLS


def load_spec(rel):
    path = os.path.join(core.VERIF, "specs", rel)
    name = "pubin_" + rel.replace("/", "_").replace(".py", "")
    spec = importlib.util.spec_from_file_location(name, path)
    m = importlib.util.module_from_spec(spec)
    spec.loader.exec_module(m)
    return m


# ------------------------------------------------------------------------------------------------------
# reading the harness' record
# ------------------------------------------------------------------------------------------------------
def rec(e):
    return e.extra["pubin"]


def n_expected(e):
    """length of the REAL off-circuit encoding of the exposed object's value"""
    return len(rec(e)["offcircuit_pi"] or [])


def committed_cells(e):
    return [e.v(f"i0_{r}") for r in range(int(rec(e)["committed_rows"]))]


def honest_of(e, atoms):
    hon = e.s.honest_assign()
    inv = {n: c for c, n in e.vars.items()}
    return [a if isinstance(a, int) else hon.get(inv[a], 0) for a in atoms]


def pinned(e, I, O, what=None):
    """fallback when the exposure does not have the encoder's arity (so that `Dec` cannot be stated): the
    honest vector is the vector of no other value -- O = honest(O) => I = honest(I). A counterexample is a
    second value sharing the honest value's instance vector."""
    hO, hI = honest_of(e, O), honest_of(e, I)
    target = what(e, I, hI) if what else AND(*[eq(a, b) for a, b in zip(I, hI)])
    return IMP(AND(*[eq(a, b) for a, b in zip(O, hO)]), target)


def arity_guard(spec, what=None):
    """state `spec` when the number of exposed cells is the encoder's length, else the pinned fallback; the
    mismatch itself is reported by the count obligation of the shape"""
    def sp(e, I, O):
        Oc = list(O) + committed_cells(e)
        if len(Oc) != n_expected(e):
            e.pubin_arity = (len(Oc), n_expected(e))
            return pinned(e, I, Oc, what)
        return spec(e, I, Oc)
    return sp


# ------------------------------------------------------------------------------------------------------
# specifications
# ------------------------------------------------------------------------------------------------------
def S_cell(ty, checked):
    """single-cell types: the exposed cell IS the value cell; `checked`: the type's range invariant is part
    of what the path enforces (not on assign_as_public_input of bytes: documented, the verifier binds it)"""
    def spec(e, I, O):
        inv = "true"
        if checked and ty == "bit":
            inv = isbit(I[0])
        if checked and ty == "byte":
            inv = lt(I[0], 256)
        return AND(inv, eq(O[0], I[0]))
    return arity_guard(spec)


def S_same_cells(e, I, O):
    return AND(*[eq(o, i) for o, i in zip(O, I)], "true" if len(O) == len(I) else "false")


def big_within(e, limbs, nb, lb):
    n = len(limbs)
    top = (nb - 1) % lb + 1 if nb > 0 else 0
    return AND(*[lt(l, 1 << (lb if i < n - 1 else top)) for i, l in enumerate(limbs)])


def S_biguint(e, I, O):
    """the exposed limbs are within the bounds of a normalised integer of nb_bits bits and represent the
    integer whose bits (the gadget's own to_le_bits view of the same object) are I"""
    lb = int(e.extra["log2_base"])
    nb = int(rec(e)["nb_bits"])
    if len(O) != max(1, -(-nb // lb)):
        e.pubin_arity = (len(O), max(1, -(-nb // lb)))
        return pinned(e, I, O)
    vo = e.named_sum([(1 << (lb * i), l) for i, l in enumerate(O)])
    vi = e.named_sum([(1 << j, b) for j, b in enumerate(I)])
    return AND(*[isbit(b) for b in I], big_within(e, O, nb, lb), eq(vo, vi))


def S_jjscalar_hidden(e, I, O):
    """scalar assigned by the chip (its bits are private to the type): one cell, below 2^NUM_BITS"""
    return lt(O[0], 1 << int(e.extra["scalar_num_bits"]))


def S_jjscalar_bytes(n):
    def spec(e, I, O):
        w = int(e.extra["native_num_bits"]) - 1       # bits per exposed cell (the chip's batching rule)
        assert 8 * n <= w, "shape outside the stated specification"
        return AND(*[lt(b, 256) for b in I], eq(O[0], e.named_sum([(256 ** j, b) for j, b in enumerate(I)])))
    return arity_guard(spec)


def S_jjscalar_canonical(e, I, O):
    return lt(O[0], int(e.extra["scalar_order"], 16))


def limb_int(e, limbs):
    lb = int(e.extra["log2_base"])
    return e.named_sum([(1 << (lb * i), l) for i, l in enumerate(limbs)])


def field_canonical(e, limbs):
    """the limbs are THE encoding of the residue: sum base^i limb_i = (v - 1) mod m, i.e. below m"""
    return lt(limb_int(e, limbs), int(e.extra["emulated_modulus"], 16))


def field_zero_limbs(e, limbs):
    m, lb = int(e.extra["emulated_modulus"], 16), int(e.extra["log2_base"])
    return AND(*[eq(l, ((m - 1) >> (lb * i)) & ((1 << lb) - 1)) for i, l in enumerate(limbs)])


# ------------------------------------------------------------------------------------------------------
# a fact the path documents as NOT enforced: exhibit an accepted assignment violating it (sat + exact re-check +
# replay on the real MockProver). Recorded in the detail of the main obligation; never a verdict of its own.
# ------------------------------------------------------------------------------------------------------
def witness_not_implied(op, params, ins, k, claim, timeout=30):
    try:
        system = cengine.extract(FAMILY, op, params, ins, k)
        e = csmt.Enc(system)
        e.extra = system.d.get("extra", {})
        e.encode(False)
        Iat = [e.v(c) for c in system.ins]
        Oat = [e.v(c) for c in system.outs]
        f = claim(e, Iat, Oat)
        names = sorted(set(e.vars.values()))
        r = solvers.solve(e.text([f"(assert (not {f}))"]), timeout=timeout, get_values=names)
        if r.status != "sat":
            return f"{r.status}"
        assign = {n: r.model.get(n, 0) % system.P for n in names}
        honest = system.honest_assign()
        cls_assign = {c: assign[n] for c, n in e.vars.items()}
        for c in system.used_classes():
            cls_assign.setdefault(c, honest.get(c, 0))
        if system.check_exact(cls_assign):
            return "spurious model"
        ov = cengine.overrides_from_model(system, e, assign)
        res, err = cengine.replay(FAMILY, op, params, ins, k, ov)
        if res and res.get("accepted"):
            iv = {c: hex(cls_assign.get(system.cls(c), 0)) for c in system.outs[:2]}
            return f"accepted by the real MockProver (e.g. {iv})"
        return f"not accepted: {res} {err}"
    except Exception as ex:  # noqa
        return f"error {ex!r}"


# ------------------------------------------------------------------------------------------------------
# concrete companions: off-circuit encoder vs the honest instance, arity, ties
# ------------------------------------------------------------------------------------------------------
def raw(op, params, ins, k):
    cengine.build()
    p = subprocess.run([cengine.CX] + cengine.cx_args(FAMILY, op, params, ins, k), capture_output=True, text=True)
    if p.returncode != 0:
        return None, p.stderr[-600:]
    return json.loads(p.stdout), ""


def shape_facts(d):
    """what one honest run says about encoder / arity / ties"""
    if d.get("no_circuit"):
        return []       # the library refuses the shape with an error: an acceptable treatment (counted by the caller)
    r = d["extra"]["pubin"]
    outs = [x["value"] for x in d["io"] if x["dir"] == "out"] + list(r["committed_instance"] or [])
    off = r["offcircuit_pi"]
    bad = []
    if not d["honest_verify"]:
        bad.append("honest witness rejected")
    if off is None:
        bad.append("no off-circuit encoding recorded")
    else:
        if len(off) != len(outs):
            bad.append(f"arity: the exposure ties {len(outs)} instance cells, the off-circuit encoder emits {len(off)}")
        elif off != outs:
            k_ = next(i for i, (a, b) in enumerate(zip(off, outs)) if a != b)
            bad.append(f"position {k_}: circuit binds {outs[k_]}, encoder gives {off[k_]}")
    if r["untied"] or r["tied_plain_rows"] != r["counter_rows"]:
        bad.append(f"instance rows not tied: {r['untied']} tied={r['tied_plain_rows']} counter={r['counter_rows']}")
    return bad


def encoder_ob(run, oid, key, what, functions, cases, k=11, workers=6, bound="", variant=None):
    """cases: [(op, params, ins)] -- every honest run must verify, bind exactly the REAL off-circuit encoding
    of the exposed object's value, consume as many rows as the encoder emits, and tie every row"""
    ob = core.Ob(oid, "C", what, functions=functions, bound=bound or f"{len(cases)} concrete runs", key=key)
    run.add(ob)
    only = getattr(run, "only", None)
    if only and only not in oid:
        ob.set(core.HOLDS, "skipped by --only")
        ob.nontrivial = False
        return ob
    ob.nontrivial = False

    def one(c):
        d, err = raw(c[0], c[1], c[2], k)
        if d is None:
            import re as _re
            m_ = _re.search(r"panicked at ([^\s:]+):(\d+)", err)
            if m_ and os.path.abspath(m_.group(1)).startswith(os.path.abspath(core.REPO) + "/"):
                return (c, ["the real synthesis / witness generation / encoder panics: " + err[err.find("panicked at"):][:200]])
            return (c, None, err)
        if d.get("no_circuit"):
            refused.append(str(d.get("extra", {}).get("synth_err"))[:160])
        return (c, shape_facts(d))
    refused = []
    try:
        with ThreadPoolExecutor(workers) as ex:
            res = list(ex.map(one, cases))
        errs = [r for r in res if len(r) == 3]
        if errs:
            return ob.set(core.INCONCLUSIVE, f"extraction failed: {errs[0][0][:2]} {errs[0][2][-300:]}")
        bad = [(c, b) for c, b in res if b]
        ob.queries = len(cases)
        if bad:
            c0, b0 = bad[0]
            if variant:
                # role of the finding: only when EVERY failing run is of that class (so that a listed known finding
                # never hides a different failure of the same shapes)
                sfx = {variant(c, b) for c, b in bad}
                if len(sfx) == 1 and None not in sfx:
                    ob.key = f"{key}:{sfx.pop()}"
            path = run.write_replay(ob, dict(kind="pubin-encoder", engine_part="P", k=k,
                                             cases=[dict(op=c[0], params=c[1], ins=[hex(x) for x in c[2]], facts=b) for c, b in bad[:8]]))
            return ob.set(core.VIOLATION, f"{len(bad)}/{len(cases)} honest runs: {c0[0]} {cengine.pstr(c0[1])} in={[hex(x)[:20] for x in c0[2]]}: {b0[0]}", replay=path)
        return ob.set(core.HOLDS, f"{len(cases)} concrete honest runs" + (f"; {len(refused)} shapes refused by the library with an error ({refused[0]})" if refused else ""))
    except Exception as ex:  # noqa
        return ob.set(core.INCONCLUSIVE, repr(ex))


def replay_encoder(payload):
    n = 0
    for c in payload["cases"]:
        d, err = raw(c["op"], c["params"], [int(x, 16) for x in c["ins"]], payload.get("k", 11))
        if d is None:
            print("extraction:", err[-200:])
            n += "panicked" in err
            continue
        b = shape_facts(d)
        print(c["op"], c["params"], c["ins"][:3], "->", b)
        n += bool(b)
    return 1 if n else 0


# ------------------------------------------------------------------------------------------------------
# ZKIR programs: nb_public_inputs in the MidnightVK vs len(public_inputs(...)) vs rows tied by the circuit
# ------------------------------------------------------------------------------------------------------
PROGDIR = os.path.join(core.BUILD, "pubin", "zkir")


def write_prog(p):
    os.makedirs(PROGDIR, exist_ok=True)
    s = json.dumps(p, sort_keys=True)
    path = os.path.join(PROGDIR, hashlib.sha256(s.encode()).hexdigest()[:16] + ".json")
    with open(path, "w") as f:
        f.write(s)
    return path


def zkir_vk(prog):
    cengine.build()
    p = subprocess.run([cengine.CX, FAMILY, "op=zkir_vk", f"p.prog={write_prog(prog)}"], capture_output=True, text=True)
    if p.returncode != 0:
        import re as _re
        m_ = _re.search(r"panicked at ([^\s:]+):(\d+)[^\n]*\n([^\n]*)", p.stderr)
        if m_ and os.path.abspath(m_.group(1)).startswith(os.path.abspath(core.REPO) + "/"):
            # no circuit / no key: the compile step of the real stack panics (e.g. a synthesis error unwrapped by the
            # cost model inside MidnightCircuit::new)
            return {"rejected_at": "panic", "error": f"panicked at {os.path.relpath(m_.group(1), core.REPO)}:{m_.group(2)}: {m_.group(3)[:200]}"}, ""
        return None, p.stderr[-600:]
    return json.loads(p.stdout), ""


def zkir_facts(d, may_refuse=False):
    bad = []
    if "rejected_at" in d:
        return [] if may_refuse else [f"program refused at {d['rejected_at']}: {d.get('error')}"]
    if not (d["nb_public_inputs_vk"] == d["len_format_instance"] == d["tied_plain_rows"]):
        bad.append(f"nb_public_inputs recorded in the MidnightVK = {d['nb_public_inputs_vk']}, rows tied by the circuit = {d['tied_plain_rows']}, "
                   f"length of format_instance(public_inputs(..)) = {d['len_format_instance']} (verify() insists on the first being the last)")
    elif d["offcircuit_instance"] != d["honest_instance"]:
        bad.append("off-circuit instance differs from the instance the honest witness implies")
    if not d["honest_verify_with_offcircuit_instance"] and not bad:
        bad.append("honest witness rejected with the off-circuit instance")
    return bad


# ------------------------------------------------------------------------------------------------------
# the honest run itself violates the specification (cengine.decide reports a failed vacuity twin)
# ------------------------------------------------------------------------------------------------------
def honest_violations(run, n_before, ents):
    """For obligations left INCONCLUSIVE by a failed vacuity twin: when the real MockProver accepts the honest
    witness, the honest values satisfy the encoded system (sat) and contradict the specification (unsat), the
    real chip's own output violates the specification: VIOLATION whose replay is the honest run."""
    by_id = {f"{FAMILY}/{en['op']}[{cengine.pstr(en['params'])}]": en for en in ents}
    for ob in run.obs[n_before:]:
        if ob.status != core.INCONCLUSIVE or "vacuity twin" not in ob.detail or ob.id not in by_id or by_id[ob.id].get("ff"):
            continue
        en = by_id[ob.id]
        try:
            system = cengine.extract(FAMILY, en["op"], en["params"], en["ins"], en["k"])
            if not system.d["honest_verify"]:
                continue
            e = csmt.Enc(system)
            e.extra = system.d.get("extra", {})
            e.encode(en.get("monomial", False))
            Iat, Oat = [e.v(c) for c in system.ins], [e.v(c) for c in system.outs]
            f = en["spec"](e, Iat, Oat)
            honest = system.honest_assign()
            hon = e.exact_atoms({n_: honest.get(c_, 0) for c_, n_ in e.vars.items()})
            pins = [f"(assert (= {n_} {v_}))" for n_, v_ in hon.items()]
            r1 = solvers.solve(e.text(pins + [f"(assert {f})"]), timeout=30)
            r2 = solvers.solve(e.text(pins), timeout=30)
            ob.queries += 2
            if r1.status == "unsat" and r2.status == "sat":
                iv = {c_: hex(honest.get(system.cls(c_), system.const.get(system.cls(c_), 0))) for c_ in system.ins + system.outs}
                ob.key = ob.key + ":honest-output-violates-spec"
                path = run.write_replay(ob, dict(kind="honest-output-violates-spec", engine_part="P", instance=iv,
                                                 cx=cengine.cx_args(FAMILY, en["op"], en["params"], en["ins"], en["k"]),
                                                 note="the real chip's own witness generation produces this instance, the real MockProver accepts it, and it violates the specification (solver: honest values + encoding + specification unsat, honest values + encoding sat)"))
                ob.set(core.VIOLATION, f"{en['op']}: the honest run of the real chip is accepted with instance {iv}, which violates the specification", replay=path)
                run.log(f"{ob.status:12s} {ob.id} {ob.detail[:160]}")
        except Exception as ex:  # noqa
            ob.detail += f" (honest-violation check failed: {ex!r})"


def V_wide_scalar(case, facts):
    """class of the Jubjub-scalar finding: a scalar of 8n > 254 bits is exposed as ceil(8n / 254) cells of
    unreduced bits while the off-circuit encoder emits the one cell of the reduced scalar"""
    op, params, ins = case
    n = int(params.get("n", 0))
    want = f"arity: the exposure ties {-(-8 * n // 254)} instance cells, the off-circuit encoder emits 1"
    return "unreduced-bits-exposed" if params.get("src") == "bytes" and 8 * n > 254 and facts == [want] else None


def V_wide_scalar_zkir(facts):
    return "unreduced-bits-exposed" if len(facts) == 1 and facts[0].startswith(
        "nb_public_inputs recorded in the MidnightVK = 2, rows tied by the circuit = 2, length of format_instance(public_inputs(..)) = 1 ") else None


def S_jjscalar_wide(n):
    """scalar built from n bytes with 8n bits exceeding one cell: the exposure packs consecutive chunks of w bits,
    one per cell (w = the chip's batching width, recovered from the honest run: the only width whose chunking
    reproduces the honest instance modulo p). Claim: every exposed cell equals the INTEGER value of its chunk (so the
    chunk value is below p, nothing wraps) and the bytes are bytes; hence the cells determine every bit of the scalar."""
    def spec(e, I, O):
        P_ = e.P
        hI, hO = honest_of(e, I), honest_of(e, O)
        N = sum(b << (8 * i) for i, b in enumerate(hI))
        k = len(O)
        ws = [w for w in range(1, 8 * n + 1) if -(-8 * n // w) == k and
              all(((N >> (w * j)) & ((1 << w) - 1)) % P_ == hO[j] for j in range(k))]
        if len(ws) != 1:
            raise NotImplementedError(f"batching width of the scalar exposure not identifiable from the honest run: {ws[:4]}")
        w = ws[0]
        e.pubin_width = w
        bits = []
        for b in I:
            bits += bits_of(e, b, 8, lt(b, 256))
        claims = [lt(b, 256) for b in I]
        for j in range(k):
            chunk = bits[w * j: w * (j + 1)]
            claims.append(eq(O[j], e.named_sum([(1 << t, c) for t, c in enumerate(chunk)])))
        return AND(*claims)
    return spec
