"""Engine M, part 1: produce the MIR text of a crate from a scratch copy of core.REPO and parse it.

The dump is regenerated on EVERY run (nothing is cached across runs): the tree is copied (without
target/ and .git) to a scratch directory, `cargo +nightly rustc -Zunpretty=mir` is run there, the
scratch directory (with its target dir) is deleted, and the MIR text is kept under
/verif/build/mir/ for the duration of the run only (removed by `cleanup()` / atexit).

The parser understands the textual MIR of the loop-free integer fragment (see mir2smt.py); a body
that contains something it cannot parse is kept with `unparsed` set, which makes every obligation
that needs it INCONCLUSIVE (never silently skipped)."""
import os, re, shutil, subprocess, tempfile, atexit, time

from vf import core

MIR_DIR = os.path.join(core.BUILD, "mir")


# --------------------------------------------------------------------------------------------
# dump
# --------------------------------------------------------------------------------------------
def dump_mir(package="midnight-curves", features=("dev-curves",), log=print):
    """Returns (path_of_mir_text, seconds). Raises RuntimeError on failure."""
    os.makedirs(MIR_DIR, exist_ok=True)
    out = os.path.join(MIR_DIR, f"{package}.{os.getpid()}.mir")
    scratch = tempfile.mkdtemp(prefix=f"verif-M-{os.getpid()}-", dir="/tmp")
    t0 = time.time()
    try:
        src = os.path.abspath(core.REPO)
        dst = os.path.join(scratch, "repo")
        shutil.copytree(src, dst, symlinks=True,
                        ignore=lambda d, names: [n for n in names if n in ("target", ".git")])
        cmd = ["cargo", "+nightly", "rustc", "--offline", "--lib", "-p", package]
        if features:
            cmd += ["--features", ",".join(features)]
        cmd += ["--", "-Zunpretty=mir", "-C", "debug-assertions=off", "-C", "overflow-checks=on",
                "-Ztrim-diagnostic-paths=no"]
        env = dict(os.environ, CARGO_NET_OFFLINE="true", CARGO_TARGET_DIR=os.path.join(scratch, "target"))
        with open(out, "w") as f:
            p = subprocess.run(cmd, cwd=dst, stdout=f, stderr=subprocess.PIPE, text=True, env=env, timeout=900)
        if p.returncode != 0:
            raise RuntimeError("MIR dump failed: " + p.stderr[-1500:])
    finally:
        shutil.rmtree(scratch, ignore_errors=True)
    atexit.register(lambda: os.path.exists(out) and os.remove(out))
    return out, time.time() - t0


# --------------------------------------------------------------------------------------------
# small lexical helpers
# --------------------------------------------------------------------------------------------
OPEN, CLOSE = "([{", ")]}"


def split_top(s, sep=","):
    """Split at top-level separators (outside () [] {} <> and string literals)."""
    out, depth, cur, i, n = [], 0, [], 0, len(s)
    angle = 0
    while i < n:
        c = s[i]
        if c == '"':
            j = i + 1
            while j < n and s[j] != '"':
                j += 2 if s[j] == "\\" else 1
            cur.append(s[i:j + 1])
            i = j + 1
            continue
        if c in OPEN:
            depth += 1
        elif c in CLOSE:
            depth -= 1
        elif c == "<":
            angle += 1
        elif c == ">" and i > 0 and s[i - 1] != "-" and angle > 0:
            angle -= 1
        if c == sep and depth == 0 and angle == 0:
            out.append("".join(cur).strip())
            cur = []
        else:
            cur.append(c)
        i += 1
    last = "".join(cur).strip()
    if last or out:
        out.append(last)
    return [x for x in out if x != ""]


def find_top(s, pat, start=0):
    """Index of first occurrence of `pat` at bracket depth 0 (strings skipped), or -1."""
    depth, i, n = 0, start, len(s)
    while i < n:
        c = s[i]
        if c == '"':
            j = i + 1
            while j < n and s[j] != '"':
                j += 2 if s[j] == "\\" else 1
            i = j + 1
            continue
        if depth == 0 and s.startswith(pat, i):
            return i
        if c in OPEN:
            depth += 1
        elif c in CLOSE:
            depth -= 1
        i += 1
    return -1


def strip_lifetimes(t):
    t = re.sub(r"'[A-Za-z_][A-Za-z0-9_]*\s*", "", t)
    t = re.sub(r"for<>\s*", "", t)
    return t.strip()


# --------------------------------------------------------------------------------------------
# types
# --------------------------------------------------------------------------------------------
INT_TYPES = {}
for _b in (8, 16, 32, 64, 128):
    INT_TYPES[f"u{_b}"] = (_b, False)
    INT_TYPES[f"i{_b}"] = (_b, True)
INT_TYPES["usize"] = (64, False)
INT_TYPES["isize"] = (64, True)


class Ty:
    __slots__ = ("kind", "name", "args", "n", "s")

    def __init__(self, kind, name=None, args=(), n=None, s=""):
        self.kind, self.name, self.args, self.n, self.s = kind, name, tuple(args), n, s

    def __repr__(self):
        return self.s

    @property
    def bits(self):
        return INT_TYPES[self.name][0]

    @property
    def signed(self):
        return INT_TYPES[self.name][1]


_ty_cache = {}


def parse_ty(s):
    s = strip_lifetimes(s.strip())
    t = _ty_cache.get(s)
    if t is None:
        t = _ty_cache[s] = _parse_ty(s)
    return t


def _parse_ty(s):
    if s in INT_TYPES:
        return Ty("int", s, s=s)
    if s == "bool":
        return Ty("bool", s=s)
    if s == "()":
        return Ty("unit", s=s)
    if s == "!":
        return Ty("never", s=s)
    if s.startswith("&mut "):
        return Ty("ref", args=[parse_ty(s[5:])], s=s)
    if s.startswith("&"):
        return Ty("ref", args=[parse_ty(s[1:])], s=s)
    if s.startswith("*const ") or s.startswith("*mut "):
        return Ty("ptr", args=[parse_ty(s.split(" ", 1)[1])], s=s)
    if s.startswith("[") and s.endswith("]"):
        inner = s[1:-1]
        k = find_top_semicolon(inner)
        if k < 0:
            return Ty("slice", args=[parse_ty(inner)], s=s)
        el, n = inner[:k].strip(), inner[k + 1:].strip()
        try:
            n = int(n)
        except ValueError:
            n = None
        return Ty("array", args=[parse_ty(el)], n=n, s=s)
    if s.startswith("(") and s.endswith(")"):
        parts = split_top(s[1:-1])
        return Ty("tuple", args=[parse_ty(p) for p in parts], s=s)
    return Ty("adt", name=s, s=s)


def find_top_semicolon(s):
    depth = 0
    angle = 0
    for i, c in enumerate(s):
        if c in OPEN:
            depth += 1
        elif c in CLOSE:
            depth -= 1
        elif c == "<":
            angle += 1
        elif c == ">" and angle > 0 and s[i - 1] != "-":
            angle -= 1
        elif c == ";" and depth == 0 and angle == 0:
            return i
    return -1


# --------------------------------------------------------------------------------------------
# AST
# --------------------------------------------------------------------------------------------
class Place:
    """base local + projections: ('deref',), ('field', i, ty_str), ('index', local), ('cindex', i, n),
    ('downcast', name), ('subslice', a, b, from_end)"""
    __slots__ = ("local", "proj")

    def __init__(self, local, proj=()):
        self.local, self.proj = local, tuple(proj)

    def __repr__(self):
        return f"_{self.local}{list(self.proj) if self.proj else ''}"


class ParseError(Exception):
    pass


class _P:
    def __init__(self, s):
        self.s, self.i = s, 0

    def peek(self, k=1):
        return self.s[self.i:self.i + k]

    def eat(self, t):
        if not self.s.startswith(t, self.i):
            raise ParseError(f"expected {t!r} at {self.i} in {self.s!r}")
        self.i += len(t)

    def done(self):
        return self.i >= len(self.s)


def parse_place(s):
    p = _P(s.strip())
    pl = _place(p)
    if not p.done():
        raise ParseError(f"trailing {p.s[p.i:]!r} in place {s!r}")
    return pl


def _skip_type(p):
    """advance to the ')' that closes the current parenthesis (depth 0)"""
    depth = 0
    s = p.s
    while p.i < len(s):
        c = s[p.i]
        if c in "([{":
            depth += 1
        elif c in ")]}":
            if depth == 0:
                return
            depth -= 1
        p.i += 1
    raise ParseError("unterminated type in place " + s)


def _place(p):
    if p.peek() == "(":
        p.eat("(")
        if p.peek() == "*":
            p.eat("*")
            inner = _place(p)
            p.eat(")")
            pl = Place(inner.local, inner.proj + (("deref",),))
        else:
            inner = _place(p)
            if p.peek() == ".":
                p.eat(".")
                m = re.match(r"\d+", p.s[p.i:])
                if not m:
                    raise ParseError("field index expected in " + p.s)
                idx = int(m.group(0))
                p.i += len(m.group(0))
                p.eat(": ")
                st = p.i
                _skip_type(p)
                ty = p.s[st:p.i]
                p.eat(")")
                pl = Place(inner.local, inner.proj + (("field", idx, ty),))
            elif p.peek(4) == " as ":
                p.eat(" as ")
                st = p.i
                _skip_type(p)
                name = p.s[st:p.i]
                p.eat(")")
                pl = Place(inner.local, inner.proj + (("downcast", name),))
            else:
                raise ParseError("bad parenthesised place " + p.s)
    else:
        m = re.match(r"_(\d+)", p.s[p.i:])
        if not m:
            raise ParseError("local expected in " + p.s + f" at {p.i}")
        p.i += len(m.group(0))
        pl = Place(int(m.group(1)))
    while not p.done() and p.peek() == "[":
        j = p.s.index("]", p.i)
        inner = p.s[p.i + 1:j]
        p.i = j + 1
        m = re.fullmatch(r"_(\d+)", inner)
        if m:
            pl = Place(pl.local, pl.proj + (("index", int(m.group(1))),))
            continue
        m = re.fullmatch(r"(-?)(\d+) of (\d+)", inner)
        if m:
            pl = Place(pl.local, pl.proj + (("cindex", int(m.group(2)), int(m.group(3)), bool(m.group(1))),))
            continue
        m = re.fullmatch(r"(\d+):(-?)(\d+)", inner)
        if m:
            pl = Place(pl.local, pl.proj + (("subslice", int(m.group(1)), int(m.group(3)), bool(m.group(2))),))
            continue
        raise ParseError("bad index projection " + inner)
    return pl


class Operand:
    """kind: 'copy' | 'move' (place) | 'const' (lit)"""
    __slots__ = ("kind", "place", "const")

    def __init__(self, kind, place=None, const=None):
        self.kind, self.place, self.const = kind, place, const

    def __repr__(self):
        return f"{self.kind} {self.place if self.place is not None else self.const}"


class Const:
    """kind: 'int' (value, ty) | 'bool' | 'unit' | 'str' | 'named' (path) | 'char' | 'bytes'"""
    __slots__ = ("kind", "value", "ty", "text")

    def __init__(self, kind, value=None, ty=None, text=""):
        self.kind, self.value, self.ty, self.text = kind, value, ty, text

    def __repr__(self):
        return f"const {self.text}"


_INT_LIT = re.compile(r"^(-?\d+)_(u8|u16|u32|u64|u128|usize|i8|i16|i32|i64|i128|isize)$")
_MINMAX = re.compile(r"^(u8|u16|u32|u64|u128|usize|i8|i16|i32|i64|i128|isize)::(MAX|MIN)$")


def parse_const(text):
    t = text.strip()
    m = _INT_LIT.match(t)
    if m:
        return Const("int", int(m.group(1)), m.group(2), t)
    m = _MINMAX.match(t)
    if m:
        bits, signed = INT_TYPES[m.group(1)]
        if m.group(2) == "MAX":
            v = (1 << (bits - 1)) - 1 if signed else (1 << bits) - 1
        else:
            v = -(1 << (bits - 1)) if signed else 0
        return Const("int", v, m.group(1), t)
    if t in ("true", "false"):
        return Const("bool", t == "true", "bool", t)
    if t == "()":
        return Const("unit", None, "()", t)
    if t.startswith('"'):
        return Const("str", t[1:-1], "&str", t)
    if t.startswith('b"'):
        return Const("bytes", t, None, t)
    if t.startswith("'"):
        return Const("char", t, "char", t)
    return Const("named", strip_lifetimes(t), None, t)


def parse_operand(s):
    s = s.strip()
    if s.startswith("no_retag "):
        s = s[9:]
    if s.startswith("copy "):
        return Operand("copy", place=parse_place(s[5:]))
    if s.startswith("move "):
        return Operand("move", place=parse_place(s[5:]))
    if s.startswith("const "):
        return Operand("const", const=parse_const(s[6:]))
    raise ParseError("operand? " + s)


BINOPS = {"Add", "Sub", "Mul", "Div", "Rem", "BitAnd", "BitOr", "BitXor", "Shl", "Shr", "Eq", "Ne", "Lt", "Le",
          "Gt", "Ge", "AddWithOverflow", "SubWithOverflow", "MulWithOverflow", "AddUnchecked", "SubUnchecked",
          "MulUnchecked", "ShlUnchecked", "ShrUnchecked", "Offset", "Cmp"}
UNOPS = {"Not", "Neg", "PtrMetadata"}


class Rv:
    """rvalue. kind: use, ref, binop, unop, cast, array, repeat, tuple, adt, discriminant, len, unknown"""
    __slots__ = ("kind", "a", "b", "op", "ty", "name", "fields", "text", "mut")

    def __init__(self, kind, **kw):
        self.kind = kind
        for k in ("a", "b", "op", "ty", "name", "fields", "text", "mut"):
            setattr(self, k, kw.get(k))

    def __repr__(self):
        return f"Rv({self.kind} {self.text})"


def parse_rvalue(s):
    s = s.strip()
    # references
    for pre, mut in (("&mut ", True), ("&raw const ", False), ("&raw mut ", True), ("&", False)):
        if s.startswith(pre):
            rest = s[len(pre):]
            if rest.startswith("(fake shallow) ") or rest.startswith("fake "):
                rest = rest.split(") ", 1)[1] if rest.startswith("(") else rest.split(" ", 1)[1]
            try:
                return Rv("ref", a=parse_place(rest), mut=mut, text=s)
            except ParseError:
                break
    m = re.match(r"^([A-Z][A-Za-z]*)\((.*)\)$", s)
    if m and m.group(1) in BINOPS:
        parts = split_top(m.group(2))
        if len(parts) == 2:
            return Rv("binop", op=m.group(1), a=parse_operand(parts[0]), b=parse_operand(parts[1]), text=s)
    if m and m.group(1) in UNOPS:
        return Rv("unop", op=m.group(1), a=parse_operand(m.group(2)), text=s)
    if s.startswith("discriminant(") and s.endswith(")"):
        return Rv("discriminant", a=parse_place(s[13:-1]), text=s)
    if s.startswith("Len(") and s.endswith(")"):
        return Rv("len", a=parse_place(s[4:-1]), text=s)
    # cast:  OPERAND as TYPE (Kind)
    m = re.match(r"^(.*) as (.*) \(([A-Za-z]+(?:\([A-Za-z, _]*\))?(?:, [A-Za-z]+)?)\)$", s)
    if m and (m.group(1).startswith(("copy ", "move ", "const "))):
        try:
            return Rv("cast", a=parse_operand(m.group(1)), ty=m.group(2), op=m.group(3), text=s)
        except ParseError:
            pass
    if s.startswith(("copy ", "move ", "const ", "no_retag ")):
        try:
            return Rv("use", a=parse_operand(s), text=s)
        except ParseError:
            pass
    if s.startswith("[") and s.endswith("]"):
        inner = s[1:-1]
        k = find_top_semicolon(inner)
        if k >= 0:
            cnt = inner[k + 1:].strip()
            mm = re.fullmatch(r"(?:const )?(\d+)(?:_usize)?", cnt)
            if mm:
                return Rv("repeat", a=parse_operand(inner[:k]), op=int(mm.group(1)), text=s)
            return Rv("unknown", text=s)
        return Rv("array", fields=[parse_operand(x) for x in split_top(inner)], text=s)
    if s.startswith("(") and s.endswith(")"):
        return Rv("tuple", fields=[parse_operand(x) for x in split_top(s[1:-1])], text=s)
    # struct literal  Path { f: op, ... }   /   tuple-struct or enum variant  Path(op, ...)
    if s.endswith("}"):
        k = find_top(s, " {")
        if k > 0:
            name = s[:k].strip()
            inner = s[k + 2:-1].strip()
            fields = []
            for part in split_top(inner):
                kk = part.index(": ")
                fields.append((part[:kk].strip(), parse_operand(part[kk + 2:])))
            return Rv("adt", name=strip_lifetimes(name), fields=fields, op="struct", text=s)
    if s.endswith(")"):
        # last top-level parenthesis group
        k = _last_group(s)
        if k > 0:
            name = s[:k].strip()
            try:
                fields = [(str(i), parse_operand(x)) for i, x in enumerate(split_top(s[k + 1:-1]))]
                return Rv("adt", name=strip_lifetimes(name), fields=fields, op="tuple", text=s)
            except ParseError:
                pass
    # unit-like adt / enum variant without payload, e.g. `std::option::Option::<T>::None`
    if re.match(r"^[A-Za-z_<]", s) and "(" not in s.split("::")[-1]:
        return Rv("adt", name=strip_lifetimes(s), fields=[], op="unit", text=s)
    return Rv("unknown", text=s)


def _last_group(s):
    """index of the '(' whose matching ')' is the last char of s, at depth 0; -1 if none"""
    depth, i, n = 0, 0, len(s)
    start = -1
    while i < n:
        c = s[i]
        if c == '"':
            j = i + 1
            while j < n and s[j] != '"':
                j += 2 if s[j] == "\\" else 1
            i = j + 1
            continue
        if c in OPEN:
            if depth == 0 and c == "(":
                start = i
            depth += 1
        elif c in CLOSE:
            depth -= 1
            if depth == 0 and i != n - 1:
                start = -1
        i += 1
    return start


class Stmt:
    __slots__ = ("kind", "place", "rv", "text", "n")

    def __init__(self, kind, place=None, rv=None, text="", n=None):
        self.kind, self.place, self.rv, self.text, self.n = kind, place, rv, text, n


class Term:
    """kind: goto(target) return unreachable switch(op, cases, otherwise) assert(cond, negate, msg, target)
    call(dest, func, args, target) drop(target) resume"""
    __slots__ = ("kind", "target", "op", "cases", "otherwise", "negate", "msg", "dest", "func", "args", "text")

    def __init__(self, kind, **kw):
        self.kind = kind
        for k in ("target", "op", "cases", "otherwise", "negate", "msg", "dest", "func", "args", "text"):
            setattr(self, k, kw.get(k))


IGNORED_STMT = ("StorageLive(", "StorageDead(", "nop", "FakeRead(", "PlaceMention(", "AscribeUserType(", "Retag(",
                "ConstEvalCounter", "Coverage::", "BackwardIncompatibleDropHint(")


def parse_line(line):
    """returns Stmt or Term"""
    s = line.strip()
    if s.endswith(";"):
        s = s[:-1]
    for ig in IGNORED_STMT:
        if s.startswith(ig):
            return Stmt("nop", text=s)
    if s.startswith("goto -> "):
        return Term("goto", target=int(s[len("goto -> bb"):]), text=s)
    if s == "return":
        return Term("return", text=s)
    if s == "unreachable":
        return Term("unreachable", text=s)
    if s.startswith("resume") or s.startswith("terminate") or s.startswith("abort"):
        return Term("resume", text=s)
    if s.startswith("falseEdge -> [real: bb"):
        m = re.match(r"falseEdge -> \[real: bb(\d+)", s)
        return Term("goto", target=int(m.group(1)), text=s)
    if s.startswith("falseUnwind -> [real: bb"):
        m = re.match(r"falseUnwind -> \[real: bb(\d+)", s)
        return Term("goto", target=int(m.group(1)), text=s)
    if s.startswith("switchInt("):
        k = s.rindex(") -> [")
        op = parse_operand(s[len("switchInt("):k])
        cases, otherwise = [], None
        for part in s[k + 6:-1].split(", "):
            a, b = part.split(": ")
            if a == "otherwise":
                otherwise = int(b[2:])
            else:
                cases.append((int(re.sub(r"_[iu]\w+$", "", a)), int(b[2:])))
        return Term("switch", op=op, cases=cases, otherwise=otherwise, text=s)
    if s.startswith("assert("):
        k = s.rindex(") -> ")
        inner = split_top(s[len("assert("):k])
        cond = inner[0]
        neg = cond.startswith("!")
        if neg:
            cond = cond[1:]
        m = re.search(r"success: bb(\d+)", s[k:])
        return Term("assert", op=parse_operand(cond), negate=neg, msg=inner[1] if len(inner) > 1 else "",
                    args=inner[2:], target=int(m.group(1)), text=s)
    if s.startswith("drop("):
        m = re.search(r"return: bb(\d+)", s)
        return Term("drop", target=int(m.group(1)) if m else None, text=s)
    k = find_top(s, " = ")
    if k < 0:
        if s.startswith("discriminant("):
            raise ParseError("set-discriminant: " + s)
        # call without destination?  (never happens in MIR: calls always assign)
        raise ParseError("statement? " + s)
    lhs, rhs = s[:k], s[k + 3:]
    if lhs.startswith("discriminant("):
        return Stmt("setdiscr", place=parse_place(lhs[13:-1]), n=int(rhs), text=s)
    if lhs.startswith("Deinit("):
        return Stmt("nop", text=s)
    # call terminator?
    kk = rhs.rfind(") -> ")
    if kk >= 0 and (rhs[kk + 5:].startswith("[return: bb") or rhs[kk + 5:].startswith("unwind") or
                    rhs[kk + 5:].startswith("[unwind")):
        callexpr = rhs[:kk + 1]
        g = _last_group(callexpr)
        if g < 0:
            raise ParseError("call? " + s)
        func = callexpr[:g].strip()
        args = [parse_operand(x) for x in split_top(callexpr[g + 1:-1])]
        m = re.search(r"return: bb(\d+)", rhs[kk:])
        return Term("call", dest=parse_place(lhs), func=strip_lifetimes(func), args=args,
                    target=int(m.group(1)) if m else None, text=s)
    return Stmt("assign", place=parse_place(lhs), rv=parse_rvalue(rhs), text=s)


class Block:
    __slots__ = ("stmts", "term", "cleanup")

    def __init__(self):
        self.stmts, self.term, self.cleanup = [], None, False


class Item:
    """One MIR body."""

    def __init__(self, kind, path, header):
        self.kind = kind            # fn | const | static | promoted
        self.path = path            # full printed path
        self.header = header
        self.params = []            # [(local, Ty)]
        self.ret = None
        self.locals = {}            # local -> Ty
        self.blocks = {}
        self.ctfe = False
        self.value_text = None      # for one-line consts:  const X: T = const V;
        self.unparsed = None        # reason
        self.lines = (0, 0)

    @property
    def name(self):
        return self.path.rsplit("::", 1)[-1] if not self.path.endswith("]") else self.path

    def __repr__(self):
        return f"<{self.kind} {self.path}>"


_FN_HDR = re.compile(r"^fn (.*)$")


def parse_items(text):
    """Returns list of Item (bodies parsed lazily would save time, but the file is only ~150k lines)."""
    items = []
    lines = text.split("\n")
    i, n = 0, len(lines)
    ctfe_next = False
    while i < n:
        ln = lines[i]
        if ln.startswith("// MIR FOR CTFE"):
            ctfe_next = True
            i += 1
            continue
        if ln.startswith("fn ") or ln.startswith("const ") or ln.startswith("static "):
            j = i
            if ln.rstrip().endswith("{"):
                j = i + 1
                while j < n and lines[j] != "}":
                    j += 1
                body = lines[i + 1:j]
            else:
                body = None
            it = _parse_item(ln, body)
            it.ctfe = ctfe_next
            it.lines = (i + 1, j + 1)
            ctfe_next = False
            items.append(it)
            i = j + 1
            continue
        i += 1
    return items


def _parse_item(hdr, body):
    if hdr.startswith("fn "):
        h = hdr[3:].rstrip()
        assert h.endswith("{")
        h = h[:-1].rstrip()
        k = h.find("(_1: ")
        if k < 0:
            k = h.rfind("() -> ")
        path = h[:k]
        rest = h[k:]
        g = find_top(rest, " -> ")
        params_s = rest[1:g - 1] if g >= 0 else rest[1:-1]
        it = Item("fn", strip_lifetimes(path), hdr)
        for p in split_top(params_s):
            m = re.match(r"_(\d+): (.*)$", p)
            it.params.append((int(m.group(1)), parse_ty(m.group(2))))
        it.ret = parse_ty(rest[g + 4:]) if g >= 0 else parse_ty("()")
    else:
        kind = "const" if hdr.startswith("const ") else "static"
        h = hdr[len(kind) + 1:].rstrip()
        if kind == "static" and h.startswith("mut "):
            h = h[4:]
        k = find_top(h, " = ")
        left, right = h[:k], h[k + 3:]
        kk = _path_type_split(left)
        path, ty = left[:kk], left[kk + 2:]
        it = Item("promoted" if re.search(r"promoted\[\d+\]$", path) else kind, strip_lifetimes(path), hdr)
        it.ret = parse_ty(ty)
        if body is None:
            v = right.rstrip(";").strip()
            it.value_text = v[6:] if v.startswith("const ") else v
            return it
    try:
        _parse_body(it, body)
    except (ParseError, ValueError, AttributeError, IndexError) as ex:
        it.unparsed = f"{type(ex).__name__}: {ex}"
    return it


def _path_type_split(left):
    """`PATH: TYPE` -> index of the ': ' that separates them (paths contain `<impl at f:1:2: 3:4>`)."""
    depth = 0
    for i, c in enumerate(left):
        if c in "<([{":
            depth += 1
        elif c in ">)]}" and not (c == ">" and i > 0 and left[i - 1] == "-"):
            depth -= 1
        elif c == ":" and depth == 0 and left[i:i + 2] == ": " and (i == 0 or left[i - 1] != ":"):
            return i
    raise ParseError("const header? " + left)


_LET = re.compile(r"^\s*let (?:mut )?_(\d+): (.*);$")
_BB = re.compile(r"^\s*bb(\d+)( \(cleanup\))?: \{$")


def _parse_body(it, body):
    cur = None
    for ln in body:
        if not ln.strip():
            continue
        m = _LET.match(ln)
        if m and cur is None:
            it.locals[int(m.group(1))] = parse_ty(m.group(2))
            continue
        m = _BB.match(ln)
        if m:
            cur = Block()
            cur.cleanup = bool(m.group(2))
            it.blocks[int(m.group(1))] = cur
            continue
        s = ln.strip()
        if cur is None:
            continue          # debug / scope lines
        if s == "}":
            cur = None
            continue
        if cur.cleanup:
            continue
        x = parse_line(s)
        if isinstance(x, Term):
            cur.term = x
        elif x.kind != "nop":
            cur.stmts.append(x)
    for l, t in it.params:
        it.locals[l] = t
    if 0 not in it.locals and it.ret is not None:
        it.locals[0] = it.ret


class Program:
    """All items of one dump, with lookup helpers."""

    def __init__(self, text):
        self.text = text
        self.items = parse_items(text)
        self.by_path = {}
        for it in self.items:
            self.by_path.setdefault(it.path, []).append(it)
        for a, b in zip(self.items, self.items[1:]):
            a.const_fn = bool(a.kind == "fn" and not a.ctfe and b.kind == "fn" and b.ctfe and b.path == a.path)
        if self.items:
            self.items[-1].const_fn = False
        self.by_last = {}
        for it in self.items:
            if it.kind == "fn":
                self.by_last.setdefault(it.path.rsplit("::", 1)[-1], []).append(it)

    def fns(self, path_regex, ctfe=False):
        r = re.compile(path_regex)
        return [it for it in self.items if it.kind == "fn" and it.ctfe == ctfe and r.search(it.path)]

    _hdr_cache = {}

    def impl_header(self, it):
        """source text of the `impl ...` header the item's path points at (read from core.REPO)"""
        m = re.search(r"<impl at ([^:>]+):(\d+):(\d+): (\d+):(\d+)>", it.path)
        if not m:
            return None
        key = (core.REPO, m.group(0))
        if key in self._hdr_cache:
            return self._hdr_cache[key]
        f = os.path.join(core.REPO, m.group(1))
        txt = None
        try:
            lines = open(f).read().split("\n")
            l1, c1, l2, c2 = (int(m.group(i)) for i in (2, 3, 4, 5))
            if l1 == l2:
                txt = lines[l1 - 1][c1 - 1:c2 - 1]
            else:
                txt = "\n".join([lines[l1 - 1][c1 - 1:]] + lines[l1:l2 - 1] + [lines[l2 - 1][:c2 - 1]])
        except Exception:
            pass
        self._hdr_cache[key] = txt
        return txt

    def impl_is_trait(self, it):
        h = self.impl_header(it)
        if h is None:
            return None
        if not re.match(r"\s*(unsafe\s+)?impl[\s<]", h):
            return None          # macro-generated span (proc macro): cannot tell
        return bool(re.search(r"\bfor\b", h))

    def fn(self, path_regex, ctfe=False, sig=None, inherent=None):
        c = self.fns(path_regex, ctfe)
        if sig is not None:
            c = [it for it in c if [t.s for _, t in it.params] == list(sig)]
        if inherent is not None and len(c) > 1:
            c2 = [it for it in c if self.impl_is_trait(it) == (not inherent)]
            if not c2:
                c2 = [it for it in c if self.impl_is_trait(it) is None]
            if c2:
                c = c2
        if inherent and len(c) > 1:
            c2 = [it for it in c if getattr(it, "const_fn", False)]      # trait methods are never `const fn`
            if len(c2) == 1:
                c = c2
        if len(c) != 1:
            raise KeyError(f"{path_regex}: {len(c)} candidates {[x.path for x in c][:5]}")
        return c[0]

    def const(self, path):
        c = [it for it in self.by_path.get(path, []) if it.kind in ("const", "static", "promoted")]
        if not c:
            raise KeyError("no const " + path)
        return c[0]
