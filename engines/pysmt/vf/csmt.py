"""Engine C: constraint systems extracted from the real chip code -> SMT over F_p (DESIGN 2.C).

Cells are Int in [0,p), one variable per copy-constraint class. Field products are terms of an
uninterpreted function `fmul` constrained by lemmas that hold in every field (zero-product, unit,
cancellation, exactness for small operands, Boolean operand => ite). All lemmas are sound, so
`unsat` of (Sys and not Spec) means the property holds in the real field; a `sat` model is re-checked
with exact big-integer arithmetic and either replayed on the real MockProver (genuine) or refined.
"""
import json, os, subprocess, time, itertools
from . import solvers
from .solvers import I

P_BLS = 0x73eda753299d7d483339d80809a1d80553bda402fffe5bfeffffffff00000001


def sym(c, P):
    c %= P
    return c - P if c > P // 2 else c


def core_hash(text):
    import hashlib
    return hashlib.sha256(text.encode()).hexdigest()[:16]


class UF:
    def __init__(self):
        self.p = {}

    def find(self, x):
        p = self.p
        p.setdefault(x, x)
        r = x
        while p[r] != r:
            r = p[r]
        while p[x] != r:
            p[x], x = r, p[x]
        return r

    def union(self, a, b):
        ra, rb = self.find(a), self.find(b)
        if ra != rb:
            # keep instance / lexicographically smallest as representative for readable names
            if (rb[0] == 'i', rb) < (ra[0] == 'i', ra):
                ra, rb = rb, ra
            self.p[ra] = rb


class System:
    """Parsed dump of one extracted circuit."""

    def __init__(self, d, P=P_BLS):
        self.d = d
        self.P = P
        self.uf = UF()
        for a, b in d["copies"]:
            self.uf.union(a, b)
        self.fixed = {k: int(v, 16) for k, v in d["fixed"].items()}
        self.const = {}
        for cell in list(self.uf.p):
            if cell[0] == 'f':
                self.const[self.uf.find(cell)] = self.fixed.get(cell, 0)
        self.honest = {k: int(v, 16) for k, v in d["advice"].items()}
        self.honest.update({k: int(v, 16) for k, v in d["instance"].items()})
        self.io = d["io"]
        self.ins = [f"i1_{x['row']}" for x in self.io if x["dir"] == "in"]
        self.outs = [f"i1_{x['row']}" for x in self.io if x["dir"] == "out"]

    def cls(self, cell):
        return self.uf.find(cell)

    def cell_value(self, cell, assign):
        """exact value of a cell under a class assignment (dict class->int)."""
        r = self.cls(cell)
        if r in self.const:
            return self.const[r]
        return assign[r]

    def honest_assign(self):
        """class -> honest value; checks copy classes are consistent in the honest run."""
        out = {}
        for cell, v in self.honest.items():
            r = self.cls(cell)
            if r in self.const:
                if self.const[r] != v:
                    raise AssertionError(f"honest value of {cell} differs from the constant of its class")
                continue
            if r in out and out[r] != v:
                raise AssertionError(f"copy class of {cell} inconsistent in honest run")
            out[r] = v
        return out

    def eval_poly(self, poly, assign):
        P = self.P
        acc = 0
        for ch, cells in poly:
            t = int(ch, 16)
            for c in cells:
                t = t * self.cell_value(c, assign) % P
            acc = (acc + t) % P
        return acc

    def check_exact(self, assign):
        """Return list of violated constraints under an exact class assignment."""
        bad = []
        for g in self.d["gates"]:
            if self.eval_poly(g["poly"], assign) != 0:
                bad.append(("gate", g["gate"], g["row"]))
        for lk in self.d["lookups"]:
            table = {tuple(int(x, 16) for x in row) for row in lk["table"]}
            for inp in lk["inputs"]:
                t = tuple(self.eval_poly(p, assign) for p in inp["exprs"])
                if t not in table:
                    bad.append(("lookup", lk["name"], inp["row"]))
        return bad

    def used_classes(self):
        s = set()
        for g in self.d["gates"]:
            for _, cells in g["poly"]:
                for c in cells:
                    s.add(self.cls(c))
        for lk in self.d["lookups"]:
            for inp in lk["inputs"]:
                for p in inp["exprs"]:
                    for _, cells in p:
                        for c in cells:
                            s.add(self.cls(c))
        for c in self.ins + self.outs:
            s.add(self.cls(c))
        return {c for c in s if c not in self.const}


class Enc:
    def __init__(self, system, drop=()):
        self.s = system
        self.P = system.P
        self.lines = []
        self.vars = {}          # class -> smt name
        self.ub = {}            # smt atom -> exclusive upper bound (static)
        self.prods = {}         # (a,b) -> atom
        self.prod_list = []     # (atom, a, b)
        self.nq = 0
        self.drop = set(drop)
        self.monos = {}
        self.bool_atoms = set()
        self.encoded = False
        self.order = []         # ('mod', r, terms, const) | ('mul', t, a, b) in creation order
        self.linrows = []       # purely linear gate rows: (const, {atom: symmetric coef})
        self.monos_of = {}      # atom -> sorted tuple of base atoms whose product it is known to equal in F_p
        self.monoatom = {}      # multiset (sorted tuple) -> canonical atom
        self.used_as_base = set()
        self.srange = {}        # atom -> (lo, hi): statically known range of the centred representative (lo < 0)
        self.sexpr = {}         # atom -> SMT integer expression equal to that centred representative
        self.dropped_rows = []  # linear rows replaced by their composed chain equation
        self.dropped_atoms = set()   # private remainder cells eliminated with them (recomputed for models)
        self.linrow_lines = {}  # row index -> (start, end) range of self.lines it emitted
        self.occ = {}           # atom -> number of constraints (gates, lookup inputs) mentioning it
        self.skip_gate = None   # predicate(gate dict) -> True: leave this gate row to a specialised engine
        self.skipped = []
        self.runtime_exact = os.environ.get("VERIF_RUNTIME_EXACT", "0") == "1"   # nonlinear small-operand lemma (off: invites NIA)
        self.opaque_products = False   # exact-small products: state only their range (monomial mode for
                                       # limb arithmetic; the defining equation is re-checked exactly on models)
        self.side = []          # closed formulas (own declarations, body) that must be VALID: lemmas the
                                # spec hands to the main query; each is discharged by the solver first

    # ---- atoms -------------------------------------------------------------------------------
    def v(self, cell):
        r = self.s.cls(cell)
        if r in self.s.const:
            return self.s.const[r]
        if r not in self.vars:
            n = "v_" + r
            self.vars[r] = n
            self.lines.append(f"(declare-const {n} Int)")
            self.lines.append(f"(assert (and (<= 0 {n}) (< {n} {self.P})))")
            self.ub[n] = self.P
        return self.vars[r]

    def fresh(self, pfx, lo=None, hi=None):
        self.nq += 1
        n = f"{pfx}{self.nq}"
        self.lines.append(f"(declare-const {n} Int)")
        if lo is not None:
            self.lines.append(f"(assert (and (<= {I(lo)} {n}) (<= {n} {I(hi)})))")
        return n

    def bound(self, a):
        if isinstance(a, int):
            return a + 1
        return self.ub.get(a, self.P)

    def set_bound(self, a, B):
        if isinstance(a, int):
            return
        if B < self.ub.get(a, self.P):
            self.ub[a] = B

    def signed(self, a):
        """SMT term for the centred representative of a cell value: v if v < p/2 else v - p (a total,
        definitional function of v; limbs of un-normalised emulated elements are small negative numbers
        stored mod p)."""
        if isinstance(a, int):
            return I(sym(a, self.P))
        if a in self.sexpr:
            return self.sexpr[a]
        if self.ub.get(a, self.P) < self.P // 2:
            return a
        return f"(ite (< {a} {self.P // 2 + 1}) {a} (- {a} {self.P}))"

    # ---- emulated-field residues (foreign-field arithmetic) ---------------------------------------
    def residue(self, terms, const, m):
        """definitional r in [0,m) with r == const + sum c_i * signed(atom_i) (mod m). Cached on the
        (terms, const) key so that gates and specification share the same residue atom."""
        if not hasattr(self, "_res"):
            self._res = {}
        key = (tuple(sorted((a, c) for c, a in terms if c)), const % m if not terms else const, m)
        if key in self._res:
            return self._res[key]
        if not terms:
            self._res[key] = const % m
            return const % m
        r = self.fresh("res", 0, m - 1)
        q = self.fresh("rq")
        body = "(+ " + I(const) + " " + " ".join(f"(* {I(c)} {self.signed(a)})" for c, a in terms if c) + ")"
        self.lines.append(f"(assert (= {body} (+ {r} (* {m} {q}))))")
        self._res[key] = r
        self.order.append(("res", r, [(c, a) for c, a in terms if c], const, m))
        return r

    def zero_rep_lemma(self, limbs):
        """For a well-formed limb vector (limb_i in [0, base), top limb below its bound) of an emulated
        element: residue = 0  <=>  limbs are exactly the limbs of m - 1 (zero has a unique well-formed
        representation). The generic statement is proved by the solver once per parameter set as a side
        obligation; here it is instantiated on `limbs`."""
        ex = self.extra
        m = int(ex["emulated_modulus"], 16)
        lb, n = int(ex["log2_base"]), int(ex["nb_limbs"])
        if len(limbs) != n or any(isinstance(l, int) for l in limbs):
            return
        msl = m.bit_length() - (n - 1) * lb
        c = [((m - 1) >> (lb * i)) & ((1 << lb) - 1) for i in range(n)]
        if not getattr(self, "_zero_side", False):
            self._zero_side = True
            decls = []
            for i in range(n):
                decls.append(f"(declare-const zl{i} Int)")
                decls.append(f"(assert (and (<= 0 zl{i}) (< zl{i} {1 << (lb if i < n - 1 else msl)})))")
            ssum = "(+ 1 " + " ".join(f"(* {1 << (lb * i)} zl{i})" for i in range(n)) + ")"
            decls.append("(declare-const zr Int)")
            decls.append("(declare-const zk Int)")
            decls.append(f"(assert (and (<= 0 zr) (< zr {m}) (= {ssum} (+ zr (* {m} zk)))))")
            body = "(= (= zr 0) (and " + " ".join(f"(= zl{i} {c[i]})" for i in range(n)) + "))"
            self.side.append(("zero-representation-unique", decls, body))
        r = self.residue([((1 << (lb * i)), l) for i, l in enumerate(limbs)], 1, m)
        wf = "(and " + " ".join(f"(<= 0 {l}) (< {l} {1 << (lb if i < n - 1 else msl)})" for i, l in enumerate(limbs)) + ")"
        eqs = "(and " + " ".join(f"(= {l} {c[i]})" for i, l in enumerate(limbs)) + ")"
        self.lines.append(f"(assert (=> {wf} (= (= {r} 0) {eqs})))")

    def addmod(self, a, b, m, sign=1):
        """definitional (a + sign*b) mod m for residues a, b in [0, m)"""
        if isinstance(a, int) and isinstance(b, int):
            return (a + sign * b) % m
        r = self.fresh("am", 0, m - 1)
        q = self.fresh("aq", -1, 1)
        A_ = lambda x: I(x) if isinstance(x, int) else x
        self.lines.append(f"(assert (= (+ {A_(a)} (* {I(sign)} {A_(b)})) (+ {r} (* {m} {q}))))")
        self.order.append(("addm", r, a, b, sign, m))
        return r

    def MM(self, a, b, m):
        """product of two residues mod m as an uninterpreted function (sound abstraction of a*b mod m)
        with the lemmas valid in Z_m for prime m: range, zero-product, units, constants."""
        if not hasattr(self, "_mm"):
            self._mm = {}
            self.lines.append("(declare-fun MMf (Int Int) Int)")
        if isinstance(a, int) and isinstance(b, int):
            return a * b % m
        if isinstance(a, int):
            a, b = b, a
        key = (a, b) if isinstance(b, int) else tuple(sorted([a, b]))
        if key in self._mm:
            return self._mm[key]
        L = self.lines
        if isinstance(b, int):
            # multiplication by a constant is linear: exact
            t = self.fresh("mm", 0, m - 1)
            q = self.fresh("mq")
            L.append(f"(assert (= (* {I(b % m)} {a}) (+ {t} (* {m} {q}))))")
            self._mm[key] = t
            self.order.append(("mm", t, a, b % m, m))
            return t
        x, y = key
        t = self.fresh("mmu", 0, m - 1)
        L.append(f"(assert (= {t} (MMf {x} {y})))")
        L.append(f"(assert (= (= {t} 0) (or (= {x} 0) (= {y} 0))))")
        L.append(f"(assert (=> (= {x} 1) (= {t} {y})))")
        L.append(f"(assert (=> (= {y} 1) (= {t} {x})))")
        for (k1, k2), t2 in list(self._mm.items()):
            if isinstance(k2, int):
                continue
            for (p_, q_), (p2, q2) in (((x, y), (k1, k2)), ((x, y), (k2, k1)), ((y, x), (k1, k2)), ((y, x), (k2, k1))):
                if p_ == p2:
                    L.append(f"(assert (=> (and (not (= {p_} 0)) (= {t} {t2})) (= {q_} {q2})))")
                    break
            L.append(f"(assert (=> (or (and (= {x} {k1}) (= {y} {k2})) (and (= {x} {k2}) (= {y} {k1}))) (= {t} {t2})))")
        self._mm[key] = t
        self.order.append(("mm", t, x, y, m))
        return t

    # ---- linear forms -------------------------------------------------------------------------
    def lin_smt(self, terms, const):
        parts = []
        if const != 0 or not terms:
            parts.append(I(const))
        for c, n in terms:
            if c == 1:
                parts.append(n)
            else:
                parts.append(f"(* {I(c)} {n})")
        return "(+ " + " ".join(parts) + ")" if len(parts) > 1 else parts[0]

    def modeq(self, terms, const, as_bool=False):
        """sum(c*atom) + const == 0 (mod P) with a fresh bounded quotient; or integer equation when the
        static bounds exclude wrap-around."""
        P = self.P
        terms = [(c, n) for c, n in terms if c != 0]
        lo = const + sum(min(0, c * (self.bound(n) - 1)) for c, n in terms)
        hi = const + sum(max(0, c * (self.bound(n) - 1)) for c, n in terms)
        if lo > -P and hi < P:
            f = f"(= {self.lin_smt(terms, const)} 0)"
        else:
            qlo = -((-lo) // P) - 1 if lo < 0 else 0
            qhi = hi // P + 1 if hi > 0 else 0
            q = self.fresh("q", qlo, qhi)
            f = f"(= {self.lin_smt(terms, const)} (* {P} {q}))"
        if as_bool:
            return f
        self.lines.append(f"(assert {f})")

    def define_mod(self, terms, const=0):
        """fresh r in [0,P) with r == sum + const (mod P). Definitional (conservative) extension, so it
        may be used inside a negated specification."""
        P = self.P
        terms = [(sym(c, P), n) for c, n in terms if c % P != 0]
        const = sym(const, P)
        if not terms:
            return const % P
        if len(terms) == 1 and terms[0][0] == 1 and const == 0:
            return terms[0][1]
        r = self.fresh("r", 0, P - 1)
        self.ub[r] = P
        self.modeq(terms + [(-1, r)], const)
        self.order.append(("mod", r, list(terms), const))
        return r

    # ---- products -----------------------------------------------------------------------------
    def fmul(self, a, b):
        P = self.P
        if isinstance(a, int) and isinstance(b, int):
            return a * b % P
        if isinstance(a, int):
            a, b = b, a
        if isinstance(b, int):
            if b % P == 0:
                return 0
            if b % P == 1:
                return a
            return self.define_mod([(b, a)])
        key = tuple(sorted([a, b]))
        if key in self.prods:
            return self.prods[key]
        a, b = key
        Ba, Bb = self.bound(a), self.bound(b)
        L = self.lines
        if (Ba - 1) * (Bb - 1) < P:
            # exact integer product
            t = self.fresh("m", 0, (Ba - 1) * (Bb - 1))
            self.ub[t] = (Ba - 1) * (Bb - 1) + 1
            if Ba <= 2:
                L.append(f"(assert (= {t} (ite (= {a} 0) 0 {b})))")
            elif Bb <= 2:
                L.append(f"(assert (= {t} (ite (= {b} 0) 0 {a})))")
            elif self.opaque_products:
                L.append(f"(assert (=> (or (= {a} 0) (= {b} 0)) (= {t} 0)))")
            else:
                L.append(f"(assert (= {t} (* {a} {b})))")
        else:
            t = self.fresh("m", 0, P - 1)
            self.ub[t] = P
            L.append(f"(assert (= (= {t} 0) (or (= {a} 0) (= {b} 0))))")
            L.append(f"(assert (=> (= {a} 1) (= {t} {b})))")
            L.append(f"(assert (=> (= {b} 1) (= {t} {a})))")
            # unit cancellation: a*b = a and a != 0  =>  b = 1
            if a != b:
                L.append(f"(assert (=> (and (= {t} {a}) (not (= {a} 0))) (= {b} 1)))")
                L.append(f"(assert (=> (and (= {t} {b}) (not (= {b} 0))) (= {a} 1)))")
            if a == b:
                # squares: x^2 = 1 => x = +-1
                L.append(f"(assert (=> (= {t} 1) (or (= {a} 1) (= {a} {P - 1}))))")
            # small-exact (runtime values)
            if self.runtime_exact:
                Bs = 1 << 120
                L.append(f"(assert (=> (and (< {a} {Bs}) (< {b} {Bs})) (= {t} (* {a} {b}))))")
            # cancellation / functional consistency with previous products sharing a factor
            for (t2, k1, k2) in self.prod_list:
                for (x, y), (x2, y2) in (((a, b), (k1, k2)), ((a, b), (k2, k1)), ((b, a), (k1, k2)), ((b, a), (k2, k1))):
                    if x == x2:
                        L.append(f"(assert (=> (and (not (= {x} 0)) (= {t} {t2})) (= {y} {y2})))")
                        L.append(f"(assert (=> (= {y} {y2}) (= {t} {t2})))")
                        break
            # congruence for equal operand pairs under different names
            for (t2, k1, k2) in self.prod_list:
                L.append(f"(assert (=> (or (and (= {a} {k1}) (= {b} {k2})) (and (= {a} {k2}) (= {b} {k1}))) (= {t} {t2})))")
        self.prods[key] = t
        self.prod_list.append((t, a, b))
        self.order.append(("mul", t, a, b))
        # monomial normalisation: a product of (products of) cells is determined by the multiset of its
        # base cells whatever the product tree (commutativity + associativity, sound in any commutative
        # ring): the first atom built for a multiset is canonical, later ones are asserted equal to it.
        ma = self.monos_of.get(a, (a,))
        mb = self.monos_of.get(b, (b,))
        for x_ in (a, b):
            if x_ not in self.monos_of:
                self.used_as_base.add(x_)
        mk = tuple(sorted(ma + mb))
        if len(mk) <= 64:
            self.monos_of[t] = mk
            if mk in self.monoatom:
                self.lines.append(f"(assert (= {t} {self.monoatom[mk]}))")
            else:
                self.monoatom[mk] = t
        return t

    # ---- constraints --------------------------------------------------------------------------
    def split_poly(self, poly):
        """poly over cells -> (const, lin{atom:coef}, quad[(coef,a,b)], high[(coef,[atoms])])"""
        P = self.P
        const, lin, quad, high = 0, {}, {}, []
        for ch, cells in poly:
            k = int(ch, 16) % P
            syms = []
            for x in cells:
                o = self.v(x)
                if isinstance(o, int):
                    k = k * o % P
                else:
                    syms.append(o)
            if k == 0:
                continue
            syms.sort()
            if not syms:
                const = (const + k) % P
            elif len(syms) == 1:
                lin[syms[0]] = (lin.get(syms[0], 0) + k) % P
            elif len(syms) == 2:
                key = (syms[0], syms[1])
                quad[key] = (quad.get(key, 0) + k) % P
            else:
                high.append((k, syms))
        quad = [(k, a, b) for (a, b), k in quad.items() if k]
        return const, lin, quad, high

    def constraint(self, poly, monomial_mode=False):
        P = self.P
        const, lin, quad, high = self.split_poly(poly)
        if not quad and not high:
            self.linrows.append((sym(const, P), {n: sym(c, P) for n, c in lin.items() if c % P}))
            self._cur_linrow = len(self.linrows) - 1
            self._cur_start = len(self.lines)
        else:
            self._cur_linrow = None
        self._constraint_body(const, lin, quad, high, monomial_mode)
        if self._cur_linrow is not None:
            self.linrow_lines[self._cur_linrow] = (self._cur_start, len(self.lines))

    def _constraint_body(self, const, lin, quad, high, monomial_mode):
        P = self.P
        terms = []
        for k, syms in high:
            # nested products in canonical order
            t = syms[0]
            for s2 in syms[1:]:
                t = self.fmul(t, s2)
            terms.append((sym(k, P), t))
        for k, a, b in quad:
            terms.append((sym(k, P), self.fmul(a, b)))
        if not monomial_mode:
            # distributivity lemmas: for a variable x occurring in several degree-2 monomials (or in one
            # and linearly), t = fmul(x, L) with L == sum k_i b_i + c_x and t == sum k_i fmul(x,b_i) + c_x x.
            # Sound in any field; gives the zero-product lemma something to bite on (a*b - a = a*(b-1)).
            cnt = {}
            for k, a, b in quad:
                if (self.bound(a) - 1) * (self.bound(b) - 1) < P:
                    continue
                cnt[a] = cnt.get(a, 0) + 1
                if b != a:
                    cnt[b] = cnt.get(b, 0) + 1
            for x in sorted(cnt):
                grp = [(k, (b if a == x else a)) for k, a, b in quad if a == x or b == x]
                cx = lin.get(x, 0)
                if len(grp) + (1 if cx else 0) < 2:
                    continue
                Lv = self.define_mod([(k, b) for k, b in grp], cx)
                t = self.fmul(x, Lv)
                if isinstance(t, int):
                    continue
                self.modeq([(-1, t)] + [(sym(k, P), self.fmul(x, b)) for k, b in grp] + ([(sym(cx, P), x)] if cx else []), 0)
        terms += [(sym(c, P), n) for n, c in lin.items() if c % P]
        if len(terms) == 2 and sym(const, P) == 0 and terms[0][0] == -terms[1][0] and abs(terms[0][0]) == 1:
            # row "cell = product": the cell inherits the monomial the product is known to be
            (c1, a1), (c2, a2) = terms
            for src, dst in ((a1, a2), (a2, a1)):
                if src in self.monos_of and dst not in self.monos_of and self.ub.get(dst, P) >= P and dst not in self.used_as_base:
                    self.monos_of[dst] = self.monos_of[src]
        if self.small_domain_row(terms, sym(const, P)):
            return
        self.modeq(terms, sym(const, P))

    def small_domain_row(self, terms, const):
        """Row with exactly one statically unbounded atom u (coefficient +-1) whose other atoms range over
        a small finite domain (bits, small products): enumerate the domain to learn the exact value set
        of u. When every value is a small non-negative integer the row is an integer equation and u gets a
        static bound (e.g. the output of an and/or/xor/select-on-bits gate is a bit). Derived from the row
        itself, hence sound."""
        P = self.P
        unb = [(c, a) for c, a in terms if self.bound(a) >= P]
        if not unb:
            return self.boolean_row(terms, const)
        if len(unb) != 1 or unb[0][0] not in (1, -1):
            return False
        cu, u = unb[0]
        rest = [(c, a) for c, a in terms if a != u]
        pdef = {it[1]: (it[2], it[3]) for it in self.order if it[0] == "mul"}
        base = []

        def collect(a):
            if isinstance(a, int):
                return True
            if a in pdef:
                return collect(pdef[a][0]) and collect(pdef[a][1])
            if self.bound(a) > 4:
                return False
            if a not in base:
                base.append(a)
            return True
        if not all(collect(a) for _, a in rest):
            return False
        size = 1
        for a in base:
            size *= self.bound(a)
        if size > 256:
            return False
        import itertools
        vals = set()
        for combo in itertools.product(*[range(self.bound(a)) for a in base]):
            env = dict(zip(base, combo))

            def ev(a):
                if isinstance(a, int):
                    return a
                if a in pdef:
                    return ev(pdef[a][0]) * ev(pdef[a][1])
                return env[a]
            r = const + sum(c * ev(a) for c, a in rest)
            vals.add(-cu * r)
        if min(vals) < 0 or max(vals) >= 1 << 32:
            return False
        if max(vals) <= 1 and all(self.bound(a) <= 2 for a in base) and len(base) <= 6:
            # purely Boolean row: state it as a truth table over the literals (= a 1) so that the SAT core,
            # not the arithmetic solver, propagates it
            ones = []
            for combo in itertools.product(*[range(2) for _ in base]):
                env = dict(zip(base, combo))

                def ev2(a):
                    if isinstance(a, int):
                        return a
                    if a in pdef:
                        return ev2(pdef[a][0]) * ev2(pdef[a][1])
                    return env[a]
                if -cu * (const + sum(c * ev2(a) for c, a in rest)) == 1:
                    ones.append("(and true " + " ".join(f"(= {a} {v})" for a, v in env.items()) + ")")
            self.lines.append(f"(assert (= {u} (ite (or false {' '.join(ones)}) 1 0)))")
            self.set_bound(u, 2)
            self.bool_atoms.add(u)
            return True
        body = self.lin_smt([(-cu * c, a) for c, a in rest], -cu * const)
        self.lines.append(f"(assert (= {u} {body}))")
        self.set_bound(u, max(vals) + 1)
        if max(vals) <= 1:
            self.bool_atoms.add(u)
        return True

    def lookup(self, lk):
        P = self.P
        table = [[int(x, 16) for x in row] for row in lk["table"]]
        arity = len(table[0]) if table else 0
        for inp in lk["inputs"]:
            if ("lookup", lk["name"], inp["row"]) in self.drop:
                continue
            vals = []
            for poly in inp["exprs"]:
                const, lin, quad, high = self.split_poly(poly)
                if quad or high:
                    raise NotImplementedError("non-linear lookup input")
                vals.append((const, lin))
            rows = [r for r in table if all(l or c == r[i] for i, (c, l) in enumerate(vals))]
            symidx = [i for i, (c, l) in enumerate(vals) if l]
            if not symidx:
                if not rows:
                    self.lines.append("(assert false)")
                continue
            atoms = []
            for i in symidx:
                c, l = vals[i]
                if c == 0 and len(l) == 1 and list(l.values())[0] == 1:
                    atoms.append(list(l)[0])
                else:
                    atoms.append(self.define_mod(list((k, n) for n, k in l.items()), c))
            if len(symidx) == 1:
                n = atoms[0]
                allowed = sorted(set(r[symidx[0]] for r in rows))
                if allowed == list(range(len(allowed))):
                    self.lines.append(f"(assert (< {n} {len(allowed)}))")
                    self.set_bound(n, len(allowed))
                elif len(allowed) <= 64:
                    self.lines.append("(assert (or false " + " ".join(f"(= {n} {a})" for a in allowed) + "))")
                    self.set_bound(n, max(allowed) + 1 if allowed else 1)
                else:
                    raise NotImplementedError(f"single-column lookup into a non-range set of size {len(allowed)}")
            else:
                # functional / relational table on several symbolic components: define once as a predicate
                self.table_pred(lk, table, rows, symidx, atoms)

    def table_pred(self, lk, table, rows, symidx, atoms):
        proj = sorted(set(tuple(r[i] for i in symidx) for r in rows))
        # the key must identify the SELECTED ROW SET: two inputs of one lookup whose constant components select
        # different row sets of equal size must not share a predicate (found by the C19 multi-automaton shapes)
        key = ("tbl", lk["name"], tuple(symidx), len(rows), core_hash(repr(proj)))
        name = self.monos.get(key)
        if name is None:
            name = f"tbl{len(self.monos)}"
            self.monos[key] = name
            args = " ".join(f"(x{j} Int)" for j in range(len(symidx)))
            # group by first component for a compact ite/or structure
            by0 = {}
            for t in proj:
                by0.setdefault(t[0], []).append(t[1:])
            disj = []
            for a0, rest in by0.items():
                if len(symidx) == 1:
                    disj.append(f"(= x0 {a0})")
                else:
                    inner = " ".join("(and " + " ".join(f"(= x{j + 1} {val})" for j, val in enumerate(r)) + ")" for r in rest)
                    disj.append(f"(and (= x0 {a0}) (or false {inner}))")
            self.lines.append(f"(define-fun {name} ({args}) Bool (or false {' '.join(disj)}))")
        self.lines.append(f"(assert ({name} {' '.join(atoms)}))")
        for j, a in enumerate(atoms):
            self.set_bound(a, max(t[j] for t in proj) + 1)

    def encode(self, monomial_mode=False):
        d = self.s.d
        # lookups first: they provide the static range facts used to keep products exact
        for lk in d["lookups"]:
            self.lookup(lk)
        # Boolean constraints next (b*b - b): they give bound 2
        rest = []
        for g in d["gates"]:
            if ("gate", g["gate"], g["row"]) in self.drop:
                continue
            if self.skip_gate is not None and self.skip_gate(g):
                self.skipped.append(g)
                continue
            const, lin, quad, high = self.split_poly(g["poly"])
            if not high and len(quad) == 1 and quad[0][1] == quad[0][2] and len(lin) == 1 and const == 0 \
                    and list(lin)[0] == quad[0][1] and (quad[0][0] + lin[quad[0][1]]) % self.P == 0:
                b = quad[0][1]
                self.lines.append(f"(assert (or (= {b} 0) (= {b} 1)))")
                self.set_bound(b, 2)
                self.bool_atoms.add(b)
            else:
                rest.append(g)
        for g in rest:
            const, lin, quad, high = self.split_poly(g["poly"])
            seen = set(lin) | {a for _, a, b in quad} | {b for _, a, b in quad} | {a for _, syms in high for a in syms}
            for a in seen:
                self.occ[a] = self.occ.get(a, 0) + 1
        for lk in d["lookups"]:
            for inp in lk["inputs"]:
                seen = set()
                for poly in inp["exprs"]:
                    const, lin, quad, high = self.split_poly(poly)
                    seen |= set(lin)
                for a in seen:
                    self.occ[a] = self.occ.get(a, 0) + 1
        self.infer_bounds([g["poly"] for g in rest])
        for g in rest:
            self.constraint(g["poly"], monomial_mode)
        self.flat_lemmas()
        self.iszero_lemmas([g["poly"] for g in rest])
        self.encoded = True

    def boolean_row(self, terms, const):
        """Row all of whose cells are statically bits: assert its truth table over the literals (= a 1)
        (exact: the row holds mod p iff the integer expression is 0 mod p; evaluated per assignment)."""
        import itertools
        P = self.P
        pdef = {it[1]: (it[2], it[3]) for it in self.order if it[0] == "mul"}
        base = []

        def collect(a):
            if isinstance(a, int):
                return True
            if a in pdef:
                return collect(pdef[a][0]) and collect(pdef[a][1])
            if self.bound(a) > 2:
                return False
            if a not in base:
                base.append(a)
            return True
        if not terms or not all(collect(a) for _, a in terms) or len(base) > 8:
            return False
        sat = []
        for combo in itertools.product(range(2), repeat=len(base)):
            env = dict(zip(base, combo))

            def ev(a):
                if isinstance(a, int):
                    return a
                if a in pdef:
                    return ev(pdef[a][0]) * ev(pdef[a][1])
                return env[a]
            if (const + sum(c * ev(a) for c, a in terms)) % P == 0:
                sat.append("(and true " + " ".join(f"(= {a} {v})" for a, v in env.items()) + ")")
        self.lines.append("(assert (or false " + " ".join(sat) + "))")
        return True

    def infer_bounds(self, polys):
        """Static range inference to a fixpoint, before anything is emitted. A row with exactly one
        statically unbounded cell u (coefficient +-1, not inside a product) determines u = R mod p with R an
        integer expression of bounded cells; if interval arithmetic (or, for sign-mixed rows over a small
        finite domain, enumeration) shows 0 <= R < p then u = R exactly and u inherits R's range. Every
        derived bound is a consequence of that row and the bounds it used, hence sound."""
        P = self.P
        import itertools
        rows = []
        for poly in polys:
            const, lin, quad, high = self.split_poly(poly)
            if high:
                continue
            rows.append((sym(const, P), {a: sym(c, P) for a, c in lin.items() if c % P},
                         [(sym(k, P), a, b) for k, a, b in quad]))
        for it in range(400):
            changed = False
            for const, lin, quad in (rows if it % 2 == 0 else rows[::-1]):
                inq = set()
                for k, a, b in quad:
                    inq.add(a)
                    inq.add(b)
                unb = [a for a in lin if self.bound(a) >= P and a not in self.srange]
                if len(unb) != 1 or lin[unb[0]] not in (1, -1) or unb[0] in inq:
                    continue
                if any(self.bound(a) >= P for a in inq):
                    continue
                u = unb[0]
                cu = lin[u]
                lo = hi = -cu * const
                for a, c in lin.items():
                    if a == u:
                        continue
                    alo, ahi = self.srange.get(a, (0, self.bound(a) - 1))
                    v1, v2 = -cu * c * alo, -cu * c * ahi
                    lo, hi = lo + min(v1, v2), hi + max(v1, v2)
                for k, a, b in quad:
                    v = -cu * k * (self.bound(a) - 1) * (self.bound(b) - 1)
                    lo, hi = lo + min(0, v), hi + max(0, v)
                if lo < 0 and not quad and max(-lo, hi) < P // 8:
                    # small signed value stored mod p (limb of an un-normalised emulated element, a
                    # difference, ...): u == E (mod p) with |E| < p/8, so the centred representative of u
                    # is exactly E
                    parts = [I(-cu * const)] + [f"(* {I(-cu * c)} {self.sexpr.get(a, a)})" for a, c in lin.items() if a != u]
                    E = "(+ " + " ".join(parts) + ")"
                    self.srange[u] = (lo, hi)
                    self.sexpr[u] = E
                    self.lines.append(f"(assert (= {u} (ite (>= {E} 0) {E} (+ {E} {P}))))")
                    changed = True
                    continue
                if lo >= 0 and hi < min(P, 1 << 250):
                    if hi + 1 < self.bound(u):
                        self.set_bound(u, hi + 1)
                        self.lines.append(f"(assert (< {u} {hi + 1}))")
                        changed = True
                    continue
                base = sorted(set(a for a in lin if a != u) | inq)
                size = 1
                for a in base:
                    size *= self.bound(a)
                if size > 256 or hi >= min(P, 1 << 250):
                    continue
                vals = set()
                for combo in itertools.product(*[range(self.bound(a)) for a in base]):
                    env = dict(zip(base, combo))
                    r = const + sum(c * env[a] for a, c in lin.items() if a != u) + sum(k * env[a] * env[b] for k, a, b in quad)
                    vals.add(-cu * r)
                if min(vals) >= 0 and max(vals) + 1 < self.bound(u):
                    self.set_bound(u, max(vals) + 1)
                    self.lines.append(f"(assert (< {u} {max(vals) + 1}))")
                    if max(vals) <= 1:
                        self.bool_atoms.add(u)
                    changed = True
            if not changed:
                break

    def named_sum(self, terms):
        """variable S == sum(coef * atom) over statically bounded atoms; cached on the term list so that
        the system's composed chains and the specification share one variable instead of two copies of a
        several-hundred-term sum"""
        if not hasattr(self, "_sums"):
            self._sums = {}
        terms = sorted((c, a) for c, a in terms if c)
        ints = sum(c * a for c, a in terms if isinstance(a, int))
        terms = [(c, a) for c, a in terms if not isinstance(a, int)]
        key = (tuple(terms), ints)
        if key in self._sums:
            return self._sums[key]
        if len(terms) <= 6:
            body = self.lin_smt(terms, ints)
            self._sums[key] = body
            return body
        lo = ints + sum(min(0, c * (self.bound(a) - 1)) for c, a in terms)
        hi = ints + sum(max(0, c * (self.bound(a) - 1)) for c, a in terms)
        S = self.fresh("S", lo, hi)
        self.ub[S] = hi + 1 if lo >= 0 else self.P
        self.lines.append(f"(assert (= {S} {self.lin_smt(terms, ints)}))")
        self._sums[key] = S
        return S

    def iszero_lemmas(self, polys):
        """The is-zero / is-equal gadget: rows  a*L = 1 - r  and  L*r = 0  (L a linear form, a an inverse
        hint, r the result) imply r = [L = 0] in any field (no zero divisors), whatever a is; the variant
        a*L = r, L*(1 - r) = 0 implies r = [L != 0]. The derived fact is stated directly next to the rows
        (which are kept): it is a consequence of exactly those two rows, detected syntactically."""
        P = self.P

        def factor(poly):
            """all (v, L, rest) with poly = v*L + rest, L and rest free of v and linear"""
            const, lin, quad, high = self.split_poly(poly)
            if high or not quad:
                return []
            out = []
            cands = set(a for _, a, b in quad) | set(b for _, a, b in quad)
            for v in cands:
                if any(v not in (a, b) or a == b for _, a, b in quad):
                    continue
                L = {}
                for k, a, b in quad:
                    o = b if a == v else a
                    L[o] = (L.get(o, 0) + k) % P
                Lc = lin.get(v, 0) % P
                rest = {a: c % P for a, c in lin.items() if a != v and c % P}
                if v in L:
                    continue
                out.append((v, (tuple(sorted((a, c) for a, c in L.items() if c)), Lc), (tuple(sorted(rest.items())), const % P)))
            return out

        def neg(Lf):
            return (tuple(sorted((a, (-c) % P) for a, c in Lf[0])), (-Lf[1]) % P)
        facts = [f for poly in polys for f in factor(poly)]
        done = set()
        for (a, L1, rest1) in facts:
            for (r, L2, rest2) in facts:
                if a == r:
                    continue
                kind = None
                # a*L + r - 1 = 0  and  r*L' = 0 with L' = +-L   =>  r = [L = 0]
                if rest1 == (((r, 1),), P - 1) and rest2 == ((), 0) and (L2 == L1 or L2 == neg(L1)):
                    kind = "eq"
                # -(a*L) ... handle the negated first row: -a*L - r + 1 = 0
                elif rest1 == (((r, P - 1),), 1) and rest2 == ((), 0) and (L2 == L1 or L2 == neg(L1)):
                    kind = "eq"
                # a*L - r = 0  and  L - r*L = 0  =>  r = [L != 0]
                elif rest1 in ((((r, P - 1),), 0), (((r, 1),), 0)):
                    # second row: r*L2 + rest2 with rest2 == -L2 (as a linear form)
                    lin2 = dict(rest2[0])
                    if (tuple(sorted(((x, (-c) % P) for x, c in L2[0]))), (-L2[1]) % P) == (tuple(sorted(lin2.items())), rest2[1]) and (L2 == L1 or L2 == neg(L1)):
                        kind = "neq"
                if kind and (r, kind) not in done:
                    done.add((r, kind))
                    Lv = self.define_mod([(c, x) for x, c in L1[0]], L1[1])
                    Lz = f"(= {Lv} 0)" if not isinstance(Lv, int) else ("true" if Lv % P == 0 else "false")
                    if kind == "eq":
                        self.lines.append(f"(assert (= {r} (ite {Lz} 1 0)))")
                    else:
                        self.lines.append(f"(assert (= {r} (ite {Lz} 0 1)))")
                    self.set_bound(r, 2)
                    self.bool_atoms.add(r)

    def flat_lemmas(self):
        """Running-remainder chains (x = d0 + 2 d1 + ... + y1, y1 = 16 d4 + ... + y2, ...) are linear rows
        that each hold mod p. Their composition x == sum coef_i digit_i (mod p) is a consequence of the
        system; state it directly (as an integer equation when the digit bounds exclude wrap-around).
        When the intermediate remainders are private to the chain (they occur in no other constraint and
        are not instance cells) the individual rows are dropped in favour of the composed equation:
        dropping hypotheses can only make the implication Sys => Spec harder to prove, never unsound, and
        the composed equation is equivalent to the chain with the private remainders eliminated."""
        P = self.P
        heads = set()
        for const, lin in self.linrows:
            for a, c in lin.items():
                if c in (1, -1):
                    heads.add(a)
        io_atoms = set()
        for c in self.s.ins + self.s.outs:
            o = self.v(c)
            if not isinstance(o, int):
                io_atoms.add(o)
        done_rows = set()
        for x in sorted(heads):
            used, elim = set(), set()
            dg = self.flatten_digits(x, used=used, elim=elim)
            if not dg or len(dg) < 2 or len(used) < 2:
                continue
            if used & done_rows:
                continue
            S = self.named_sum(dg)
            if S.startswith("("):
                self.modeq([(c, a) for c, a in dg] + [(-1, x)], 0)
            else:
                self.modeq([(1, S), (-1, x)], 0)
            private = all(self.occ.get(a, 0) == 2 and a not in io_atoms for a in elim)
            if private and len(used) >= 3:
                self.dropped_rows += [self.linrows[ri] for ri in used]
                self.dropped_atoms |= set(elim)
                for ri in used:
                    if ri in self.linrow_lines:
                        st, en = self.linrow_lines[ri]
                        for li in range(st, en):
                            if self.lines[li].startswith("(assert"):
                                self.lines[li] = "; subsumed by composed chain: " + self.lines[li][:60]
                done_rows |= used

    # ---- radix decompositions --------------------------------------------------------------------
    def flatten_digits(self, x, max_digit_bound=1 << 64, depth=0, skip=None, used=None, elim=None):
        """Try to express atom x as sum(coef_i * digit_i) using the purely linear rows of the system
        (following running-remainder chains). Returns [(coef, atom)] or None. Heuristic only: every use
        of the result is guarded by premises inside the solver."""
        if depth > 80:
            return None
        for ri, (const, lin) in enumerate(self.linrows):
            if skip is not None and ri in skip:
                continue
            c = lin.get(x)
            if c not in (1, -1) or const != 0:
                continue
            others = [(-cc * c, a) for a, cc in lin.items() if a != x]   # x = sum others
            # weights above p/2 show up negative in symmetric form: accept them when they are powers of two
            others = [((w + self.P) if (w <= 0 and ((w + self.P) & (w + self.P - 1)) == 0) else w, a) for w, a in others]
            if not others or any(cc <= 0 for cc, _ in others):
                continue
            out, ok = [], True
            u2, e2 = {ri}, set()
            for cc, a in others:
                su, se = set(), set()
                sub = self.flatten_digits(a, max_digit_bound, depth + 1, (skip or set()) | {ri}, su, se)
                if sub is not None and all(c2 > 0 for c2, _ in sub):
                    out += [(cc * c2, a2) for c2, a2 in sub]
                    u2 |= su
                    e2 |= se | {a}
                elif self.bound(a) <= max_digit_bound:
                    out.append((cc, a))
                else:
                    ok = False
                    break
            if ok:
                if used is not None:
                    used |= u2
                if elim is not None:
                    elim |= e2
                return sorted(out)
        return None

    def radix_hint(self, x, bits):
        """bits: spec-side definitional bit atoms of x (little endian). If the system itself decomposes
        x into power-of-two digits, add the (valid) uniqueness theorem instantiated on both."""
        if isinstance(x, int):
            return False
        dg = self.flatten_digits(x)
        if not dg:
            return False
        pos, groups = 0, []
        for coef, a in dg:
            B = self.bound(a)
            if coef != (1 << pos) or B & (B - 1) or B < 2:
                return False
            w = B.bit_length() - 1
            groups.append((a, pos, w))
            pos += w
        if pos != len(bits):
            return False
        from .cspec import wsum
        total = "(+ 0 " + " ".join(f"(* {1 << p} {a})" for a, p, w in groups) + ")"
        eqs = " ".join(f"(= {a} {wsum(bits[p:p + w])})" for a, p, w in groups)
        rng = " ".join(f"(<= 0 {a}) (< {a} {1 << w})" for a, p, w in groups)
        self.lines.append(f"(assert (=> (and (= {x} {total}) (= {x} {wsum(bits)}) {rng}) (and {eqs})))")
        return True

    def assoc_lemmas(self, rounds=1, max_products=16):
        """Associativity instances between abstract products: for t1 = a*b and t2 = u*c,
        (u = t1) => t2 = a*(b*c) whenever b*c is already a known product (or a constant). Sound in any
        commutative ring; needed e.g. for out = x*inv(y) => out*y = x."""
        P = self.P
        done = set()
        for _ in range(rounds):
            abstract = [(t, a, b) for (t, a, b) in list(self.prod_list) if self.ub.get(t, P) == P]
            if len(abstract) > max_products:
                return
            added = False
            for (t1, a1, b1) in abstract:
                for (t2, u, c) in abstract:
                    if t1 == t2:
                        continue
                    for (uu, cc) in ((u, c), (c, u)):
                        if uu == t1 or isinstance(uu, int):
                            continue
                        for (aa, bb) in ((a1, b1), (b1, a1)):
                            key = (t1, t2, uu, aa)
                            if key in done:
                                continue
                            inner = self.prods.get(tuple(sorted([bb, cc])))
                            if inner is None:
                                continue
                            done.add(key)
                            outer = self.fmul(aa, inner)
                            self.lines.append(f"(assert (=> (= {uu} {t1}) (= {t2} {outer})))")
                            added = True
            if not added:
                break

    # ---- queries ------------------------------------------------------------------------------
    def text(self, extra=()):
        return "(set-logic ALL)\n" + "\n".join(self.lines) + "\n" + "\n".join(extra) + "\n"

    def class_vars(self):
        return dict(self.vars)

    def exact_atoms(self, assign):
        """Given exact values of the class variables (smt name -> int) compute the exact value of every
        derived atom (modular linear definitions and products) in creation order."""
        P = self.P
        val = dict(assign)
        g = lambda a: a if isinstance(a, int) else val[a]
        for item in self.order:
            if item[0] == "mod":
                _, r, terms, const = item
                val[r] = (sum(c * g(n) for c, n in terms) + const) % P
            elif item[0] == "res":
                _, r, terms, const, m = item
                sg = lambda a: (g(a) if g(a) <= P // 2 else g(a) - P)
                val[r] = (sum(c * sg(n) for c, n in terms) + const) % m
            elif item[0] == "addm":
                _, r, a, b, sign, m = item
                val[r] = (g(a) + sign * g(b)) % m
            elif item[0] == "mm":
                _, t, a, b, m = item
                val[t] = g(a) * g(b) % m
            else:
                _, t, a, b = item
                val[t] = g(a) * g(b) % P
        return val

    def repair_model(self, assign):
        """A model leaves the eliminated private remainder cells of subsumed chains unconstrained:
        recompute them from the dropped rows (each row determines one of them) so that the assignment can
        be checked exactly and replayed."""
        P = self.P
        todo = set(self.dropped_atoms)
        progress = True
        while todo and progress:
            progress = False
            for const, lin in self.dropped_rows:
                unk = [a for a in lin if a in todo]
                if len(unk) != 1:
                    continue
                u = unk[0]
                rest = const + sum(c * assign.get(a, 0) for a, c in lin.items() if a != u)
                assign[u] = (-rest * pow(lin[u], -1, P)) % P
                todo.discard(u)
                progress = True
        return assign
