"""Helpers of the C04 families `vector` (VectorInstructions / VectorGadget) and `map` (MapGadget).

vector: layout arithmetic of `AssignedVector<_, T, M, A>` as DOCUMENTED in circuits/src/vec/vector.rs
        (front padding 0 mod A, back padding in [0, A), |front| + |payload| + |back| = M) and the
        case split on the (symbolic, range-bounded) length used by every vector specification.
map:    the hash abstraction. The harness wraps the hash chip handed to the real `MapGadget` in a
        recorder: every call `hash([a, b]) -> o` is logged as (cells of a and b, cell of o). The
        specification side declares ONE uninterpreted function Hf : Int x Int -> Int and asserts
        `o = Hf(a, b)` per recorded call (congruence is then the only thing known about the hash); in
        `hash=poseidon` mode the rows that live in the real PoseidonChip's own columns are cut out of the
        extracted system by the harness (engines/extract/src/map.rs), in `hash=uf` mode the hash chip assigns
        its digest as a free cell."""
from . import core, csmt
from .cspec import *       # noqa: F401,F403
from .cspec import A as _A


# ------------------------------------------------------------------------------------------ vector
def lims(M, A, L):
    """(start, end) of the payload of a length-L vector in its M-cell buffer. From the struct
    documentation: back padding b in [0, A), front padding f = 0 (mod A), f + L + b = M. For A | M
    that determines b = (-L) mod A uniquely."""
    assert M % A == 0 and 0 <= L <= M
    back = (-L) % A
    return M - L - back, M - back


def split_vec(atoms, M, at=0):
    """(buffer atoms, length atom) of the vector exposed at position `at` of an instance list."""
    return list(atoms[at:at + M]), atoms[at + M]


def by_len(length, M, f, lo=0):
    """Dom: lo <= len <= M; and for each concrete L in that range: len = L => f(L)."""
    return AND(le(lo, length), le(length, M), *[IMP(eq(length, L), f(L)) for L in range(lo, M + 1)])


def payload(buf, M, A, L):
    s, e = lims(M, A, L)
    return buf[s:e]


def vec_input(M, payload_vals):
    """`in=` encoding of one vector: <len> then M element slots."""
    assert len(payload_vals) <= M
    return [len(payload_vals)] + list(payload_vals) + [0] * (M - len(payload_vals))


# --------------------------------------------------------------------------------------------- map
TREE_HEIGHT = 128          # circuits/src/map/cpu.rs (the API offers no other height)


class HashCalls:
    """The recorded hash calls of one extracted circuit as atoms of the encoder: [((a, b), out)] in call order,
    and the uninterpreted function they are instances of (`out = Hf(a, b)` asserted once per call: congruence
    is all that is known about the hash)."""

    def __init__(self, e):
        self.e = e
        rec = e.extra.get("hash_calls") or []
        self.calls = [(tuple(e.v(c) for c in r["ins"]), e.v(r["out"])) for r in rec]
        if not getattr(e, "_hf_declared", False):
            e._hf_declared = True
            e.lines.append("(declare-fun Hf (Int Int) Int)")
            for ins, out in self.calls:
                assert len(ins) == 2, "MapGadget hashes pairs"
                e.lines.append(f"(assert (= {_A(out)} (Hf {_A(ins[0])} {_A(ins[1])})))")


def canonical_bits(e, x, nbits=255):
    """(bits, steps): WITNESS for `exists b in {0,1}^nbits. b is the binary representation of the integer x
    (the canonical representative in [0, p) of the cell)`: the system's own binary digits of the cell x (found by
    following its linear decomposition rows; a heuristic that only SELECTS the witness) and the SMT Bool `fact`
    that has to be PROVED of them: every b_i is 0 or 1 and  sum b_i 2^i = x  OVER THE INTEGERS (not just modulo
    p: for nbits = 255 a field element below 2^255 - p has two 255-bit representations), i.e.
    b_i = (x div 2^i) mod 2.
    `steps` = [(name, formula, keep, slice)] for prove_then_assume: the two claims ("bits", "sum") and two auxiliary
    lemmas that lead the solvers to "sum" (S = x or S = x + p; b_0 = x mod 2); the auxiliary lemmas are NOT part of
    the specification, they are only tried and, when proved, used."""
    dg = e.flatten_digits(x) if not isinstance(x, int) else None
    if not dg or len(dg) != nbits or any(c != (1 << i) or e.bound(a) > 2 for i, (c, a) in enumerate(dg)):
        raise NotImplementedError("cannot locate the binary digits of the path index in the extracted system")
    bits = [a for _, a in dg]
    S = e.named_sum([(1 << i, b) for i, b in enumerate(bits)])
    # parity helper (definitional): R := sum_{i>=1} b_i 2^(i-1), so that S = b_0 + 2 R. Measured: with R named the
    # portfolio proves x = S in 2 s, without it not in 60 s (the argument is: S in {x, x + p}, b_0 = x mod 2, p odd).
    # and (px, hx) := (x mod 2, x div 2) as fresh lo/hi variables (definitional: they exist and are unique).
    px, hx = e.fresh("px", 0, 1), e.fresh("hx", 0, e.P // 2)
    e.lines.append(f"(assert (= {_A(x)} (+ {px} (* 2 {hx}))))")
    R = e.fresh("Rh", 0, (1 << (nbits - 1)) - 1)
    e.lines.append(f"(assert (= {R} {e.lin_smt([(1 << (i - 1), b) for i, b in enumerate(bits) if i >= 1], 0)}))")
    if not S.startswith("("):
        e.lines.append(f"(assert (= {S} (+ {bits[0]} (* 2 {R}))))")
        if not getattr(e, "_parity_side", False):
            e._parity_side = True
            decls = [f"(declare-const pb{i} Int)" for i in range(nbits)] + ["(declare-const pS Int)", "(declare-const pR Int)",
                     "(assert (= pS " + e.lin_smt([(1 << i, f"pb{i}") for i in range(nbits)], 0) + "))",
                     "(assert (= pR " + e.lin_smt([(1 << (i - 1), f"pb{i}") for i in range(1, nbits)], 0) + "))"]
            e.side.append(("parity-split-of-binary-sum", decls, "(= pS (+ pb0 (* 2 pR)))"))
    P = e.P
    kmax = ((1 << nbits) - 1) // P
    # "b is 0 or 1" is stated as the two bounds 0 <= b <= 1 (the same thing over the integers): measured, 255 added
    # disjunctions `b = 0 or b = 1` slow z3 down 40x on the later lemmas, bounds do not
    steps = [("bits", AND(*[f"(<= 0 {_A(b)}) (<= {_A(b)} 1)" for b in bits])),
             ("sum-mod-p", OR(*[eq(S, f"(+ {_A(x)} {k * P})") for k in range(kmax + 1)])),      # auxiliary lemma
             ("lsb-is-parity", eq(bits[0], px), True, (6, 24)),                                # auxiliary lemma (slice)
             ("sum", eq(x, S), True, (2, 8))]                                                  # the claim
    return bits, steps


STATS = {"lemma_queries": 0, "lemma_proved": 0, "solver_s": 0.0}

import re as _re
_TOK = _re.compile(r"[A-Za-z_][A-Za-z0-9_]*")


def sliced_text(e, goal, depth=6, max_width=24):
    """SMT text of `not goal` under a SUBSET of the encoder's assertions: those reachable from the goal's
    variables in at most `depth` steps through assertions mentioning at most `max_width` distinct variables
    (wide assertions - the 255-term sums - are left out unless the goal itself names their defined variable).
    Proving a lemma from fewer hypotheses is sound; measured: the same lemma that takes 2 s in its slice is not
    found in 60 s in the full context. Declarations and function definitions are always kept."""
    decl, asserts = [], []
    names = set()
    for l in e.lines:
        if l.startswith("(assert"):
            asserts.append(l)
        else:
            decl.append(l)
            if l.startswith("(declare-const"):
                names.add(l.split()[1])
    avars = [set(t for t in _TOK.findall(l) if t in names) for l in asserts]
    cur = set(t for t in _TOK.findall(goal) if t in names)
    taken = set()
    for _ in range(depth):
        new = set()
        for i, vs in enumerate(avars):
            if i in taken or not vs or len(vs) > max_width or not (vs & cur):
                continue
            taken.add(i)
            new |= vs
        if not (new - cur):
            break
        cur |= new
    for i, vs in enumerate(avars):          # bounds / unary facts of every variable reached
        if i not in taken and len(vs) == 1 and (vs & cur):
            taken.add(i)
    return "(set-logic ALL)\n" + "\n".join(decl) + "\n" + "\n".join(asserts[i] for i in sorted(taken)) + f"\n(assert (not {goal}))\n"


def prove_then_assume(e, parts, timeout=60):
    """Cut rule for a specification that is a conjunction C_1 and ... and C_n whose negation (one big disjunction)
    the solvers do not refute in one query although every conjunct takes seconds on its own. In order, each C_i is
    sent to the portfolio as `Sys and (the C_j already proved) and not C_i`; on `unsat` C_i is a consequence of
    the system and is added to the encoder's assertions (Sys and C_i is equivalent to Sys), otherwise nothing is
    added. The caller still returns the FULL conjunction as the specification, so the deciding query of
    cengine.decide is `Sys and proved facts and not (C_1 and ... and C_n)`: trivially unsat when everything was
    proved; when some C_i is violated or undecided it is not among the facts and the main query has to find the
    counterexample (exact re-check and replay as usual) or comes back INCONCLUSIVE. Returns the names proved."""
    from . import solvers
    proved = []
    for part in parts:
        name, f = part[0], part[1]
        keep = part[2] if len(part) > 2 else True      # False: proved on its own but not added (measured: 255
        #                                                redundant `b = 0 or b = 1` disjunctions slow z3 down 40x)
        sl = part[3] if len(part) > 3 else None        # (depth, max_width): prove from a slice of the system
        text = sliced_text(e, f, *sl) if sl else e.text([f"(assert (not {f}))"])
        r = solvers.solve(text, timeout=timeout)
        STATS["lemma_queries"] += 1
        STATS["solver_s"] += r.time_s
        if r.status == "unsat":
            if keep:
                e.lines.append(f"(assert {f})")
            proved.append(name)
            STATS["lemma_proved"] += 1
    return proved


# ----------------------------------------------------------------------------------------- encoder
class EarlyZeroEnc(csmt.Enc):
    """csmt.Enc with the syntactic is-zero lemma (rows a*L = 1 - r, L*r = 0  =>  r = [L = 0], a consequence of
    exactly those two rows) applied BEFORE the static range inference and the encoding of the rows instead of
    after them: the result bits of `is_equal(_to_fixed)` are then statically known bits when the rows that
    multiply by them (select, and/or/xor chains) are encoded, so those products are exact `ite` terms instead
    of abstract products with pairwise congruence lemmas. Same facts, different order."""

    def infer_bounds(self, polys):
        csmt.Enc.iszero_lemmas(self, polys)
        self._iz_done = True
        return super().infer_bounds(polys)

    def iszero_lemmas(self, polys):
        if getattr(self, "_iz_done", False):
            return
        return super().iszero_lemmas(polys)

    def constraint(self, poly, monomial_mode=False):
        """A degree-2 row every product of which contains one and the same statically Boolean atom b
        (select / cond_swap rows: b*x - b*y + y - out) is EXACTLY the case split `if b = 0 then row[b:=0]
        else row[b:=1]` of two linear rows; a two-term linear row over full-range cells is then a plain
        equality, with no product terms and no quotient."""
        P = self.P
        const, lin, quad, high = self.split_poly(poly)
        if quad and not high:
            atoms = {q[1] for q in quad} | {q[2] for q in quad}
            cands = [x for x in atoms if not isinstance(x, int) and self.bound(x) <= 2 and all(x in (a, b) for _, a, b in quad)]
            if cands:
                b = sorted(cands)[0]
                lin0 = {n: c for n, c in lin.items() if n != b}
                lin1 = dict(lin0)
                const1 = (const + lin.get(b, 0)) % P
                for k, x, y in quad:
                    o = y if x == b else x
                    if o == b:
                        const1 = (const1 + k) % P
                    else:
                        lin1[o] = (lin1.get(o, 0) + k) % P
                f0 = self.modeq([(csmt.sym(c, P), n) for n, c in sorted(lin0.items()) if c % P], csmt.sym(const, P), as_bool=True)
                f1 = self.modeq([(csmt.sym(c, P), n) for n, c in sorted(lin1.items()) if c % P], csmt.sym(const1, P), as_bool=True)
                self.lines.append(f"(assert (ite (= {b} 0) {f0} {f1}))")
                return
        return super().constraint(poly, monomial_mode)

    def fmul(self, a, b):
        """as csmt.Enc.fmul, minus the pairwise "equal operand pairs under different names give equal
        products" instances against EVERY earlier product (quadratic in the number of products: 2100 of
        the 2400 assertions of vector is_equal, M = 8). Cancellation / consistency for products that share
        a factor syntactically is kept. Leaving out implied facts is sound."""
        n0 = len(self.lines)
        t = super().fmul(a, b)
        if len(self.lines) > n0:
            self.lines[n0:] = [l for l in self.lines[n0:] if not l.startswith("(assert (=> (or (and (= ")]
        return t

    def assoc_lemmas(self, rounds=1, max_products=16):
        """no associativity instances between abstract products: the only abstract products of these
        families are inverse hints times a linear form, and the instances (each with its own pairwise
        congruence lemmas) made the counterexample search 10x slower. Leaving out implied facts is sound."""
        return

    def repair_model(self, assign):
        """Counterexample search only: a cell that occurs in exactly ONE constraint, and there only as a
        factor `a * L + rest = 0` (inverse hints of is_zero / is_equal / div), is re-solved from the model's
        other values (a := -rest / L). The solvers cannot invert modulo p, so without this every model of a
        genuinely violated obligation carries wrong abstract products and the refinement never converges.
        Nothing is trusted afterwards: cengine re-checks the repaired assignment exactly against every
        extracted constraint, re-decides the specification on it and replays it on the real MockProver."""
        assign = super().repair_model(assign)
        P = self.P
        io = set()
        for c in self.s.ins + self.s.outs:
            o = self.v(c)
            if not isinstance(o, int):
                io.add(o)
        val = lambda x: x if isinstance(x, int) else assign.get(x, 0)
        for g in self.s.d["gates"]:
            if ("gate", g["gate"], g["row"]) in self.drop:
                continue
            const, lin, quad, high = self.split_poly(g["poly"])
            if high or not quad:
                continue
            cands = set(a for _, a, b in quad) | set(b for _, a, b in quad)
            for a in sorted(cands):
                if self.occ.get(a, 0) != 1 or a in io:
                    continue
                if any((x == a) == (y == a) for _, x, y in quad):
                    continue
                Lf = (lin.get(a, 0) + sum(k * val(y if x == a else x) for k, x, y in quad)) % P
                rest = (const + sum(c * val(n) for n, c in lin.items() if n != a)) % P
                if Lf:
                    assign[a] = (-rest * pow(Lf, -1, P)) % P
                break
        return assign


class use_encoder:
    """`with use_encoder(cls): cengine.run_family(...)` — cengine.decide instantiates `csmt.Enc` by name;
    this swaps the name for the duration of one (synchronous) family run and restores it."""

    def __init__(self, cls):
        self.cls = cls

    def __enter__(self):
        self.orig = csmt.Enc
        csmt.Enc = self.cls

    def __exit__(self, *a):
        csmt.Enc = self.orig


# ------------------------------------------------------------------- honest run violates the specification
def honest_wrong_pass(run, family, entries, only=None):
    """cengine.decide answers INCONCLUSIVE ("vacuity twin ... came back unsat") when the real chip's OWN honest
    run does not meet the specification: a functional defect (wrong result computed in-circuit), for which no
    forging is needed. That case is decided here: with every cell pinned to the honest assignment (which the real
    MockProver accepted: honest_verify) the portfolio must answer `unsat` for the specification and `sat` for its
    negation; then the obligation is a VIOLATION whose replay is the honest run itself (the replay file overrides
    one instance cell with its own honest value, so the generic replayer re-runs the real prover and reports
    `accepted`)."""
    from . import cengine, solvers
    byid, seen = {}, {}
    for ent in entries:
        oid = f"{family}/{ent['op']}[{cengine.pstr(ent['params'])}]"
        if oid in seen:
            seen[oid] += 1
            oid += f"#{seen[oid]}"
        else:
            seen[oid] = 0
        byid[oid] = ent
    for ob in list(run.obs):
        ent = byid.get(ob.id)
        if ent is None or ob.status != core.INCONCLUSIVE:
            continue
        if "honest run inconsistent" in (ob.detail or ""):
            # cengine.decide tests the consistency of the honest copy classes before it looks at the real
            # prover's verdict: an honest witness that breaks a copy constraint IS a rejected honest witness
            try:
                system = cengine.extract(family, ent["op"], ent["params"], ent["ins"], ent["k"])
                if system.d.get("honest_verify") is False:
                    ob.key = ob.key + ":honest-rejected"
                    path = run.write_replay(ob, dict(kind="honest-rejected", cx=cengine.cx_args(family, ent["op"], ent["params"], ent["ins"], ent["k"])))
                    ob.set(core.VIOLATION, f"real MockProver rejects the honest witness of {ent['op']} {cengine.pstr(ent['params'])} on admissible inputs {ent['ins']} ({ob.detail})", replay=path)
                    run.log(f"{ob.status:12s} {ob.id} honest witness rejected")
            except Exception as ex:  # noqa
                ob.detail += f" | honest-rejected pass failed: {ex!r}"
            continue
        if "vacuity twin" not in (ob.detail or ""):
            continue
        try:
            system = cengine.extract(family, ent["op"], ent["params"], ent["ins"], ent["k"])
            if not system.d.get("honest_verify"):
                continue
            e = csmt.Enc(system)
            e.extra = system.d.get("extra", {})
            e.encode(ent.get("monomial", False))
            Iat = [e.v(c) for c in system.ins]
            Oat = [e.v(c) for c in system.outs]
            e._pta_done = True          # no lemma chain here: everything is pinned
            spec_smt = ent["spec"](e, Iat, Oat)
            honest = system.honest_assign()
            exact = e.exact_atoms({n: honest.get(c, 0) for c, n in e.vars.items()})
            pins = [f"(assert (= {n} {v}))" for n, v in exact.items()]
            r1 = solvers.solve(e.text(pins + [f"(assert {spec_smt})"]), timeout=60)
            r2 = solvers.solve(e.text(pins + [f"(assert (not {spec_smt}))"]), timeout=60)
            ob.queries += 2
            ob.solver_s += r1.time_s + r2.time_s
            if r1.status == "unsat" and r2.status == "sat":
                iv = {c: hex(system.honest[c]) for c in system.ins + system.outs}
                c0 = (system.ins + system.outs)[0]
                ob.key = ob.key + ":honest-output-wrong"
                path = run.write_replay(ob, dict(kind="forged-assignment", cx=cengine.cx_args(family, ent["op"], ent["params"], ent["ins"], ent["k"]),
                                                 overrides={c0: hex(system.honest[c0])}, instance=iv,
                                                 note="the honest run of the real chip itself: the real MockProver accepts it and its (inputs, outputs) on the instance column violate the operation's specification"))
                ob.set(core.VIOLATION, f"{ent['op']} {cengine.pstr(ent['params'])}: the real chip's own honest run (accepted by the real MockProver) has instance {iv} which violates the specification",
                       solver=r2.solver, replay=path)
                run.log(f"{ob.status:12s} {ob.id} honest run violates the specification")
        except Exception as ex:  # noqa
            ob.detail += f" | honest-output pass failed: {ex!r}"
