"""Helpers of the C04 families `vector` (VectorInstructions / VectorGadget) and `map` (MapGadget).

vector: layout arithmetic of `AssignedVector<_, T, M, A>` as DOCUMENTED in circuits/src/vec/vector.rs
        (front padding 0 mod A, back padding in [0, A), |front| + |payload| + |back| = M) and the
        case split on the (symbolic, range-bounded) length used by every vector specification.
map:    the hash abstraction. The harness wraps the hash chip handed to the real `MapGadget` in a
        recorder: every call `hash([a, b]) -> o` is logged as (cells of a and b, cell of o). The
        specification side declares ONE uninterpreted function Hf : Int x Int -> Int and asserts
        `o = Hf(a, b)` per recorded call (congruence is then the only thing known about the hash); in
        `hash=poseidon` mode the rows of the real PoseidonChip are cut out of the extracted system
        (`poseidon_cut`), in `hash=uf` mode the hash chip assigns its digest as a free cell."""
from . import core, csmt
from .cspec import *       # noqa: F401,F403
from .cspec import A as _A


# ------------------------------------------------------------------------------------------ vector
def lims(M, A, L):
    """(start, end) of the payload of a length-L vector in its M-cell buffer. From the struct
    documentation: back padding b in [0, A), front padding f = 0 (mod A), f + L + b = M. For A | M
    that determines b = (-L) mod A uniquely."""
    assert M % A == 0 and 0 <= L <= M
    back = (-L) % A
    return M - L - back, M - back


def split_vec(atoms, M, at=0):
    """(buffer atoms, length atom) of the vector exposed at position `at` of an instance list."""
    return list(atoms[at:at + M]), atoms[at + M]


def by_len(length, M, f, lo=0):
    """Dom: lo <= len <= M; and for each concrete L in that range: len = L => f(L)."""
    return AND(le(lo, length), le(length, M), *[IMP(eq(length, L), f(L)) for L in range(lo, M + 1)])


def payload(buf, M, A, L):
    s, e = lims(M, A, L)
    return buf[s:e]


def vec_input(M, payload_vals):
    """`in=` encoding of one vector: <len> then M element slots."""
    assert len(payload_vals) <= M
    return [len(payload_vals)] + list(payload_vals) + [0] * (M - len(payload_vals))


# --------------------------------------------------------------------------------------------- map
TREE_HEIGHT = 128          # circuits/src/map/cpu.rs (the API offers no other height)


class HashCalls:
    """The recorded hash calls of one extracted circuit as atoms of the encoder, plus the uninterpreted
    function they are instances of."""

    def __init__(self, e):
        self.e = e
        rec = e.extra.get("hash_calls") or []
        self.calls = [([e.v(c) for c in r["ins"]], e.v(r["out"])) for r in rec]
        if not getattr(e, "_hf_declared", False):
            e._hf_declared = True
            e.lines.append("(declare-fun Hf (Int Int) Int)")
            e.lines.append(f"(assert (forall ((x Int) (y Int)) (and (<= 0 (Hf x y)) (< (Hf x y) {e.P}))))" if False else "; Hf: range facts are stated per call")
            for ins, out in self.calls:
                assert len(ins) == 2, "MapGadget hashes pairs"
                e.lines.append(f"(assert (= {_A(out)} (Hf {_A(ins[0])} {_A(ins[1])})))")

    def H(self, a, b):
        return f"(Hf {_A(a)} {_A(b)})"


def poseidon_cut(system):
    """drop-set for cengine.decide: every extracted row of a gate the PoseidonChip configured (the names
    are reported by the harness: gates created between the native gadget's configure and the end of the
    hash chip's configure)."""
    names = set(system.d.get("extra", {}).get("hash_gates") or [])
    drop = set()
    for g in system.d["gates"]:
        if g["gate"].rsplit(":", 1)[0] in names:
            drop.add(("gate", g["gate"], g["row"]))
    return drop


# ----------------------------------------------------------------------------------------- encoder
class EarlyZeroEnc(csmt.Enc):
    """csmt.Enc with the syntactic is-zero lemma (rows a*L = 1 - r, L*r = 0  =>  r = [L = 0], a consequence of
    exactly those two rows) applied BEFORE the static range inference and the encoding of the rows instead of
    after them: the result bits of `is_equal(_to_fixed)` are then statically known bits when the rows that
    multiply by them (select, and/or/xor chains) are encoded, so those products are exact `ite` terms instead
    of abstract products with pairwise congruence lemmas. Same facts, different order."""

    def infer_bounds(self, polys):
        csmt.Enc.iszero_lemmas(self, polys)
        self._iz_done = True
        return super().infer_bounds(polys)

    def iszero_lemmas(self, polys):
        if getattr(self, "_iz_done", False):
            return
        return super().iszero_lemmas(polys)

    def fmul(self, a, b):
        """as csmt.Enc.fmul, minus the pairwise "equal operand pairs under different names give equal
        products" instances against EVERY earlier product (quadratic in the number of products: 2100 of
        the 2400 assertions of vector is_equal, M = 8). Cancellation / consistency for products that share
        a factor syntactically is kept. Leaving out implied facts is sound."""
        n0 = len(self.lines)
        t = super().fmul(a, b)
        if len(self.lines) > n0:
            self.lines[n0:] = [l for l in self.lines[n0:] if not l.startswith("(assert (=> (or (and (= ")]
        return t

    def assoc_lemmas(self, rounds=1, max_products=16):
        """no associativity instances between abstract products: the only abstract products of these
        families are inverse hints times a linear form, and the instances (each with its own pairwise
        congruence lemmas) made the counterexample search 10x slower. Leaving out implied facts is sound."""
        return

    def repair_model(self, assign):
        """Counterexample search only: a cell that occurs in exactly ONE constraint, and there only as a
        factor `a * L + rest = 0` (inverse hints of is_zero / is_equal / div), is re-solved from the model's
        other values (a := -rest / L). The solvers cannot invert modulo p, so without this every model of a
        genuinely violated obligation carries wrong abstract products and the refinement never converges.
        Nothing is trusted afterwards: cengine re-checks the repaired assignment exactly against every
        extracted constraint, re-decides the specification on it and replays it on the real MockProver."""
        assign = super().repair_model(assign)
        P = self.P
        io = set()
        for c in self.s.ins + self.s.outs:
            o = self.v(c)
            if not isinstance(o, int):
                io.add(o)
        val = lambda x: x if isinstance(x, int) else assign.get(x, 0)
        for g in self.s.d["gates"]:
            if ("gate", g["gate"], g["row"]) in self.drop:
                continue
            const, lin, quad, high = self.split_poly(g["poly"])
            if high or not quad:
                continue
            cands = set(a for _, a, b in quad) | set(b for _, a, b in quad)
            for a in sorted(cands):
                if self.occ.get(a, 0) != 1 or a in io:
                    continue
                if any((x == a) == (y == a) for _, x, y in quad):
                    continue
                Lf = (lin.get(a, 0) + sum(k * val(y if x == a else x) for k, x, y in quad)) % P
                rest = (const + sum(c * val(n) for n, c in lin.items() if n != a)) % P
                if Lf:
                    assign[a] = (-rest * pow(Lf, -1, P)) % P
                break
        return assign


class use_encoder:
    """`with use_encoder(cls): cengine.run_family(...)` — cengine.decide instantiates `csmt.Enc` by name;
    this swaps the name for the duration of one (synchronous) family run and restores it."""

    def __init__(self, cls):
        self.cls = cls

    def __enter__(self):
        self.orig = csmt.Enc
        csmt.Enc = self.cls

    def __exit__(self, *a):
        csmt.Enc = self.orig
