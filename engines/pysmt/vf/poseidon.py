"""C07 / Poseidon: "normalise, then let the solver compare".

Every value (cell of the extracted constraint system, state word of the textbook permutation, output of the
real off-circuit code run on the symbolic field) is an EXACT linear form over F_p in ATOMS:

    form  ::=  { term: coeff mod p }        term = 1 | "x<i>" (input variable) | "A<j>" (atom)
    atom  ::=  pow5(<canonical linear form>) | pow3(<canonical linear form>)     hash-consed on the form

* System side (`Propagator`): starting from the input instance cells (variables), a gate polynomial of the
  extracted system whose cells are all known except ONE, which occurs only linearly with a non-zero constant
  coefficient, DEFINES that cell: its value is the unique solution. Monomials of known cells are reduced to
  atoms (all factors must be powers of one linear form, total degree 3 or 5); anything else is
  untranslatable. Because every step is "unique solution of a row given earlier cells", the derived form of
  a cell is implied by the constraints for EVERY assignment (soundness direction); a cell no row determines
  stays underived, and an output that is not derived makes the obligation fail (a forged assignment is then
  constructed and replayed on the real MockProver).
* Specification side (`textbook_permutation`, `sponge_*`): the Poseidon permutation as in the paper
  (AddRoundConstants, S-box x^5 on all words in full rounds / on one word in partial rounds, MDS), R_F/2 full,
  R_P partial, R_F/2 full rounds, constants READ from the current tree (extractor `extra.constants`).
* Decision: equality of two linear forms over the same atoms = coefficient-wise equality, sent to the solver
  portfolio as a ground query "some coefficient differs" (unsat = HOLDS) with a perturbed twin that must be sat.
"""
import json, os, random, subprocess, time
from . import core, solvers, csmt
from .core import HOLDS, VIOLATION, INCONCLUSIVE

P = csmt.P_BLS


class Untranslatable(Exception):
    pass


# ------------------------------------------------------------------------------------------------ forms
class Atoms:
    """hash-consed atoms pow_k(form)"""

    def __init__(self):
        self.tab = []          # j -> (k, key, form)
        self.idx = {}

    def pw(self, form, k):
        c = const_of(form)
        if c is not None:
            return cst(pow(c, k, P))
        key = (k, fkey(form))
        j = self.idx.get(key)
        if j is None:
            j = len(self.tab)
            self.tab.append((k, key, dict(form)))
            self.idx[key] = j
        return {f"A{j}": 1}

    def single(self, form):
        """(coeff, k, base form) when `form` is exactly coeff * atom, else None"""
        if len(form) == 1:
            (t, c), = form.items()
            if t != 1 and t.startswith("A"):
                k, _, base = self.tab[int(t[1:])]
                return c, k, base
        return None

    def product(self, forms):
        """exact product of values given as forms, as a form; every non-constant factor must be a power of
        one common linear form, total degree 3 or 5"""
        scal = 1
        rest = []
        for f in forms:
            c = const_of(f)
            if c is not None:
                scal = scal * c % P
            else:
                rest.append(f)
        if scal == 0:
            return {}
        if not rest:
            return cst(scal)
        if len(rest) == 1:
            return scale(rest[0], scal)
        groups = {}
        for f in rest:
            k = fkey(f)
            g = groups.setdefault(k, [f, 0])
            g[1] += 1
        if len(groups) == 1:
            (f, n), = groups.values()
            if n in (3, 5):
                return scale(self.pw(f, n), scal)
            raise Untranslatable(f"power {n} of a form (only x^3 hints and x^5 S-boxes are translatable)")
        if len(groups) == 2:
            (f1, n1), (f2, n2) = groups.values()
            for (fa, na), (fb, nb) in (((f1, n1), (f2, n2)), ((f2, n2), (f1, n1))):
                s = self.single(fb)
                if s and fkey(s[2]) == fkey(fa):
                    c, k, base = s
                    n = na + k * nb
                    if n in (3, 5):
                        return scale(self.pw(base, n), scal * pow(c, nb, P) % P)
        raise Untranslatable("product of different non-constant forms (not an S-box)")

    def eval(self, form, env, memo=None):
        """exact value of a form at env: var name -> int"""
        memo = {} if memo is None else memo
        acc = 0
        for t, c in form.items():
            if t == 1:
                v = 1
            elif t.startswith("A"):
                j = int(t[1:])
                if j not in memo:
                    k, _, base = self.tab[j]
                    memo[j] = pow(self.eval(base, env, memo), k, P)
                v = memo[j]
            else:
                v = env[t]
            acc = (acc + c * v) % P
        return acc


def cst(c):
    c %= P
    return {1: c} if c else {}


def var(name):
    return {name: 1}


def const_of(form):
    if not form:
        return 0
    if len(form) == 1 and 1 in form:
        return form[1]
    return None


def fkey(form):
    return tuple(sorted(((str(t), c) for t, c in form.items())))


def add(a, b, kb=1):
    r = dict(a)
    for t, c in b.items():
        v = (r.get(t, 0) + kb * c) % P
        if v:
            r[t] = v
        else:
            r.pop(t, None)
    return r


def scale(a, k):
    k %= P
    if k == 0:
        return {}
    return {t: c * k % P for t, c in a.items()}


def lincomb(pairs):
    r = {}
    for k, f in pairs:
        r = add(r, f, k)
    return r


# ------------------------------------------------------------------------------------------------ specification
class Params:
    def __init__(self, cj):
        self.t = cj["width"]
        self.rate = cj["rate"]
        self.rf = cj["r_f"]
        self.rp = cj["r_p"]
        self.mds = [[int(x, 16) for x in row] for row in cj["mds"]]
        self.rc = [[int(x, 16) for x in row] for row in cj["round_constants"]]
        assert int(cj["modulus"], 16) == P
        assert len(self.mds) == self.t and all(len(r) == self.t for r in self.mds)
        assert len(self.rc) == self.rf + self.rp and all(len(r) == self.t for r in self.rc)
        # which word carries the partial-round S-box: the instance documented in hash/poseidon/mod.rs
        # ("(x y z^5) * MDS": the LAST word)
        self.partial_index = self.t - 1

    def is_full(self, r):
        return r < self.rf // 2 or r >= self.rf // 2 + self.rp


def textbook_rounds(A, prm, state, r0, r1):
    """rounds r0..r1-1 of the Poseidon permutation (Grassi et al., section 2.3): ARC, S-box layer, M x state."""
    t = prm.t
    for r in range(r0, r1):
        state = [add(state[i], cst(prm.rc[r][i])) for i in range(t)]
        if prm.is_full(r):
            state = [A.pw(s, 5) for s in state]
        else:
            state = list(state)
            state[prm.partial_index] = A.pw(state[prm.partial_index], 5)
        state = [lincomb([(prm.mds[i][j], state[j]) for j in range(t)]) for i in range(t)]
    return state


def textbook_permutation(A, prm, state):
    return textbook_rounds(A, prm, state, 0, prm.rf + prm.rp)


class FormDom:
    """specification evaluated on forms (symbolic)"""

    def __init__(self, A, prm):
        self.A, self.prm = A, prm

    def cst(self, c):
        return cst(c)

    def add(self, a, b):
        return add(a, b)

    def perm(self, st):
        return textbook_permutation(self.A, self.prm, st)


class NumDom:
    """specification evaluated on integers mod p (naive textbook evaluation; used for replays only)"""

    def __init__(self, prm):
        self.prm = prm

    def cst(self, c):
        return c % P

    def add(self, a, b):
        return (a + b) % P

    def perm(self, st):
        prm = self.prm
        st = list(st)
        for r in range(prm.rf + prm.rp):
            st = [(st[i] + prm.rc[r][i]) % P for i in range(prm.t)]
            if prm.is_full(r):
                st = [pow(x, 5, P) for x in st]
            else:
                st[prm.partial_index] = pow(st[prm.partial_index], 5, P)
            st = [sum(prm.mds[i][j] * st[j] for j in range(prm.t)) % P for i in range(prm.t)]
        return st


def sponge_hash_spec(D, inputs):
    """fixed-length hash (HashInstructions::hash, SpongeInstructions with input_len = Some(n)): capacity word
    = n, message split in RATE-blocks added to the rate part, one permutation per block (the last block may be
    short; no padding: the length sits in the capacity), digest = first rate word."""
    prm = D.prm
    st = [D.cst(0)] * prm.rate + [D.cst(len(inputs))] + [D.cst(0)] * (prm.t - prm.rate - 1)
    for b in range(0, len(inputs), prm.rate):
        blk = inputs[b:b + prm.rate]
        st = [D.add(st[i], blk[i]) if i < len(blk) else st[i] for i in range(prm.t)]
        st = D.perm(st)
    return [st[0]]


def sponge_script_spec(D, script, inputs):
    """variable-length / transcript mode (init(None)): capacity word = 2^64. absorb appends to the queue and
    resets the squeeze position. squeeze at position 0: append the queue length as padding word, absorb the queue
    in RATE-blocks (one permutation per block), return word 0; following squeezes return words 1..RATE-1, then
    the position wraps to 0 (next squeeze digests again)."""
    prm = D.prm
    st = [D.cst(0)] * prm.rate + [D.cst(1 << 64)] + [D.cst(0)] * (prm.t - prm.rate - 1)
    queue, pos, outs, nxt = [], 0, [], 0
    for is_abs, n in script:
        if is_abs:
            queue += inputs[nxt:nxt + n]
            nxt += n
            pos = 0
        else:
            for _ in range(n):
                if pos > 0:
                    outs.append(st[pos % prm.rate])
                    pos = (pos + 1) % prm.rate
                    continue
                queue.append(D.cst(len(queue)))
                for b in range(0, len(queue), prm.rate):
                    blk = queue[b:b + prm.rate]
                    st = [D.add(st[i], blk[i]) if i < len(blk) else st[i] for i in range(prm.t)]
                    st = D.perm(st)
                queue = []
                pos = 1 % prm.rate
                outs.append(st[0])
    return outs


def spec_outputs(D, op, params, inputs):
    """specification of an operation (circuit op or its cpu_ counterpart) on domain D"""
    op = op[4:] if op.startswith("cpu_") else op
    if op == "perm":
        return D.perm(list(inputs))
    if op == "hash":
        return sponge_hash_spec(D, list(inputs))
    if op == "sponge":
        return sponge_script_spec(D, parse_script(params["script"]), list(inputs))
    raise KeyError(op)


def parse_script(s):
    return [(x[0] == "a", int(x[1:])) for x in s.split(".") if x]


# ------------------------------------------------------------------------------------------------ system side
class Propagator:
    def __init__(self, system, A):
        self.s = system
        self.A = A
        self.known = {}        # class -> form
        self.defined_by = {}   # class -> index of the defining polynomial
        self.polys = []        # (gate, row, {tuple(sorted classes): coeff}, set(classes))
        for g in system.d["gates"]:
            mono = {}
            for ch, cells in g["poly"]:
                c = int(ch, 16) % P
                cl = []
                for cell in cells:
                    r = system.cls(cell)
                    if r in system.const:
                        c = c * system.const[r] % P
                    else:
                        cl.append(r)
                k = tuple(sorted(cl))
                v = (mono.get(k, 0) + c) % P
                if v:
                    mono[k] = v
                else:
                    mono.pop(k, None)
            if mono:
                self.polys.append((g["gate"], g["row"], mono, {c for k in mono for c in k}))
        self.polys.sort(key=lambda p: p[1])
        self.used = [None] * len(self.polys)   # None | ("def", class) | ("check", residual form)
        self.order = []                        # classes in derivation order
        self.oracle_cells = []                 # classes whose constant value was supplied by the solver oracle

    def mono_form(self, k):
        return self.A.product([self.known[c] for c in k]) if k else cst(1)

    def residual(self, i, skip=None):
        """sum of the known monomials of polynomial i as a form"""
        acc = {}
        for k, c in self.polys[i][2].items():
            if skip is not None and skip in k:
                continue
            acc = add(acc, self.mono_form(k), c)
        return acc

    def solvable(self, i):
        """(class, coeff) when polynomial i has exactly one unknown class, it occurs with degree one in each
        of its monomials and every co-factor is a known CONSTANT; None otherwise. The polynomial is then
        coeff * u + (known) = 0 with a unique solution for u."""
        _, _, mono, classes = self.polys[i]
        unk = [c for c in classes if c not in self.known]
        if len(unk) != 1:
            return None
        u = unk[0]
        coeff = 0
        for k, c in mono.items():
            if u in k:
                if k.count(u) != 1:
                    return None
                co = 1
                for x in k:
                    if x != u:
                        v = const_of(self.known[x])
                        if v is None:
                            return None
                        co = co * v % P
                coeff = (coeff + c * co) % P
        return (u, coeff) if coeff else None

    def run(self, rows=None, oracle=None, max_oracle=60):
        """derive to a fixpoint (restricted to polynomials of the given rows when `rows` is set). `oracle(class)`
        may supply the value of a cell that the solver proved to be a determined constant (control logic
        that unique-solution propagation cannot see through: quotient/remainder hints, range-checked limbs)."""
        asked = set()
        while True:
            progress = True
            while progress:
                progress = False
                for i, (gate, row, mono, classes) in enumerate(self.polys):
                    if self.used[i] is not None or (rows is not None and row not in rows):
                        continue
                    if all(c in self.known for c in classes):
                        self.used[i] = ("check", self.residual(i))
                        continue
                    sv = self.solvable(i)
                    if sv is None:
                        continue
                    u, coeff = sv
                    rest = self.residual(i, skip=u)
                    self.known[u] = scale(rest, -pow(coeff, -1, P))
                    self.defined_by[u] = i
                    self.used[i] = ("def", u)
                    self.order.append(u)
                    progress = True
            if oracle is None:
                return
            added = False
            for i, (gate, row, mono, classes) in enumerate(self.polys):
                if self.used[i] is not None:
                    continue
                for c in sorted(classes):
                    if c in self.known or c in asked or len(asked) >= max_oracle:
                        continue
                    asked.add(c)
                    v = oracle(c)
                    if v is not None:
                        self.known[c] = cst(v)
                        self.order.append(c)
                        self.oracle_cells.append(c)
                        added = True
                if added:
                    break
            if not added:
                return

    def failed_checks(self):
        return [(self.polys[i][0], self.polys[i][1]) for i, u in enumerate(self.used) if u and u[0] == "check" and u[1]]

    def unused(self):
        return [(self.polys[i][0], self.polys[i][1]) for i, u in enumerate(self.used) if u is None]


def concrete_assignment(system, inputs_env, honest, perturb=True, rnd=None, skip=0):
    """A real assignment of the extracted system for the given input values: solve rows for their single
    unknown cell; when stuck on a class that no row determines, give it a value different from the honest
    one (that freedom is exactly what an under-constrained cell offers a prover). Returns (class -> value,
    list of freely chosen classes)."""
    rnd = rnd or random.Random(1)
    val = dict(inputs_env)
    polys = []
    for g in system.d["gates"]:
        mono = []
        classes = set()
        for ch, cells in g["poly"]:
            c = int(ch, 16) % P
            cl = []
            for cell in cells:
                r = system.cls(cell)
                if r in system.const:
                    c = c * system.const[r] % P
                else:
                    cl.append(r)
                    classes.add(r)
            mono.append((c, cl))
        polys.append((g["row"], mono, classes))
    polys.sort(key=lambda p: p[0])
    done = [False] * len(polys)
    free = []
    while True:
        progress = True
        while progress:
            progress = False
            for i, (row, mono, classes) in enumerate(polys):
                if done[i]:
                    continue
                unk = [c for c in classes if c not in val]
                if not unk:
                    done[i] = True
                    continue
                if len(unk) != 1:
                    continue
                u = unk[0]
                a = b = 0
                ok = True
                for c, cl in mono:
                    if u in cl:
                        if cl.count(u) != 1:
                            ok = False
                            break
                        t = c
                        for x in cl:
                            if x != u:
                                t = t * val[x] % P
                        a = (a + t) % P
                    else:
                        t = c
                        for x in cl:
                            t = t * val[x] % P
                        b = (b + t) % P
                if not ok or a == 0:
                    continue
                val[u] = (-b) * pow(a, -1, P) % P
                done[i] = True
                progress = True
        rem = [i for i in range(len(polys)) if not done[i]]
        if not rem:
            break
        # stuck: among the unknown cells of the earliest remaining row prefer one that is an S-box input
        # (occurs in a non-linear monomial), then the earliest cell in (row, column) order; `skip` lets the
        # caller try the next candidate
        row, mono, classes = polys[rem[0]]
        nonlin = {x for i in rem for c, cl in polys[i][1] if len(cl) > 1 for x in cl}

        def pos(c):
            try:
                col, rr = c[1:].split("_")
                return (0 if c[0] == "a" else 1, int(rr), int(col))
            except ValueError:
                return (2, 0, 0)
        unk = sorted((c for c in classes if c not in val), key=lambda c: (c not in nonlin, pos(c)))
        if not unk:
            break
        u = unk[min(skip, len(unk) - 1)]
        skip = 0
        val[u] = (honest.get(u, 0) + (rnd.randrange(1, P) if perturb else 0)) % P
        free.append(u)
    return val, free


# ------------------------------------------------------------------------------------------------ solver step
def ground_compare(pairs, timeout=30):
    """pairs: [(a, b)] canonical coefficients in [0,p). Query: some pair differs. Returns the solver result
    and whether the perturbed twin (one coefficient + 1) is sat."""
    def text(ps):
        lines = ["(set-logic ALL)"]
        names = []
        for i in range(0, len(ps), 100):
            nm = f"d{i // 100}"
            dis = " ".join(f"(distinct {a} {b})" for a, b in ps[i:i + 100])
            lines.append(f"(define-fun {nm} () Bool (or false {dis}))")
            names.append(nm)
        lines.append(f"(assert (or false {' '.join(names)}))")
        return "\n".join(lines)
    pairs = list(pairs) or [(0, 0)]
    r = solvers.solve(text(pairs), timeout=timeout)
    tw = list(pairs)
    tw[0] = (tw[0][0], (tw[0][1] + 1) % P)
    t = solvers.solve(text(tw), timeout=timeout)
    return r, t.status == "sat"


def compare_forms(ob, got, want, timeout=30):
    """got/want: lists of forms. Returns (status, differing [(index, term)])"""
    pairs, diff = [], []
    for i, (g, w) in enumerate(zip(got, want)):
        for t in sorted(set(g) | set(w), key=str):
            a, b = g.get(t, 0), w.get(t, 0)
            pairs.append((a, b))
            if a != b:
                diff.append((i, t))
    r, twin = ground_compare(pairs, timeout)
    ob.queries += 2
    ob.solver_s += r.time_s
    ob.solver = r.solver
    if twin:
        ob.vacuity = True
    if r.status == "unsat" and not twin:
        return "unknown", diff
    if (r.status == "unsat") != (not diff):
        return "unknown", diff      # solver and exact arithmetic disagree: never trusted
    return r.status, diff


# ------------------------------------------------------------------------------------------------ running cx
def cx_json(args, timeout=120):
    from . import cengine
    cengine.build()
    p = subprocess.run([cengine.CX] + args, capture_output=True, text=True, timeout=timeout)
    if p.returncode != 0:
        msg = p.stderr[p.stderr.find("panicked at"):][:500] if "panicked at" in p.stderr else p.stderr[-500:]
        raise Untranslatable(f"cx {' '.join(args)}: {msg}")
    return json.loads(p.stdout)


def import_rust_forms(A, d, varnames):
    """translate the atoms/outputs of a symbolic run of the real off-circuit code (symp::PF) into python forms
    over the shared atom table"""
    nv = d["nvars"]
    amap = {}

    def conv(f):
        assert f["pw"] == 1
        r = cst(int(f["c0"], 16))
        for idx, ch in f["terms"]:
            c = int(ch, 16)
            if idx < nv:
                r = add(r, var(varnames[idx]), c)
            else:
                r = add(r, amap[idx - nv], c)
        return r
    for j, a in enumerate(d["atoms"]):
        amap[j] = A.pw(conv(a), 5)
    return [conv(o) for o in d["out"]]


def hexes(vals):
    return [hex(v) for v in vals]


# ------------------------------------------------------------------------------------------------ obligations
ENGINE = "C"
FUNCS_CHIP = ["midnight_circuits::hash::poseidon::PoseidonChip::permutation", "PoseidonChip::full_round", "PoseidonChip::partial_round",
              "round_skips::RoundId::generate", "round_skips::RoundId::to_expression", "round_skips::RoundId::round_constants_circuit",
              "NativeChip::add_constants_in_region"]
FUNCS_SPONGE = ["PoseidonChip::init", "PoseidonChip::absorb", "PoseidonChip::squeeze", "HashInstructions::hash(PoseidonChip)"]
FUNCS_CPU = ["midnight_circuits::hash::poseidon::permutation_cpu", "poseidon_cpu::full_round_cpu", "poseidon_cpu::partial_round_cpu",
             "round_skips::RoundId::eval", "round_skips::RoundId::round_constants_cpu", "round_skips::PreComputedRoundCPU::init"]


def pstr(params):
    return ",".join(f"{k}={v}" for k, v in sorted(params.items()))


def cells_of(system):
    cells = set(system.honest) | set(system.uf.p)
    return [c for c in cells if c[0] in "ai"]


def forge(run, ob, system, A, want, names, op, params, ins, k, seeds=(None, 11, 12), input_sets=None, perturbs=((True, 0), (True, 1), (True, 2), (False, 0)), pr=None):
    """Look for a real assignment of the extracted system whose outputs are not the specified ones and replay
    it on the real MockProver. Returns True when a VIOLATION was recorded."""
    from . import cengine
    honest = system.honest_assign()
    in_cls = [system.cls(c) for c in system.ins]
    out_cls = [system.cls(c) for c in system.outs]
    hon_in = [int(x["value"], 16) for x in system.io if x["dir"] == "in"]
    if input_sets is None:
        input_sets = []
        for sd in seeds:
            rnd = random.Random(sd)
            input_sets.append(hon_in if sd is None else [rnd.randrange(P) for _ in in_cls])
    for vals in input_sets:
        env_cls = {c: v for c, v in zip(in_cls, vals)}
        for perturb, skip in ((("forms", 0),) if pr is not None else ()) + tuple(perturbs):
            if perturb == "forms":
                # every derived cell evaluated from its form at the chosen inputs; cells the propagation did not
                # derive (hints, limbs of control values) keep their honest value
                env0 = {n: v for n, v in zip(names, vals)}
                memo = {}
                assign, free = dict(env_cls), []
                try:
                    for c, f in pr.known.items():
                        assign[c] = A.eval(f, env0, memo)
                except KeyError:
                    continue
            else:
                assign, free = concrete_assignment(system, env_cls, honest, perturb=perturb, rnd=random.Random(7), skip=skip)
            for c in system.used_classes():
                assign.setdefault(c, honest.get(c, 0))
            if system.check_exact(assign):
                continue
            env = {n: v for n, v in zip(names, vals)}
            exp = [A.eval(f, env) for f in want]
            got = [assign[c] if c not in system.const else system.const[c] for c in out_cls]
            if got == exp:
                continue
            ov = {}
            for cell in cells_of(system):
                r = system.cls(cell)
                if r in assign:
                    ov[cell] = hex(assign[r])
            res, err = cengine.replay("poseidon", op, params, ins, k, ov)
            if res and res.get("accepted"):
                path = run.write_replay(ob, dict(kind="forged-assignment", cx=cengine.cx_args("poseidon", op, params, ins, k), overrides=ov,
                                                 inputs=hexes(vals), outputs_accepted=hexes(got), outputs_specified=hexes(exp),
                                                 freely_chosen_cells=free, op_spec=dict(op=op, params=params), engine_part="C",
                                                 note="real MockProver::verify() accepts this assignment although the outputs on the instance column are not the specified Poseidon outputs of the inputs"))
                ob.set(VIOLATION, f"{op} {pstr(params)}: the real MockProver accepts inputs {hexes(vals)[:3]} with outputs {hexes(got)[:3]}; specified {hexes(exp)[:3]}"
                       + (f"; cells left free by the constraints: {free[:4]}" if free else ""), replay=path)
                return True
    return False


def chip_e2e(run, oid, what, op, params, ins, k=10, key=None, funcs=None, timeout=30, per_output=True):
    """Sys => outputs = Spec(inputs) for every assignment, for one extracted circuit. One obligation per
    output word. Returns (system, propagator, atoms, spec forms) for the row-local obligations."""
    from . import cengine
    obs = []
    ob0 = core.Ob(oid, ENGINE, what, functions=funcs or FUNCS_CHIP, bound=f"k={k} {pstr(params)}", key=key or oid)
    run.add(ob0)
    try:
        system = cengine.extract("poseidon", op, params, ins, k)
    except cengine.ExtractPanic as ex:
        ob0.key += ":honest-panics"
        ob0.set(VIOLATION, f"the real synthesis panics on admissible inputs: {ex}",
                replay=run.write_replay(ob0, dict(kind="honest-panics", cx=cengine.cx_args("poseidon", op, params, ins, k))))
        return None
    except cengine.ExtractError as ex:
        ob0.set(INCONCLUSIVE, f"extraction failed: {ex}")
        return None
    d = system.d
    try:
        honest = system.honest_assign()
    except AssertionError as ex:
        ob0.set(INCONCLUSIVE, f"honest run inconsistent: {ex}")
        return None
    bad = system.check_exact(honest)
    if d["honest_verify"] and bad:
        ob0.set(INCONCLUSIVE, f"extractor/encoder disagree with MockProver on the honest run: {bad[:3]}")
        return None
    if d["lookups"]:
        ob0.set(INCONCLUSIVE, "untranslatable: the extracted system contains lookups (atom propagation handles polynomial rows only)")
        return None
    prm = Params(d["extra"]["constants"])
    A = Atoms()
    names = [f"x{i}" for i in range(len(system.ins))]
    try:
        pr = Propagator(system, A)
        for c, n in zip(system.ins, names):
            r = system.cls(c)
            if r in system.const:
                raise Untranslatable(f"input cell {c} is pinned to a constant")
            if r in pr.known:
                raise Untranslatable(f"two input cells share a copy class ({c})")
            pr.known[r] = var(n)
        pr.run()
        want = spec_outputs(FormDom(A, prm), op, params, [var(n) for n in names])
    except Untranslatable as ex:
        ob0.set(INCONCLUSIVE, f"untranslatable: {ex}")
        return None
    outs_cls = [system.cls(c) for c in system.outs]
    if len(outs_cls) != len(want):
        ob0.set(INCONCLUSIVE, f"harness exposes {len(outs_cls)} outputs, specification has {len(want)}")
        return None
    got = [cst(system.const[c]) if c in system.const else pr.known.get(c) for c in outs_cls]
    ob0.sample = dict(op=op, params=params, gates=len(d["gates"]), derived_cells=len(pr.order), atoms=len(A.tab))
    # translator validation: real chip honest run == real off-circuit code == forms evaluated at the honest inputs
    hon_in = [int(x["value"], 16) for x in system.io if x["dir"] == "in"]
    hon_out = [int(x["value"], 16) for x in system.io if x["dir"] == "out"]
    env = dict(zip(names, hon_in))
    tv = dict(cpu_equals_chip=[int(x, 16) for x in d["extra"]["cpu_out"]] == hon_out,
              spec_forms_at_honest_equal_chip=[A.eval(f, env) for f in want] == hon_out,
              numeric_textbook_equals_chip=spec_outputs(NumDom(prm), op, params, hon_in) == hon_out)
    # obligations
    forged = {}

    def forge_once(ob):
        """one search per extracted system; every failing output word refers to the same replay"""
        if "r" not in forged:
            forged["r"] = forge(run, ob, system, A, want, names, op, params, ins, k)
            forged["ob"] = ob
        elif forged["r"]:
            ob.set(VIOLATION, forged["ob"].detail, replay=forged["ob"].replay)
        return forged["r"]

    def honest_rejected(ob):
        ob.key = (key or oid) + ":honest-rejected"
        ob.set(VIOLATION, f"real MockProver rejects the honest witness of {op} {pstr(params)} on inputs {hexes(hon_in)[:3]}",
               replay=run.write_replay(ob, dict(kind="honest-rejected", engine_part="C", cx=cengine.cx_args("poseidon", op, params, ins, k))))

    for i in range(len(want)):
        ob = ob0 if i == 0 else core.Ob(f"{oid}#out{i}", ENGINE, what, functions=funcs or FUNCS_CHIP, bound=ob0.bound, key=key or oid)
        if i == 0:
            ob.id = f"{oid}#out{i}"
        else:
            run.add(ob)
        obs.append(ob)
        ob.sample = ob0.sample
        if got[i] is None:
            # the constraints do not determine this output word
            if forge_once(ob):
                ob.key = (key or oid) + ":output-not-determined"
            elif not d["honest_verify"]:
                honest_rejected(ob)
            else:
                ob.set(INCONCLUSIVE, f"output word {i} is not determined by unique-solution propagation (rows not used: {pr.unused()[:4]}) and no forged assignment replayed")
            continue
        st, diff = compare_forms(ob, [got[i]], [want[i]], timeout)
        if st == "unsat":
            if not d["honest_verify"]:
                honest_rejected(ob)     # the gates are right, the witness generator is not: completeness failure
            else:
                extra_checks = pr.failed_checks()
                ob.set(HOLDS, detail=(f"note: {len(extra_checks)} fully-determined rows impose extra conditions on the inputs: {extra_checks[:3]}" if extra_checks else ""))
        elif st == "sat":
            if forge_once(ob):
                ob.key = (key or oid) + ":output-differs"
            elif not d["honest_verify"]:
                honest_rejected(ob)
            else:
                ob.set(INCONCLUSIVE, f"derived form of output {i} differs from the specification in {len(diff)} coefficients but no forged assignment replayed on MockProver")
        else:
            ob.set(INCONCLUSIVE, f"solver: {st}")
    return dict(system=system, prop=pr, A=A, prm=prm, want=want, names=names, tv=tv, obs=obs)


def poseidon_rows(system, pr):
    """rows of the extracted system that carry an S-box (a monomial of degree >= 3), in order, with their state
    input cells, output cells and number of Poseidon rounds"""
    rows = {}
    for i, (gate, row, mono, classes) in enumerate(pr.polys):
        rows.setdefault(row, []).append(i)
    out = []
    for row in sorted(rows):
        idx = rows[row]
        if not any(len(k) >= 3 for i in idx for k in pr.polys[i][2]):
            continue
        cls_at = {}
        for g in system.d["gates"]:
            if g["row"] != row:
                continue
            for _, cells in g["poly"]:
                for c in cells:
                    if c[0] == "a":
                        col, rr = c[1:].split("_")
                        cls_at[(int(rr), int(col))] = system.cls(c)
        # structural: state cells of row r = cells of row r that the previous row's polynomials also mention
        # (its "next" cells); outputs = cells of row r+1 mentioned by this row; the rest of row r is auxiliary
        prev = set()
        for i in rows.get(row - 1, []):
            prev |= pr.polys[i][3]
        ins = [(col, c) for (rr, col), c in sorted(cls_at.items()) if rr == row and c in prev and c not in system.const]
        outs = [(col, c) for (rr, col), c in sorted(cls_at.items()) if rr == row + 1 and c not in system.const]
        aux = [c for (rr, col), c in sorted(cls_at.items()) if rr == row and c not in prev and c not in system.const]
        sboxed = {c for i in idx for k in pr.polys[i][2] if len(k) >= 3 for c in k}
        in_cls = [c for _, c in ins]
        full = all(c in sboxed for c in in_cls)
        # cells raised to the 5th power on their own (partial rounds): one round each
        p5 = {k[0] for i in idx for k in pr.polys[i][2] if len(k) == 5 and len(set(k)) == 1}
        out.append(dict(row=row, polys=idx, ins=in_cls, outs=[c for _, c in outs], aux=aux, full=full,
                        in_cells=[f"a{col}_{row}" for col, _ in ins], out_cells=[f"a{col}_{row + 1}" for col, _ in outs],
                        rounds=1 if full else len(p5)))
    return out


def _row_fail(ob, ctx, msg):
    """a row-local failure is a VIOLATION when the end-to-end obligation produced a replayed forged
    assignment (the row obligation then localises it); otherwise INCONCLUSIVE"""
    e2e = [o for o in ctx["obs"] if o.status == VIOLATION and o.replay]
    if e2e:
        ob.key += ":row-differs"
        ob.set(VIOLATION, msg + f" [replay of the end-to-end forged assignment: {e2e[0].id}]", replay=e2e[0].replay)
    else:
        ob.set(INCONCLUSIVE, msg + " (no end-to-end forged assignment to replay)")


def chip_rows(run, base, ctx, timeout=30):
    """Row-local obligations of the permutation circuit: with the row's state cells = u + RC[a] for fresh u
    (the chip's shifted-round representation), the row's constraints imply next-row cells =
    Rounds_{a..b-1}(u) + RC[b] (RC[R] := 0), where a..b-1 are the rounds the row stands for."""
    system, pr0, prm = ctx["system"], ctx["prop"], ctx["prm"]
    rows = poseidon_rows(system, pr0)
    total = prm.rf + prm.rp
    # prologue: the state cells of the first S-box row are inputs + RC[0]
    ob = core.Ob(f"{base}/row-prologue", ENGINE, "the state cells entering the first round are the permutation inputs plus the first round constants",
                 functions=["NativeChip::add_constants_in_region", "PoseidonChip::permutation"], bound="all assignments", key=f"{base}/row-prologue")
    run.add(ob)
    if not rows:
        ob.set(INCONCLUSIVE, "no S-box rows found")
        return
    t = prm.t
    got = [pr0.known.get(c) for c in rows[0]["ins"]]
    want = [add(var(ctx["names"][i]), cst(prm.rc[0][i])) for i in range(t)]
    if len(got) != t or any(g is None for g in got):
        ob.set(INCONCLUSIVE, f"first S-box row has state cells {rows[0]['ins']}, not all derived")
    else:
        st, diff = compare_forms(ob, got, want, timeout)
        if st == "unsat":
            ob.set(HOLDS)
        else:
            _row_fail(ob, ctx, f"prologue differs ({st}): {diff[:3]}")
    a = 0
    for n, rw in enumerate(rows):
        b = a + rw["rounds"]
        kind = "full-round" if rw["full"] else f"partial-batch({rw['rounds']} rounds)"
        ob = core.Ob(f"{base}/row{rw['row']}:{kind}:rounds{a}-{b - 1}", ENGINE,
                     f"constraints of this row imply: next state cells = textbook rounds {a}..{b - 1} of the cells' pre-image (+ next round constants), and determine every cell they introduce",
                     functions=FUNCS_CHIP, bound="all assignments of the row's cells", key=f"{base}/row:{'full' if rw['full'] else 'partial'}")
        run.add(ob)
        if b > total or len(rw["ins"]) != t or len(rw["outs"]) != t:
            ob.set(INCONCLUSIVE, f"row shape not recognised: rounds {a}..{b - 1} of {total}, state cells {rw['ins']}, outputs {rw['outs']}")
            a = b
            continue
        try:
            A = Atoms()
            pr = Propagator(system, A)
            u = [var(f"u{i}") for i in range(t)]
            for i, c in enumerate(rw["ins"]):
                pr.known[c] = add(u[i], cst(prm.rc[a][i]))
            pr.run(rows={rw["row"]})
            want = textbook_rounds(A, prm, u, a, b)
            if b < total:
                want = [add(want[i], cst(prm.rc[b][i])) for i in range(t)]
            got = [pr.known.get(c) for c in rw["outs"]]
        except Untranslatable as ex:
            ob.set(INCONCLUSIVE, f"untranslatable: {ex}")
            a = b
            continue
        if any(g is None for g in got):
            undet = [c for c, g in zip(rw["outs"], got) if g is None]
            stuck = sorted({c for i in rw["polys"] if pr.used[i] is None for c in pr.polys[i][3] if c not in pr.known})
            _row_fail(ob, ctx, f"cells {undet} are not determined by this row's constraints: under-constrained row, cells no row equation determines: {stuck[:6]}")
        else:
            st, diff = compare_forms(ob, got, want, timeout)
            if st == "unsat":
                ob.set(HOLDS)
            else:
                _row_fail(ob, ctx, f"row differs from the textbook rounds ({st}) in {len(diff)} coefficients, e.g. {diff[:3]}")
        a = b
    ob = core.Ob(f"{base}/round-count", ENGINE, "the S-box rows of the permutation region stand for exactly R_F + R_P rounds (R_F/2 full, R_P partial, R_F/2 full)",
                 functions=["PoseidonChip::permutation"], bound="structure", key=f"{base}/round-count")
    run.add(ob)
    seq = [(rw["full"], rw["rounds"]) for rw in rows]
    nf1 = 0
    while nf1 < len(seq) and seq[nf1][0]:
        nf1 += 1
    nf2 = 0
    while nf2 < len(seq) and seq[len(seq) - 1 - nf2][0]:
        nf2 += 1
    npart = sum(r for f, r in seq[nf1:len(seq) - nf2] if not f)
    mid_ok = all(not f for f, _ in seq[nf1:len(seq) - nf2])
    pairs = [(nf1, prm.rf // 2), (nf2, prm.rf // 2), (npart, prm.rp), (1 if mid_ok else 0, 1), (a, total)]
    r, twin = ground_compare(pairs, timeout)
    ob.queries += 2
    ob.solver, ob.solver_s, ob.vacuity, ob.nontrivial = r.solver, r.time_s, twin, False
    if r.status == "unsat" and twin:
        ob.set(HOLDS)
    else:
        _row_fail(ob, ctx, f"round structure (full, partial rounds, full) = ({nf1}, {npart}, {nf2}), expected ({prm.rf // 2}, {prm.rp}, {prm.rf // 2})")


def cpu_sym(run, oid, what, op, params, n, key=None, timeout=30, seeds=(0,)):
    """the REAL off-circuit code run on the symbolic field == specification, per output word"""
    ob0 = core.Ob(oid, ENGINE, what, functions=FUNCS_CPU + (["SpongeCPU for PoseidonChip", "HashCPU for PoseidonChip", "TranscriptHash for PoseidonState"] if op != "cpu_perm" else []),
                  bound=f"{op} {pstr(params)} all inputs", key=key or oid)
    run.add(ob0)
    args = ["poseidon", f"op={op}"] + [f"p.{k}={v}" for k, v in params.items()]
    try:
        d = cx_json(args)
    except Untranslatable as ex:
        msg = str(ex)
        ob0.set(INCONCLUSIVE, f"symbolic run of the real code failed (untranslatable or panic): {msg[:400]}")
        return None
    prm = Params(d["constants"])
    A = Atoms()
    names = [f"x{i}" for i in range(d["nvars"])]
    got = import_rust_forms(A, d, names)
    want = spec_outputs(FormDom(A, prm), op, params, [var(x) for x in names])
    if len(got) != len(want):
        ob0.set(INCONCLUSIVE, f"real code returned {len(got)} outputs, specification {len(want)}")
        return None
    ob0.sample = dict(op=op, params=params, atoms=len(A.tab), rust_atoms=len(d["atoms"]))
    obs = []
    for i in range(len(want)):
        ob = ob0 if i == 0 else core.Ob(f"{oid}#out{i}", ENGINE, what, functions=ob0.functions, bound=ob0.bound, key=key or oid)
        if i == 0:
            ob.id = f"{oid}#out0"
        else:
            run.add(ob)
        ob.sample = ob0.sample
        obs.append(ob)
        st, diff = compare_forms(ob, [got[i]], [want[i]], timeout)
        if st == "unsat":
            ob.set(HOLDS)
            continue
        if st != "sat":
            ob.set(INCONCLUSIVE, f"solver: {st}")
            continue
        # counterexample: inputs on which the two forms evaluate differently, replayed on the real code at Fq
        # against a naive numeric evaluation of the textbook function
        done = False
        for sd in (1, 2, 3, 4):
            rnd = random.Random(1000 * core.seed() + sd)
            vals = [rnd.randrange(P) for _ in names] if sd > 1 else [(j + 1) for j in range(len(names))]
            env = dict(zip(names, vals))
            if A.eval(got[i], env) == A.eval(want[i], env):
                continue
            payload = dict(kind="cpu-differs", op=op, params=params, inputs=hexes(vals), engine_part="C", word=i)
            rc, info = replay_cpu(payload)
            if rc == 1:
                payload.update(info)
                ob.set(VIOLATION, f"real off-circuit {op} {pstr(params)} on inputs {hexes(vals)[:3]} returns {info['real'][i][:20]}.. for word {i}; the textbook function gives {info['textbook'][i][:20]}..",
                       replay=run.write_replay(ob, payload))
                ob.key = (key or oid) + ":cpu-differs"
                done = True
                break
        if not done:
            ob.set(INCONCLUSIVE, f"forms differ in {len(diff)} coefficients but no concrete input reproduced the difference on the real code")
    return obs


def replay_cpu(payload):
    """re-run the real off-circuit code at Fq on the payload's inputs and compare with the naive textbook
    evaluation computed here from the constants the extractor exports. (1, info) when they differ."""
    op, params = payload["op"], payload["params"]
    vals = [int(x, 16) for x in payload["inputs"]]
    args = ["poseidon", f"op={op}", "p.concrete=1"] + [f"p.{k}={v}" for k, v in params.items()]
    if vals:
        args.append("in=" + ":".join(hex(v) for v in vals))
    d = cx_json(args)
    prm = Params(d["constants"])
    real = [int(x, 16) for x in d["out"]]
    tb = spec_outputs(NumDom(prm), op, params, vals)
    info = dict(real=hexes(real), textbook=hexes(tb))
    return (1 if real != tb else 0), info


# ------------------------------------------------------------------------------------------------ control logic by the solver
class ControlOracle:
    """Solver-decided facts about CONTROL cells (lengths, flags, quotient/remainder hints, range-checked limbs)
    that unique-solution propagation cannot derive. A query is `Slice and pins => fact` where Slice is the set
    of extracted constraints (gate rows and lookups, engine-C encoding csmt.Enc) in the connected component of
    the cell once (a) cells already known to be constants are pinned to their value and (b) every constraint
    touching a data cell (a cell with a non-constant derived form, or a cell of an S-box row) is DROPPED.
    Dropping constraints only weakens the hypothesis, so `unsat` of the negation is sound for the full system."""

    def __init__(self, system, pr, ob=None, timeout=30):
        self.s, self.pr, self.ob, self.timeout = system, pr, ob, timeout
        d = system.d
        self.cons = []   # (kind, payload, classes)
        sbox_rows = {g["row"] for g in d["gates"] if any(len(cells) >= 3 for _, cells in g["poly"])}
        self.data0 = set()
        for g in d["gates"]:
            cl = {system.cls(c) for _, cells in g["poly"] for c in cells}
            cl = {c for c in cl if c not in system.const}
            if g["row"] in sbox_rows and (any(len(cells) >= 3 for _, cells in g["poly"]) or len(cl) > 4):
                self.data0 |= cl
                continue
            self.cons.append(("gate", g, cl))
        for li, lk in enumerate(d["lookups"]):
            for inp in lk["inputs"]:
                cl = {system.cls(c) for p in inp["exprs"] for _, cells in p for c in cells}
                cl = {c for c in cl if c not in system.const}
                self.cons.append(("lookup", (li, inp), cl))
        self.queries = 0
        self.time_s = 0.0

    def _free(self, cl):
        """classes of a constraint that are neither pinned constants nor data; None when it touches data"""
        out = set()
        for c in cl:
            f = self.pr.known.get(c)
            if f is not None:
                if const_of(f) is None:
                    return None
                continue
            if c in self.data0:
                return None
            out.add(c)
        return out

    def slice(self, c):
        live = []
        for kind, pl, cl in self.cons:
            fr = self._free(cl)
            if fr is not None:
                live.append((kind, pl, cl, fr))
        comp = {c}
        changed = True
        while changed:
            changed = False
            for kind, pl, cl, fr in live:
                if fr & comp and not fr <= comp:
                    comp |= fr
                    changed = True
        sel = [(kind, pl, cl) for kind, pl, cl, fr in live if fr & comp]
        return comp, sel

    def encode(self, c):
        comp, sel = self.slice(c)
        d = self.s.d
        d2 = dict(d)
        d2["gates"] = [pl for kind, pl, cl in sel if kind == "gate"]
        lks = {}
        for kind, pl, cl in sel:
            if kind == "lookup":
                lks.setdefault(pl[0], []).append(pl[1])
        d2["lookups"] = [dict(d["lookups"][li], inputs=inps) for li, inps in sorted(lks.items())]
        s2 = csmt.System(d2, P)
        e = csmt.Enc(s2)
        e.encode(False)
        pins = []
        for kind, pl, cl in sel:
            for x in cl:
                f = self.pr.known.get(x)
                if f is not None:
                    pins.append(f"(assert (= {e.v(x)} {const_of(f)}))")
        return e, sorted(set(pins)), len(sel)

    def ask(self, c, pred):
        """is `pred(e, atom of c)` implied? returns True / False (sat or undecided)"""
        e, pins, n = self.encode(c)
        a = e.v(c)
        r = solvers.solve(e.text(pins + [f"(assert (not {pred(a)}))"]), timeout=self.timeout)
        self.queries += 1
        self.time_s += r.time_s
        if self.ob is not None:
            self.ob.queries += 1
            self.ob.solver_s += r.time_s
        return r.status == "unsat", r, n

    def determined(self, c, v):
        ok, r, n = self.ask(c, lambda a: f"(= {a} {v})")
        return ok


# ------------------------------------------------------------------------------------------------ variable-length gadget
FUNCS_VAR = ["midnight_circuits::hash::poseidon::VarLenPoseidonGadget::poseidon_varlen", "VarLenPoseidonGadget::cond_update",
             "VarLenPoseidonGadget::constrain_last_chunk", "VarHashInstructions::varhash", "VectorGadget::assign_with_filler",
             "NativeGadget::rem", "NativeGadget::is_equal_to_fixed", "NativeGadget::select"] + FUNCS_CHIP


def payload_range(M, L, rate):
    pad = (rate - L % rate) % rate
    return M - L - pad, M - pad


def varhash_family(run, M, k=10, timeout=30, rnd=None):
    """VarHashInstructions::varhash over AssignedVector<_, _, M, RATE>: instance = (buffer[0..M], len, digest).
    Claim, for every assignment: len <= M, and digest = Hash(payload) where payload is the len cells of the
    buffer at the documented position (so in particular independent of the filler cells). Decided as
      dom:        Sys => len <= M                                  (solver, engine-C encoding of the control slice)
      len = L:    Sys and len = L => digest = Hash_L(payload)      (L = 0..M; control cells proved constant by the
                  solver under len = L, data path by atom propagation, digest compared with the specification)
    on one constraint system (the structure extracted for every L must be identical)."""
    from . import cengine
    rnd = rnd or random.Random(5)
    base = f"C07/C/chip/varhash[M={M}]"
    systems = {}
    ob_dom = core.Ob(f"{base}/dom", ENGINE, f"constraints of varhash imply len <= {M} (the case split over len = 0..{M} is exhaustive), and the structure does not depend on the length of the witness",
                     functions=FUNCS_VAR, bound=f"MAX_LEN={M} k={k}", key="poseidon/varhash:dom")
    run.add(ob_dom)
    cases = []
    for L in range(M + 1):
        ob = core.Ob(f"{base}/len={L}", ENGINE, f"constraints of varhash and len = {L} imply digest = fixed-length Poseidon hash of the {L} payload cells, for every assignment (independent of the filler cells)",
                     functions=FUNCS_VAR, bound=f"MAX_LEN={M} len={L} k={k}", key="poseidon/varhash")
        run.add(ob)
        cases.append(ob)
    hashes = set()
    for L in range(M + 1):
        params = {"max": M, "len": L}
        ins = [rnd.randrange(P) for _ in range(L)]
        try:
            systems[L] = (cengine.extract("poseidon", "varhash", params, ins, k), params, ins)
        except cengine.ExtractPanic as ex:
            cases[L].key += ":honest-panics"
            cases[L].set(VIOLATION, f"the real synthesis panics on admissible inputs: {ex}",
                         replay=run.write_replay(cases[L], dict(kind="honest-panics", engine_part="C", cx=cengine.cx_args("poseidon", "varhash", params, ins, k))))
            continue
        except cengine.ExtractError as ex:
            cases[L].set(INCONCLUSIVE, f"extraction failed: {ex}")
            continue
        hashes.add(cengine.structure_hash(systems[L][0]))
    if len(systems) != M + 1:
        ob_dom.set(INCONCLUSIVE, "not every length could be extracted")
        return
    # ---- dom
    system, params, ins = systems[M]
    prm = Params(system.d["extra"]["constants"])
    try:
        A = Atoms()
        pr = Propagator(system, A)
        for i, c in enumerate(system.ins[:M]):
            pr.known[system.cls(c)] = var(f"b{i}")
        lenc = system.cls(system.ins[M])
        orc = ControlOracle(system, pr, ob_dom, timeout)
        ok, r, n = orc.ask(lenc, lambda a: f"(<= {a} {M})")
        # vacuity: the honest assignment satisfies the slice
        e, pins, _ = orc.encode(lenc)
        honest = system.honest_assign()
        hp = [f"(assert (= {nm} {honest.get(c, 0)}))" for c, nm in e.vars.items()]
        rv = solvers.solve(e.text(pins + hp), timeout=timeout)
        ob_dom.queries += 1
        ob_dom.vacuity = rv.status == "sat"
        ob_dom.solver = r.solver
        ob_dom.sample = dict(slice_constraints=n, structure_hashes=len(hashes))
        if len(hashes) != 1:
            ob_dom.set(INCONCLUSIVE, f"the emitted structure depends on the witness length ({len(hashes)} different structures): the per-length cases do not combine")
        elif ok and ob_dom.vacuity:
            ob_dom.set(HOLDS)
        elif r.status == "sat":
            ob_dom.set(INCONCLUSIVE, f"control slice admits len > {M} (model of the slice only; not replayed): {r.status}")
        else:
            ob_dom.set(INCONCLUSIVE, f"solver: {r.status}, vacuity twin {rv.status}")
    except (Untranslatable, NotImplementedError) as ex:
        ob_dom.set(INCONCLUSIVE, f"untranslatable: {ex}")
    # ---- cases
    for L in range(M + 1):
        ob = cases[L]
        system, params, ins = systems[L]
        d = system.d
        try:
            honest = system.honest_assign()
        except AssertionError as ex:
            ob.set(INCONCLUSIVE, f"honest run inconsistent: {ex}")
            continue
        if not d["honest_verify"]:
            ob.key += ":honest-rejected"
            ob.set(VIOLATION, f"real MockProver rejects the honest witness of varhash M={M} len={L}",
                   replay=run.write_replay(ob, dict(kind="honest-rejected", engine_part="C", cx=cengine.cx_args("poseidon", "varhash", params, ins, k))))
            continue
        if system.check_exact(honest):
            ob.set(INCONCLUSIVE, "extractor/encoder disagree with MockProver on the honest run")
            continue
        try:
            A = Atoms()
            pr = Propagator(system, A)
            names = [f"b{i}" for i in range(M)]
            for c, nm in zip(system.ins[:M], names):
                pr.known[system.cls(c)] = var(nm)
            lenc = system.cls(system.ins[M])
            pr.known[lenc] = cst(L)
            orc = ControlOracle(system, pr, ob, timeout)
            # candidates for the solver: control cells only (never a cell of an S-box row; small honest value:
            # flags, lengths, quotients, limbs), each asked once
            def oracle(c, honest=honest, orc=orc):
                if c not in honest or c in orc.data0 or honest[c] >= (1 << 32) or orc.queries >= 200:
                    return None
                return honest[c] if orc.determined(c, honest[c]) else None
            pr.run(oracle=oracle, max_oracle=100000)
            lo, hi = payload_range(M, L, prm.rate)
            D = FormDom(A, prm)
            want = sponge_hash_spec(D, [var(nm) for nm in names[lo:hi]])
            # the class of the defect "the trailing filler cells of the last block are absorbed with the payload"
            st0 = [cst(0)] * prm.rate + [cst(L)] + [cst(0)] * (prm.t - prm.rate - 1)
            blocks = [var(nm) for nm in names[lo:M]]
            stv = st0
            for b in range(0, len(blocks), prm.rate):
                blk = blocks[b:b + prm.rate]
                stv = D.perm([add(stv[i], blk[i]) if i < len(blk) else stv[i] for i in range(prm.t)])
            variant = [stv[0]]
        except (Untranslatable, NotImplementedError) as ex:
            ob.set(INCONCLUSIVE, f"untranslatable: {ex}")
            continue
        got = pr.known.get(system.cls(system.outs[0]))
        ob.sample = dict(M=M, L=L, oracle_cells=pr.oracle_cells, oracle_queries=orc.queries, atoms=len(A.tab))
        hon_in = [int(x["value"], 16) for x in system.io if x["dir"] == "in"]
        filler_pos = [i for i in range(M) if not (lo <= i < hi)]

        def input_sets():
            yield list(hon_in)
            for sd in (21, 22):
                r2 = random.Random(sd)
                v = list(hon_in)
                for i in filler_pos:
                    v[i] = r2.randrange(1, P)
                yield v
            r2 = random.Random(23)
            yield [r2.randrange(1, P) for _ in range(M)] + [L]
        want_full = want + []   # forms over b0..; the length is the constant L (not a variable)
        env_names = names + ["len"]

        def do_forge(suffix):
            w = [dict(f) for f in want]
            if forge(run, ob, system, A, w, env_names, "varhash", params, ins, k, input_sets=list(input_sets()), perturbs=((False, 0),), pr=pr):
                ob.key = "poseidon/varhash" + suffix
                # the same thing through the honest API: assign_with_filler with a non-zero filler
                return True
            return False
        if got is None:
            if not do_forge(":output-not-determined"):
                ob.set(INCONCLUSIVE, f"digest not determined by propagation + solver-decided control cells (oracle cells {pr.oracle_cells}); no forged assignment replayed")
            continue
        st, diff = compare_forms(ob, [got], want, timeout)
        if st == "unsat":
            ob.set(HOLDS)
        elif st == "sat":
            is_variant = bool(filler_pos) and fkey(got) == fkey(variant[0]) and fkey(variant[0]) != fkey(want[0])
            if not do_forge(":trailing-filler-absorbed" if is_variant else ":output-differs"):
                ob.set(INCONCLUSIVE, f"derived digest differs from the specification ({len(diff)} coefficients) but no forged assignment replayed")
            elif is_variant:
                ob.detail = (f"varhash MAX_LEN={M} len={L}: the digest absorbs the filler cell(s) {[f'buffer[{i}]' for i in range(hi, M)]} after the payload (exactly the variant 'last block completed with the buffer's trailing cells'); "
                             + ob.detail)
        else:
            ob.set(INCONCLUSIVE, f"solver: {st}")


# ------------------------------------------------------------------------------------------------ full rounds as plain engine-C queries
def chip_rows_lia(run, base, ctx, timeout=60):
    """The full-round rows once more, as plain engine-C queries (csmt.Enc: cells Int in [0,p), products an
    uninterpreted function with field lemmas and monomial normalisation): Sys_row => next cells =
    MDS x (cells^5) + next round constants, decided by the solver for all assignments (a non-ground query;
    the partial-round batches do not finish in this formulation: 120 s timeout on both solvers, measured)."""
    from functools import reduce
    system, pr0, prm = ctx["system"], ctx["prop"], ctx["prm"]
    rows = poseidon_rows(system, pr0)
    d = system.d
    total = prm.rf + prm.rp
    a = 0
    for rw in rows:
        b = a + rw["rounds"]
        if not rw["full"] or len(rw["ins"]) != prm.t or len(rw["outs"]) != prm.t:
            a = b
            continue
        ob = core.Ob(f"{base}/row{rw['row']}:full-round:round{a}:lia", ENGINE,
                     "engine-C query (integers mod p, uninterpreted field product): the row's constraints imply next state cells = MDS x (state cells)^5 + next round constants, for every assignment",
                     functions=["PoseidonChip::configure(full_round_gate)", "PoseidonChip::full_round", "PoseidonChip::assign_constants_full"],
                     bound="all assignments of the row's cells", key=f"{base}/row:full:lia")
        run.add(ob)
        try:
            d2 = dict(d)
            d2["gates"] = [g for g in d["gates"] if g["row"] == rw["row"]]
            d2["lookups"] = []
            d2["copies"] = []
            s2 = csmt.System(d2, P)
            e = csmt.Enc(s2)
            e.extra = {}
            e.encode(False)
            I = [e.v(c) for c in rw["in_cells"]]     # the sub-system has no copy constraints: cells by name
            O = [e.v(c) for c in rw["out_cells"]]
            sb = [reduce(e.fmul, [x] * 5) for x in I]
            nrc = prm.rc[b] if b < total else [0] * prm.t
            st = [e.define_mod([(prm.mds[i][j], sb[j]) for j in range(prm.t)], nrc[i]) for i in range(prm.t)]
            spec = "(and " + " ".join(f"(= {O[i]} {st[i]})" for i in range(prm.t)) + ")"
            e.assoc_lemmas()
        except NotImplementedError as ex:
            ob.set(INCONCLUSIVE, f"untranslatable: {ex}")
            a = b
            continue
        names = sorted(set(e.vars.values()))
        # vacuity twin: the honest cells of this row satisfy encoding and specification
        hon = {n: system.honest.get(c, 0) for c, n in e.vars.items()}
        hx = e.exact_atoms(hon)
        rv = solvers.solve(e.text([f"(assert (= {n} {v}))" for n, v in hx.items()] + [f"(assert {spec})"]), timeout=timeout)
        ob.queries += 1
        ob.vacuity = rv.status == "sat"
        status = None
        for rnd_ in range(8):
            atoms = names + [it[1] for it in e.order]
            r = solvers.solve(e.text([f"(assert (not {spec}))"]), timeout=timeout, get_values=atoms)
            ob.queries += 1
            ob.solver_s += r.time_s
            ob.solver = r.solver or ob.solver
            if r.status != "sat":
                status = r.status
                break
            m = r.model
            assign = {n: m.get(n, 0) % P for n in names}
            exact = e.exact_atoms(assign)
            wrong = [it for it in e.order if it[0] == "mul" and m.get(it[1]) is not None and m[it[1]] != exact[it[1]]]
            if not wrong:
                status = "sat"
                break
            for _, t_, x, y in wrong[:40]:
                vx = exact[x] if not isinstance(x, int) else x
                vy = exact[y] if not isinstance(y, int) else y
                q1 = e.fresh("q", 0, P)
                e.lines.append(f"(assert (=> (= {x} {vx}) (= {t_} (- (* {vx} {y}) (* {P} {q1})))))")
                if x != y:
                    q2 = e.fresh("q", 0, P)
                    e.lines.append(f"(assert (=> (= {y} {vy}) (= {t_} (- (* {vy} {x}) (* {P} {q2})))))")
        nf = [o for o in run.obs if o.id.startswith(f"{base}/row{rw['row']}:full-round:rounds")]
        if status == "unsat" and ob.vacuity:
            ob.set(HOLDS)
        elif nf and nf[0].status == VIOLATION and nf[0].replay:
            ob.key += ":row-differs"
            ob.set(VIOLATION, f"engine-C query on this row: {status}; the normal-form obligation of the same row is violated, replay shared", replay=nf[0].replay)
        else:
            ob.set(INCONCLUSIVE, f"solver: {status} (vacuity twin {rv.status})")
        a = b
