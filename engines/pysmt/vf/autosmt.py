"""Engine A (auto-smt, DESIGN 2.A) and the C19-specific pieces of engine C.

Part A.  A mirror AST `R` (JSON, one node per public `RegexInstructions` combinator) has two
interpretations:
  (i)  engines/auto (Rust, `ax`): build the REAL `Regex` through the real combinators, call the real
       `to_automaton()`, dump the public fields of the resulting `Automaton`;
  (ii) here: a reference semantics written from the trait documentation (never from the library's
       bodies): R -> `prim` (markers pushed to the leaves) -> `core` (plain regular expression over the
       alphabet of code points `byte + 256*marker`) -> SMT-LIB `RegLan` text.
The obligation for (regex, n): a symbolic word of n code points, the dumped transition map unrolled as
a total function (missing key => dead state), `accepts_with_these_markers(w) != (w in RegLan)`.

A small Brzozowski-derivative matcher over `core` validates the RegLan emitter on ground words
(translator validation), and is used for nothing else.
"""
import json, os, subprocess, time, threading, random, tempfile, itertools
from . import core as fcore, solvers
from .core import HOLDS, VIOLATION, INCONCLUSIVE

MAXM = 64


class Outside(Exception):
    """The expression is outside the claim (both-marked intersection, markers under a complement...)."""


# ==================================================================================================
# R -> prim : one node per primitive construct, markers at the leaves
# ==================================================================================================
# prim nodes (tuples):
#   ('S', frozenset of code points)           one letter out of a set
#   ('C', (x,..))  concatenation   ('U', (x,..)) union   ('I', (x,..)) intersection (unifying rule)
#   ('P', x)       one or more iterations
#   ('N', x, univ) complement of x relative to univ* ; univ = frozenset of code points
#   ('A', univ)    every word over univ
# Intersections are resolved when they are built: the library's rule ("a letter marked 0 unifies with
# the same byte carrying any marker") is, when at most one operand carries markers, the plain
# intersection after lifting the unmarked operands over the markers of the marked one (`plift`).
# Two marked operands: outside the claim (DESIGN 2.A).
ZERO_UNIV = frozenset(range(256))
EPS = ('C', ())
BLANK_BYTES = (0x20, 0x09, 0x0A)        # "space, newline, or tab"


def S(bytes_):
    return ('S', frozenset(int(b) for b in bytes_))


def cat(*xs):
    return ('C', tuple(xs))


def alt(*xs):
    return ('U', tuple(xs))


def star(x):
    return alt(EPS, ('P', x))


def power(x, n):
    return cat(*([x] * n))


def sepcat(xs, sep):
    out = []
    for i, x in enumerate(xs):
        if i:
            out.append(sep)
        out.append(x)
    return cat(*out)


ONE_BLANK = S(BLANK_BYTES)
BLANKS = star(ONE_BLANK)


def rng(a, b):
    return S(range(a, b + 1))


def utf8_cps_ref():
    """Well-formed UTF-8 byte sequences of ONE code point: Unicode standard, table 3-7."""
    tail = rng(0x80, 0xBF)
    return alt(
        rng(0x00, 0x7F),
        cat(rng(0xC2, 0xDF), tail),
        cat(S([0xE0]), rng(0xA0, 0xBF), tail),
        cat(rng(0xE1, 0xEC), tail, tail),
        cat(S([0xED]), rng(0x80, 0x9F), tail),
        cat(rng(0xEE, 0xEF), tail, tail),
        cat(S([0xF0]), rng(0x90, 0xBF), tail, tail),
        cat(rng(0xF1, 0xF3), tail, tail, tail),
        cat(S([0xF4]), rng(0x80, 0x8F), tail, tail),
    )


def json_string_ref(ascii_only=False):
    """RFC 8259 section 7: quotation-mark *char quotation-mark,
    char = unescaped / escape ( " \\ / b f n r t / uXXXX ), unescaped = %x20-21 / %x23-5B / %x5D-10FFFF
    (UTF-8 encoded). The quoted content is marked 1 (documentation of `json_string`).
    ascii_only: variant used to look past finding `json_string` (non-ASCII content), see C19_A."""
    tail = rng(0x80, 0xBF)
    unescaped_1 = S([b for b in range(0x20, 0x80) if b not in (0x22, 0x5C)])
    multi = [
        cat(rng(0xC2, 0xDF), tail),
        cat(S([0xE0]), rng(0xA0, 0xBF), tail),
        cat(rng(0xE1, 0xEC), tail, tail),
        cat(S([0xED]), rng(0x80, 0x9F), tail),
        cat(rng(0xEE, 0xEF), tail, tail),
        cat(S([0xF0]), rng(0x90, 0xBF), tail, tail),
        cat(rng(0xF1, 0xF3), tail, tail, tail),
        cat(S([0xF4]), rng(0x80, 0x8F), tail, tail),
    ]
    hexd = S(list(range(0x30, 0x3A)) + list(range(0x41, 0x47)) + list(range(0x61, 0x67)))
    esc = cat(S([0x5C]), S(b'"\\/bfnrt'))
    uesc = cat(S([0x5C]), S(b'u'), hexd, hexd, hexd, hexd)
    content = star(alt(unescaped_1, esc, uesc, *([] if ascii_only else multi)))
    content = pmap(content, lambda b, m: 1)
    q = S([0x22])
    return cat(q, content, q)


def pmarkers(p):
    """set of markers occurring in a prim tree (incl. 0)."""
    t = p[0]
    if t == 'S':
        return {c >> 8 for c in p[1]}
    if t in 'CUI':
        out = set()
        for x in p[1]:
            out |= pmarkers(x)
        return out
    if t == 'P':
        return pmarkers(p[1])
    if t == 'N':
        return pmarkers(p[1]) | {c >> 8 for c in p[2]}
    if t == 'A':
        return {c >> 8 for c in p[1]}
    raise ValueError(t)


def plift(p, M):
    """unmarked prim -> the same byte language with every letter (b,0) replaced by {(b,m): m in M}."""
    t = p[0]
    lift = lambda cps: frozenset((c & 255) + 256 * m for c in cps for m in M)
    if t == 'S':
        return ('S', lift(p[1]))
    if t in 'CUI':
        return (t, tuple(plift(x, M) for x in p[1]))
    if t == 'P':
        return ('P', plift(p[1], M))
    if t == 'N':
        return ('N', plift(p[1], M), lift(p[2]))
    if t == 'A':
        return ('A', lift(p[1]))
    raise ValueError(t)


def pinter(xs):
    """intersection with the library's documented unification rule, at most one marked operand."""
    if not xs:
        return ('A', ZERO_UNIV)
    marked = [x for x in xs if pmarkers(x) - {0}]
    if len(marked) >= 2:
        raise Outside("intersection with two marked operands (unification rule: outside the claim)")
    if not marked:
        return ('I', tuple(xs))
    M = pmarkers(marked[0]) | {0}
    return ('I', tuple(x if x is marked[0] else plift(x, M) for x in xs))


def pmap(p, f):
    """image of the language under the letter relabelling (b,m) -> (b,f(b,m)); pushed to the leaves.
    Exact for S, C, U, P (homomorphic image). N / A: the universe is relabelled as well; exact because
    the complemented operand is byte-determined (unmarked, possibly lifted). I: exact because all
    operands but one are byte-determined (see `pinter`)."""
    t = p[0]
    if t == 'S':
        return ('S', frozenset((c & 255) + 256 * f(c & 255, c >> 8) for c in p[1]))
    if t in 'CUI':
        return (t, tuple(pmap(x, f) for x in p[1]))
    if t == 'P':
        return ('P', pmap(p[1], f))
    if t == 'N':
        return ('N', pmap(p[1], f), frozenset((c & 255) + 256 * f(c & 255, c >> 8) for c in p[2]))
    if t == 'A':
        return ('A', frozenset((c & 255) + 256 * f(c & 255, c >> 8) for c in p[1]))
    raise ValueError(t)


def prim(j, variant=None):
    """R (JSON) -> prim, from the documentation of each combinator."""
    variant = variant or {}
    op = j['op']
    P = lambda k: prim(j[k], variant)
    XS = lambda: [prim(x, variant) for x in j['xs']]
    if op == 'byte_from':
        return S(j['set'])
    if op == 'byte_not_from':
        ex = set(j['set'])
        return S(b for b in range(256) if b not in ex)
    if op == 'any_byte':
        return S(range(256))
    if op == 'any':
        return ('A', ZERO_UNIV)
    if op == 'epsilon':
        return EPS
    if op == 'word':
        return cat(*[S([b]) for b in j['s']])
    if op == 'digit':
        return rng(0x30, 0x39)
    if op == 'lowercase_letter':
        return rng(0x61, 0x7A)
    if op == 'uppercase_letter':
        return rng(0x41, 0x5A)
    if op == 'letter':
        return S(list(range(0x61, 0x7B)) + list(range(0x41, 0x5B)))
    if op == 'alphanumeric':
        return S(list(range(0x61, 0x7B)) + list(range(0x41, 0x5B)) + list(range(0x30, 0x3A)))
    if op == 'one_blank':
        return ONE_BLANK
    if op == 'blanks':
        return BLANKS
    if op == 'blanks_strict':
        return ('P', ONE_BLANK)
    if op == 'utf8_cps':
        return utf8_cps_ref()
    if op == 'utf8':
        return star(utf8_cps_ref())
    if op == 'json_string':
        return json_string_ref(ascii_only=bool(variant.get('json_ascii')))
    if op == 'neg':
        x = P('x')
        if pmarkers(x) - {0}:
            raise Outside("neg applied to an expression with markers (the library panics)")
        return ('N', x, ZERO_UNIV)
    if op == 'union':
        return alt(*XS())
    if op == 'inter':
        return pinter(XS())
    if op == 'cat':
        return cat(*XS())
    if op == 'or':
        return alt(P('x'), P('y'))
    if op == 'and':
        return pinter([P('x'), P('y')])
    if op == 'minus':
        y = P('y')
        if pmarkers(y) - {0}:
            raise Outside("minus: subtracted expression carries markers (the library panics)")
        return pinter([P('x'), ('N', y, ZERO_UNIV)])
    if op == 'terminated':
        return cat(P('x'), P('y'))
    if op == 'spaced_terminated':
        return cat(P('x'), BLANKS, P('y'))
    if op == 'optional':
        return alt(P('x'), EPS)
    if op == 'list':
        return star(P('x'))
    if op == 'non_empty_list':
        return ('P', P('x'))
    if op == 'spaced_non_empty_list':
        x = P('x')
        return cat(x, star(cat(BLANKS, x)))
    if op == 'spaced_list':
        x = P('x')
        return alt(EPS, cat(x, star(cat(BLANKS, x))))
    if op == 'separated_non_empty_list':
        x, s = P('x'), P('sep')
        return cat(x, star(cat(s, x)))
    if op == 'separated_list':
        x, s = P('x'), P('sep')
        return alt(EPS, cat(x, star(cat(s, x))))
    if op == 'spaced_separated_non_empty_list':
        x, s = P('x'), P('sep')
        return cat(x, star(cat(BLANKS, s, BLANKS, x)))
    if op == 'spaced_separated_list':
        x, s = P('x'), P('sep')
        return alt(EPS, cat(x, star(cat(BLANKS, s, BLANKS, x))))
    if op == 'repeat':
        return power(P('x'), j['n'])
    if op == 'spaced_repeat':
        return sepcat([P('x')] * j['n'], BLANKS)
    if op == 'repeat_at_most':
        x = P('x')
        return alt(*[power(x, i) for i in range(j['n'] + 1)])
    if op == 'spaced_repeat_at_most':
        x = P('x')
        return alt(*[sepcat([x] * i, BLANKS) for i in range(j['n'] + 1)])
    if op == 'separated_repeat':
        return sepcat([P('x')] * j['n'], P('sep'))
    if op == 'spaced_separated_repeat':
        return sepcat([P('x')] * j['n'], cat(BLANKS, P('sep'), BLANKS))
    if op == 'separated_repeat_at_most':
        x, s = P('x'), P('sep')
        return alt(*[sepcat([x] * i, s) for i in range(j['n'] + 1)])
    if op == 'spaced_separated_repeat_at_most':
        x, s = P('x'), cat(BLANKS, P('sep'), BLANKS)
        return alt(*[sepcat([x] * i, s) for i in range(j['n'] + 1)])
    if op == 'spaced_cat':
        return sepcat(XS(), BLANKS)
    if op == 'separated_cat':
        return sepcat(XS(), P('sep'))
    if op == 'spaced_separated_cat':
        return sepcat(XS(), cat(BLANKS, P('sep'), BLANKS))
    if op == 'delimited':
        return cat(P('open'), P('x'), P('close'))
    if op == 'spaced_delimited':
        return cat(P('open'), BLANKS, P('x'), BLANKS, P('close'))
    if op == 'mark':
        t = j['table']
        return pmap(P('x'), lambda b, m: m if t[b] is None else t[b])
    if op == 'mark_bytes':
        bs, mk = set(j['set']), j['m']
        return pmap(P('x'), lambda b, m: mk if b in bs else m)
    if op == 'replace_markers':
        mp = {a: b for a, b in j['map']}
        return pmap(P('x'), lambda b, m: mp.get(m, m))
    raise ValueError(f"unknown R node {op}")


# ==================================================================================================
# prim -> core : plain regular expressions over code points (hash-consed tuples)
# ==================================================================================================
# core nodes: ('set', ((lo,hi),..)) | ('eps',) | ('cat', xs) | ('alt', xs) | ('and', xs) | ('plus', x)
#             | ('comp', x, univ_set_node)      language  univ* \ L(x)
#             | ('all', univ_set_node)          language  univ*

def mkset(cps):
    cps = sorted(set(cps))
    rs = []
    for c in cps:
        if rs and rs[-1][1] == c - 1:
            rs[-1][1] = c
        else:
            rs.append([c, c])
    return ('set', tuple((a, b) for a, b in rs))


def set_members(node):
    for a, b in node[1]:
        yield from range(a, b + 1)


def lower(p):
    """prim -> core."""
    t = p[0]
    if t == 'S':
        return mkset(p[1])
    if t == 'C':
        xs = [lower(x) for x in p[1]]
        return ('cat', tuple(xs)) if xs else ('eps',)
    if t == 'U':
        return ('alt', tuple(lower(x) for x in p[1]))
    if t == 'I':
        return ('and', tuple(lower(x) for x in p[1]))
    if t == 'P':
        return ('plus', lower(p[1]))
    if t == 'A':
        return ('all', mkset(p[1]))
    if t == 'N':
        return ('comp', lower(p[1]), mkset(p[2]))
    raise ValueError(t)


def core_of(j, variant=None):
    return lower(prim(j, variant))


def core_markers(c, acc=None):
    acc = set() if acc is None else acc
    t = c[0]
    if t == 'set':
        for a, b in c[1]:
            acc.add(a >> 8)
            acc.add(b >> 8)
            if (b >> 8) - (a >> 8) > 1:
                acc.update(range(a >> 8, (b >> 8) + 1))
    elif t in ('cat', 'alt', 'and'):
        for x in c[1]:
            core_markers(x, acc)
    elif t == 'plus':
        core_markers(c[1], acc)
    elif t == 'comp':
        core_markers(c[1], acc)
        core_markers(c[2], acc)
    elif t == 'all':
        core_markers(c[1], acc)
    return acc


# ==================================================================================================
# core -> SMT-LIB RegLan
# ==================================================================================================

def smt_char(c):
    return '"\\u{%x}"' % c


class RegLanEmitter:
    """Emits one `define-fun` per distinct compound core node (sharing keeps repeat_at_most etc. small)."""

    def __init__(self, prefix="re"):
        self.defs = []
        self.names = {}
        self.prefix = prefix

    def setterm(self, node):
        rs = node[1]
        if not rs:
            return "re.none"
        parts = [f"(re.range {smt_char(a)} {smt_char(b)})" if a != b else f"(str.to_re {smt_char(a)})" for a, b in rs]
        return parts[0] if len(parts) == 1 else "(re.union " + " ".join(parts) + ")"

    def term(self, c):
        if c in self.names:
            return self.names[c]
        t = c[0]
        if t == 'set':
            s = self.setterm(c)
        elif t == 'eps':
            s = '(str.to_re "")'
        elif t in ('cat', 'alt', 'and'):
            xs = [self.term(x) for x in c[1]]
            if not xs:
                s = {'cat': '(str.to_re "")', 'alt': 're.none', 'and': None}[t]
                if s is None:
                    raise ValueError("empty intersection must be an `all` node")
            elif len(xs) == 1:
                s = xs[0]
            else:
                s = "(" + {'cat': 're.++', 'alt': 're.union', 'and': 're.inter'}[t] + " " + " ".join(xs) + ")"
        elif t == 'plus':
            s = f"(re.+ {self.term(c[1])})"
        elif t == 'all':
            s = f"(re.* {self.term(c[1])})"
        elif t == 'comp':
            s = f"(re.inter (re.* {self.term(c[2])}) (re.comp {self.term(c[1])}))"
        else:
            raise ValueError(t)
        if t == 'eps' or (t == 'set' and len(c[1]) <= 1):
            self.names[c] = s
            return s
        n = f"{self.prefix}{len(self.defs)}"
        self.defs.append(f"(define-fun {n} () RegLan {s})")
        self.names[c] = n
        return n


# ==================================================================================================
# reference matcher (Brzozowski derivatives over core) -- translator validation only
# ==================================================================================================

def nullable(c):
    t = c[0]
    if t == 'set':
        return False
    if t == 'eps':
        return True
    if t == 'cat' or t == 'and':
        return all(nullable(x) for x in c[1])
    if t == 'alt':
        return any(nullable(x) for x in c[1])
    if t == 'plus':
        return nullable(c[1])
    if t == 'all':
        return True
    if t == 'comp':
        return not nullable(c[1])
    raise ValueError(t)


NONE = ('alt', ())


def in_set(node, a):
    return any(lo <= a <= hi for lo, hi in node[1])


def s_cat(xs):
    out = []
    for x in xs:
        if x == NONE:
            return NONE
        if x == ('eps',):
            continue
        if x[0] == 'cat':
            out.extend(x[1])
        else:
            out.append(x)
    if not out:
        return ('eps',)
    return out[0] if len(out) == 1 else ('cat', tuple(out))


def s_alt(xs):
    out = []
    for x in xs:
        if x == NONE:
            continue
        ys = x[1] if x[0] == 'alt' else (x,)
        for y in ys:
            if y not in out:
                out.append(y)
    if not out:
        return NONE
    return out[0] if len(out) == 1 else ('alt', tuple(out))


def s_and(xs):
    out = []
    for x in xs:
        if x == NONE:
            return NONE
        if x not in out:
            out.append(x)
    return out[0] if len(out) == 1 else ('and', tuple(out))


def deriv(c, a, memo):
    key = (c, a)
    if key in memo:
        return memo[key]
    t = c[0]
    if t == 'set':
        r = ('eps',) if in_set(c, a) else NONE
    elif t == 'eps':
        r = NONE
    elif t == 'cat':
        xs = c[1]
        if not xs:
            r = NONE
        else:
            head, rest = xs[0], s_cat(xs[1:])
            r = s_cat([deriv(head, a, memo), rest])
            if nullable(head):
                r = s_alt([r, deriv(rest, a, memo)])
    elif t == 'alt':
        r = s_alt([deriv(x, a, memo) for x in c[1]])
    elif t == 'and':
        r = s_and([deriv(x, a, memo) for x in c[1]])
    elif t == 'plus':
        r = s_cat([deriv(c[1], a, memo), s_alt([('eps',), c])])
    elif t == 'all':
        r = c if in_set(c[1], a) else NONE
    elif t == 'comp':
        # univ* \ L : a letter outside univ kills the word
        r = ('comp', deriv(c[1], a, memo), c[2]) if in_set(c[2], a) else NONE
    else:
        raise ValueError(t)
    memo[key] = r
    return r


def ref_match(c, word, memo=None):
    memo = {} if memo is None else memo
    for a in word:
        c = deriv(c, a, memo)
        if c == NONE:
            return False
    return nullable(c)


# ==================================================================================================
# automaton dump -> SMT
# ==================================================================================================

class Auto:
    def __init__(self, d):
        self.nb = d["nb_states"]
        self.init = d["initial_state"]
        self.final = set(d["final_states"])
        self.tr = {(s, b): (t, m) for s, b, t, m in d["transitions"]}
        self.raw = d["transitions"]
        self.nb_raw = d.get("nb_transitions", len(d["transitions"]))

    def run(self, bytes_):
        s, out = self.init, []
        for b in bytes_:
            if (s, b) not in self.tr:
                return False, out
            s, m = self.tr[(s, b)]
            out.append(m)
        return s in self.final, out

    def by_state(self):
        """state -> list of (lo, hi, target, marker) maximal byte ranges with the same image."""
        per = {}
        for (s, b), (t, m) in sorted(self.tr.items()):
            l = per.setdefault(s, [])
            if l and l[-1][1] == b - 1 and l[-1][2] == t and l[-1][3] == m:
                l[-1][1] = b
            else:
                l.append([b, b, t, m])
        return per

    def smt_defs(self, name="d", only=None):
        """(define-fun <name>_t (s b) Int) target state or -1, (<name>_m (s b) Int) marker or -1,
        (<name>_f (s) Bool). Total functions: a missing key is the dead state -1."""
        per = self.by_state()
        if only is not None:
            per = {s: v for s, v in per.items() if s in only}

        def cond(lo, hi):
            return f"(= b {lo})" if lo == hi else f"(and (<= {lo} b) (<= b {hi}))"

        def chain(idx):
            outer = "(- 1)"
            for s in sorted(per, reverse=True):
                inner = "(- 1)"
                for lo, hi, t, m in reversed(per[s]):
                    inner = f"(ite {cond(lo, hi)} {(t, m)[idx]} {inner})"
                outer = f"(ite (= s {s}) {inner} {outer})"
            return outer

        fin = "(or false " + " ".join(f"(= s {f})" for f in sorted(self.final)) + ")"
        return [
            f"(define-fun {name}_t ((s Int) (b Int)) Int {chain(0)})",
            f"(define-fun {name}_m ((s Int) (b Int)) Int {chain(1)})",
            f"(define-fun {name}_f ((s Int)) Bool {fin})",
        ]


# ==================================================================================================
# queries
# ==================================================================================================

def word_decl(n, mmax, style="code"):
    """symbolic marked word of n letters: ints b_i (byte), m_i (marker), c_i = b_i + 256 m_i and the
    String term `w`."""
    L = []
    for i in range(n):
        L.append(f"(declare-const b{i} Int)(declare-const m{i} Int)")
        L.append(f"(assert (and (<= 0 b{i}) (<= b{i} 255) (<= 0 m{i}) (<= m{i} {mmax})))")
        L.append(f"(define-fun c{i} () Int (+ b{i} (* 256 m{i})))")
    if style == "code":
        if n == 0:
            L.append('(define-fun w () String "")')
        elif n == 1:
            L.append("(define-fun w () String (str.from_code c0))")
        else:
            L.append("(define-fun w () String (str.++ " + " ".join(f"(str.from_code c{i})" for i in range(n)) + "))")
    else:
        L.append("(declare-const w String)")
        L.append(f"(assert (= (str.len w) {n}))")
        for i in range(n):
            L.append(f"(assert (= c{i} (str.to_code (str.at w {i}))))")
    return L


def run_decl(n, init, name="d", pfx="s"):
    """unrolled run of automaton `name` on b_0..b_{n-1}; returns (lines, accept_term)."""
    L = [f"(define-fun {pfx}0 () Int {init})"]
    for i in range(n):
        L.append(f"(define-fun {pfx}{i + 1} () Int ({name}_t {pfx}{i} b{i}))")
    conj = [f"({name}_f {pfx}{n})"] + [f"(>= {pfx}{i + 1} 0)" for i in range(n)] + [f"(= m{i} ({name}_m {pfx}{i} b{i}))" for i in range(n)]
    return L, "(and " + " ".join(conj) + ")"


def equiv_query(auto, corex, n, mmax, style="code", mode="neq"):
    em = RegLanEmitter()
    top = em.term(corex)
    L = ["(set-logic ALL)"] + em.defs + auto.smt_defs("d") + word_decl(n, mmax, style)
    rl, acc = run_decl(n, auto.init)
    L += rl
    L.append(f"(define-fun acc () Bool {acc})")
    L.append(f"(define-fun inl () Bool (str.in_re w {top}))")
    if mode == "neq":
        L.append("(assert (not (= acc inl)))")
    elif mode == "vac":      # vacuity twin: some word of this length is accepted by both
        L.append("(assert (and acc inl))")
    return "\n".join(L), [f"b{i}" for i in range(n)] + [f"m{i}" for i in range(n)]


def ambiguity_query(corex, n, mmax):
    """two marked words of length n in the language with the same bytes and different markers."""
    em = RegLanEmitter()
    top = em.term(corex)
    L = ["(set-logic ALL)"] + em.defs
    for k in "xy":
        L.append(f"(declare-const w{k} String)")
        L.append(f"(assert (= (str.len w{k}) {n}))")
        L.append(f"(assert (str.in_re w{k} {top}))")
    diff = []
    for i in range(n):
        L.append(f"(declare-const b{i} Int)(declare-const mx{i} Int)(declare-const my{i} Int)")
        L.append(f"(assert (and (<= 0 b{i}) (<= b{i} 255) (<= 0 mx{i}) (<= mx{i} {mmax}) (<= 0 my{i}) (<= my{i} {mmax})))")
        L.append(f"(assert (= (+ b{i} (* 256 mx{i})) (str.to_code (str.at wx {i}))))")
        L.append(f"(assert (= (+ b{i} (* 256 my{i})) (str.to_code (str.at wy {i}))))")
        diff.append(f"(not (= mx{i} my{i}))")
    L.append("(assert (or false " + " ".join(diff) + "))")
    return "\n".join(L), [f"b{i}" for i in range(n)] + [f"mx{i}" for i in range(n)] + [f"my{i}" for i in range(n)]


def smt_str(cps):
    return '"' + "".join("\\u{%x}" % c for c in cps) + '"'


# ==================================================================================================
# the Rust side (`ax`)
# ==================================================================================================

AX_DIR, AX_TARGET = fcore.crate_dirs("engines/auto")
AXBIN = os.path.join(AX_TARGET, "debug", "ax")
_build_lock = threading.Lock()
_built = False


def build(run=None):
    """(Re)build `ax` against the checked tree (path dependencies + build.rs regenerate everything that
    depends on the tree's sources)."""
    global _built
    with _build_lock:
        if _built:
            return
        t = time.time()
        env = dict(os.environ, CARGO_TARGET_DIR=AX_TARGET, CARGO_NET_OFFLINE="true")
        p = subprocess.run(["cargo", "build", "--offline", "--bin", "ax"], cwd=AX_DIR, env=env, capture_output=True, text=True)
        if p.returncode != 0:
            raise RuntimeError("ax build failed:\n" + p.stderr[-3000:])
        _built = True
        if run:
            run.log(f"ax built in {time.time() - t:.1f}s")


def _tmpjson(obj):
    f = tempfile.NamedTemporaryFile("w", suffix=".json", delete=False)
    json.dump(obj, f)
    f.close()
    return f.name


def ax_compile(items, timeout=20, workers=6):
    """items: list of (id, R). -> {id: result dict} (ok/automaton | panic | timeout)."""
    build()
    out = {}
    chunks = [items[i::workers] for i in range(workers)]
    chunks = [c for c in chunks if c]

    def one(chunk):
        path = _tmpjson({"items": [{"id": i, "r": r} for i, r in chunk]})
        try:
            p = subprocess.run([AXBIN, "compile", path, str(timeout)], capture_output=True, text=True, timeout=timeout * len(chunk) + 60)
            res = {}
            for l in p.stdout.splitlines():
                o = json.loads(l)
                res[o["id"]] = o
            for i, _ in chunk:
                res.setdefault(i, {"ok": False, "error": "no output: " + p.stderr[-300:]})
            return res
        except subprocess.TimeoutExpired:
            return {i: {"ok": False, "timeout": True} for i, _ in chunk}
        finally:
            os.unlink(path)

    from concurrent.futures import ThreadPoolExecutor
    with ThreadPoolExecutor(len(chunks) or 1) as ex:
        for res in ex.map(one, chunks):
            out.update(res)
    return out


def ax_run(spec, words):
    """spec: {"r": R} | {"lib": name} | {"shipped": name}; words: list of byte lists. Real runs."""
    build()
    path = _tmpjson(dict(spec, words=[list(w) for w in words]))
    try:
        p = subprocess.run([AXBIN, "run", path], capture_output=True, text=True, timeout=700)
        if p.returncode != 0 or not p.stdout.strip():
            return {"ok": False, "error": p.stderr[-500:]}
        return json.loads(p.stdout.splitlines()[-1])
    finally:
        os.unlink(path)


def ax_lib(timeout=120):
    build()
    p = subprocess.run([AXBIN, "lib", "all", str(timeout)], capture_output=True, text=True, timeout=timeout * 6 + 60)
    if p.returncode != 0:
        raise RuntimeError("ax lib failed: " + p.stderr[-800:])
    return [json.loads(l) for l in p.stdout.splitlines() if l.strip()]


# ==================================================================================================
# deciding one regex
# ==================================================================================================

Z3 = ("z3-new",)


def solve_z3(q, timeout, names=None):
    return solvers.solve(q, timeout=timeout, solvers=Z3, get_values=names)


def real_verdict(spec, bytes_, markers):
    """real run of the real automaton: does it accept `bytes_` AND emit exactly `markers`?"""
    res = ax_run(spec, [bytes_])
    if not res.get("ok"):
        return None, res
    r = res["runs"][0]
    return bool(r["accepted"] and r["markers"] == list(markers)), r


def decide_equiv(run, ob, rjson, auto, N, variant=None, spec=None, timeout=60, cross=0, n_min=8):
    """language + marker equivalence of the dumped automaton and the reference language, every word
    length 0..N. spec: what `ax run` must rebuild for a replay (default {"r": rjson})."""
    spec = spec or {"r": rjson}
    try:
        corex = core_of(rjson, variant)
    except Outside as ex:
        ob.nontrivial = False
        return ob.set(INCONCLUSIVE, f"outside the claim: {ex}")
    mmax = min(MAXM, max(core_markers(corex) | {m for _, _, _, m in auto.raw} | {0}) + 1)
    memo = {}
    witness = None
    for n in range(N + 1):
        q, names = equiv_query(auto, corex, n, mmax, "at")
        r = solve_z3(q, timeout, names)
        ob.queries += 1
        ob.solver_s += r.time_s
        if r.status == "unsat":
            if cross and 1 <= n <= cross:
                # second opinion (cvc5, str.from_code formulation); a definite disagreement is inconclusive
                q2, _ = equiv_query(auto, corex, n, mmax, "code")
                r2 = solvers.solve(q2, timeout=10, solvers=("cvc5",))
                ob.queries += 1
                if r2.status == "sat":
                    return ob.set(INCONCLUSIVE, f"solvers disagree at length {n}: z3-new unsat, cvc5 sat")
            if witness is None:
                q, names = equiv_query(auto, corex, n, mmax, "at", mode="vac")
                rv = solve_z3(q, timeout, names)
                ob.queries += 1
                ob.solver_s += rv.time_s
                if rv.status == "sat":
                    witness = n
            continue
        if r.status != "sat":
            if n > n_min:
                # the target bound is not reached within the cap: the claim is lowered to the lengths decided
                reached = n - 1
                ob.bound = f"word length <= {reached} (target {N}: solver gave no answer at length {n} within {timeout}s); markers <= 64"
                break
            return ob.set(INCONCLUSIVE, f"length {n}: solver {r.status} {r.raw[:160]}")
        w = [r.model.get(f"b{i}", 0) for i in range(n)]
        m = [r.model.get(f"m{i}", 0) for i in range(n)]
        in_ref = ref_match(corex, [b + 256 * k for b, k in zip(w, m)], memo)
        real, raw = real_verdict(spec, w, m)
        if real is None:
            return ob.set(INCONCLUSIVE, f"counterexample {w} {m} could not be replayed: {raw}")
        if real != in_ref:
            path = run.write_replay(ob, dict(kind="regex-word", spec=spec, r=rjson, variant=variant, word=w, markers=m,
                                             in_reference_language=in_ref, real_accepts_with_these_markers=real, real_run=raw))
            what = (f"the real automaton {'accepts' if real else 'does not accept'} {bytes(w)!r} with markers {m} "
                    f"(real run: accepted={raw['accepted']} markers={raw['markers']}) but the word "
                    f"{'is' if in_ref else 'is not'} in the language of the expression")
            return ob.set(VIOLATION, what, solver=r.solver, replay=path)
        return ob.set(INCONCLUSIVE, f"length {n}: model {w} {m} does not replay (real={real}, reference matcher={in_ref}, z3 said they differ)")
    if witness is not None:
        ob.vacuity = True
    else:
        # nothing accepted up to N: the twin is "the word space itself is satisfiable" (weak), say so
        q, names = equiv_query(auto, corex, min(N, 1), mmax, "at", mode="none")
        rv = solve_z3(q, timeout)
        ob.queries += 1
        ob.vacuity = rv.status == "sat"
        ob.detail = f"no word of length <= {N} is accepted (language has only longer words or is empty)"
    return ob.set(HOLDS, solver="z3-new")


def decide_unambiguous(run, ob, rjson, N, variant=None, timeout=20, budget=25.0, min_n=3):
    """output-determinism of the expression itself (no automaton involved): no two words of the language
    of the same length <= n have the same bytes and different markers. The two-string query gets hard
    quickly; n grows until N or until the time budget is spent, the bound reached is recorded."""
    corex = core_of(rjson, variant)
    mmax = min(MAXM, max(core_markers(corex) | {0}))
    memo = {}
    t0 = time.time()
    reached = -1
    for n in range(N + 1):
        if n > min_n and time.time() - t0 > budget:
            break
        q, names = ambiguity_query(corex, n, mmax)
        r = solve_z3(q, timeout if n > min_n else 60, names)
        ob.queries += 1
        ob.solver_s += r.time_s
        if r.status == "unsat":
            reached = n
            continue
        if r.status != "sat":
            if n > min_n:
                break
            return ob.set(INCONCLUSIVE, f"length {n}: solver {r.status} {r.raw[:160]}")
        b = [r.model.get(f"b{i}", 0) for i in range(n)]
        mx = [r.model.get(f"mx{i}", 0) for i in range(n)]
        my = [r.model.get(f"my{i}", 0) for i in range(n)]
        ok = ref_match(corex, [x + 256 * k for x, k in zip(b, mx)], memo) and ref_match(corex, [x + 256 * k for x, k in zip(b, my)], memo) and mx != my
        if not ok:
            return ob.set(INCONCLUSIVE, f"ambiguity model does not re-evaluate: {b} {mx} {my}")
        return ("ambiguous", b, mx, my)
    ob.bound = f"word length <= {reached}"
    return None


def decide_refusal(run, ob, rjson, msg, variant=None, timeout=60):
    """The compiler refused the expression as non output-deterministic. A letter-to-letter deterministic
    transducer exists iff no two words of the language share a byte prefix on which their markers
    differ; the refusal is justified iff such a pair exists. The panic message names a byte prefix P, a
    byte X and two markers: both  L ∩ lift(P)·(X,M1)·Sigma*  and  L ∩ lift(P)·(X,M2)·Sigma*  must be
    non-empty (two regular-language queries, suffixes of any length)."""
    import re
    corex = core_of(rjson, variant)
    m = re.search(r"bytes \[\[([0-9, ]*)\]\]\).*?\(byte (\d+)\) should be marked (\d+) or (\d+)", msg, re.S)
    if not m:
        return ob.set(INCONCLUSIVE, f"refusal message without a parsable witness: {msg[:200]}")
    P = [int(x) for x in m.group(1).split(",") if x.strip()]
    X, M1, M2 = int(m.group(2)), int(m.group(3)), int(m.group(4))
    em = RegLanEmitter()
    top = em.term(corex)
    M = sorted(core_markers(corex) | {0})
    sig = em.setterm(mkset(b + 256 * k for b in range(256) for k in M))
    pre = " ".join(em.setterm(mkset(b + 256 * k for k in M)) for b in P)
    words = []
    for mk in (M1, M2):
        q = "\n".join(["(set-logic ALL)"] + em.defs + ["(declare-const x String)",
                      f"(assert (str.in_re x (re.inter {top} (re.++ {pre} (str.to_re {smt_char(X + 256 * mk)}) (re.* {sig})))))"])
        r = solve_z3(q, timeout)
        ob.queries += 1
        ob.solver_s += r.time_s
        if r.status == "unsat":
            path = run.write_replay(ob, dict(kind="regex-panic", r=rjson))
            ob.key += ":unjustified-refusal"
            return ob.set(VIOLATION, f"to_automaton() refuses the expression as non output-deterministic after bytes {P} + {X}, but no word of the language marks that byte {mk}", replay=path)
        if r.status != "sat":
            return ob.set(INCONCLUSIVE, f"solver {r.status} {r.raw[:160]}")
        cps = string_model(q, "x", timeout)
        if cps is None or not ref_match(corex, cps):
            return ob.set(INCONCLUSIVE, "witness word does not re-evaluate")
        words.append(cps)
    ob.vacuity = True
    w1, w2 = words
    return ob.set(HOLDS, f"refusal justified: {bytes(c & 255 for c in w1)!r} marks byte #{len(P)} with {M1}, {bytes(c & 255 for c in w2)!r} with {M2}", solver="z3-new")


def balanced_ite(var, vals, lo=0):
    """(ite ...) tree of depth log n selecting vals[var - lo]."""
    if len(vals) == 1:
        return str(vals[0])
    mid = len(vals) // 2
    return f"(ite (< {var} {lo + mid}) {balanced_ite(var, vals[:mid], lo)} {balanced_ite(var, vals[mid:], lo + mid)})"


def determinism_queries(transitions, chunk=400):
    """over the LIST of dumped transitions (sorted by Python, sortedness is part of the query): some
    adjacent pair of entries is not strictly increasing in the key (state, byte) -- unsat for every
    chunk means the keys are pairwise distinct, i.e. one image (target, marker) per (state, byte)."""
    keys = [s * 256 + b for s, b, _, _ in sorted(transitions)]
    out = []
    for lo in range(0, max(len(keys) - 1, 0), chunk):
        part = keys[lo:lo + chunk + 1]
        if len(part) < 2:
            continue
        out.append("\n".join(["(set-logic ALL)", f"(define-fun K ((i Int)) Int {balanced_ite('i', part)})",
                              "(declare-const i Int)", f"(assert (and (<= 0 i) (< i {len(part) - 1})))",
                              "(assert (>= (K i) (K (+ i 1))))"]))
    return out


# ==================================================================================================
# per-state obligations (every state of the dumped automaton, unbounded suffixes)
# ==================================================================================================

def access_words(auto):
    """state -> marked word (code points) of a shortest run from the initial state (BFS over the dump)."""
    import collections
    succ = collections.defaultdict(list)
    for (s, b), (t, m) in sorted(auto.tr.items()):
        succ[s].append((b, t, m))
    acc = {auto.init: []}
    dq = collections.deque([auto.init])
    while dq:
        s = dq.popleft()
        for b, t, m in succ[s]:
            if t not in acc:
                acc[t] = acc[s] + [b + 256 * m]
                dq.append(t)
    return acc, succ


def completion_words(auto):
    """state -> marked word leading to a final state (shortest), for the states that have one."""
    import collections
    pred = collections.defaultdict(list)
    for (s, b), (t, m) in sorted(auto.tr.items()):
        pred[t].append((s, b, m))
    comp = {f: [] for f in auto.final}
    dq = collections.deque(sorted(auto.final))
    while dq:
        t = dq.popleft()
        for s, b, m in pred[t]:
            if s not in comp:
                comp[s] = [b + 256 * m] + comp[t]
                dq.append(s)
    return comp


def parse_smt_string(lit):
    """SMT-LIB 2.6 string literal body (without the outer quotes) -> code points."""
    out, i = [], 0
    hexd = "0123456789abcdefABCDEF"
    while i < len(lit):
        ch = lit[i]
        if ch == '"' and lit[i:i + 2] == '""':
            out.append(0x22)
            i += 2
        elif lit[i:i + 3] == '\\u{':
            j = lit.index('}', i)
            out.append(int(lit[i + 3:j], 16))
            i = j + 1
        elif lit[i:i + 2] == '\\u' and i + 6 <= len(lit) and all(c in hexd for c in lit[i + 2:i + 6]):
            out.append(int(lit[i + 2:i + 6], 16))
            i += 6
        else:
            out.append(ord(ch))
            i += 1
    return out


def string_model(qtext, var, timeout):
    """qtext was answered sat: ask z3-new for the value of the String `var` (the framework's solve() only
    parses Int/Bool values). Returns code points or None."""
    import re
    text = qtext + f"\n(check-sat)\n(get-value ({var}))\n"
    try:
        p = subprocess.run(["z3-new", "-in", f"-T:{int(timeout)}"], input=text, capture_output=True, text=True, timeout=timeout + 5)
    except subprocess.TimeoutExpired:
        return None
    out = p.stdout
    if not out.startswith("sat"):
        return None
    m = re.search(r'\(\(' + re.escape(var) + r'\s+"((?:[^"]|"")*)"\)\)', out, re.S)
    if not m:
        return None
    return parse_smt_string(m.group(1))


def decide_states(run, obs, rjson, auto, variant=None, spec=None, timeout=120, chunk=64):
    """obs = (ob_missing, ob_present, ob_final). For every reachable state s of the dumped automaton, with
    u_s a concrete access word and v_t a concrete accepted completion of t:
      missing:  L  ∩  u_s · (Sigma \\ letters_s) · Sigma*  = {}       (no letter of the language is absent)
      present:  u_s · letters_{s->t} · v_t  is a subset of L            (every transition class, with its marker);
                for t without accepting continuation:  L ∩ u_s · letters_{s->t} · Sigma* = {}
      final:    s final  <=>  u_s in L
    Each is one regular-language emptiness query per chunk of states (all letters / all suffixes
    symbolic inside the solver)."""
    spec = spec or {"r": rjson}
    ob_b, ob_c, ob_d = obs
    try:
        corex = core_of(rjson, variant)
    except Outside as ex:
        for ob in obs:
            ob.nontrivial = False
            ob.set(INCONCLUSIVE, f"outside the claim: {ex}")
        return
    em = RegLanEmitter()
    top = em.term(corex)
    M = sorted(core_markers(corex) | {m for _, _, _, m in auto.raw} | {0})
    sigma = mkset(b + 256 * m for b in range(256) for m in M)
    sig = em.setterm(sigma)
    acc, succ = access_words(auto)
    comp = completion_words(auto)
    base = ["(set-logic ALL)"] + em.defs + ["(declare-const x String)"]
    states = sorted(acc)
    memo = {}
    unreachable = [s for s in range(auto.nb) if s not in acc]
    dead = [s for s in states if s not in comp]

    def violation(ob, cps, kind):
        w = [c & 255 for c in cps]
        m = [c >> 8 for c in cps]
        in_ref = ref_match(corex, cps, memo)
        real, raw = real_verdict(spec, w, m)
        if real is None:
            return ob.set(INCONCLUSIVE, f"counterexample could not be replayed: {raw}")
        if real != in_ref:
            path = run.write_replay(ob, dict(kind="regex-word", spec=spec, r=rjson, variant=variant, word=w, markers=m,
                                             in_reference_language=in_ref, real_accepts_with_these_markers=real, real_run=raw))
            return ob.set(VIOLATION, f"[{kind}] the real automaton {'accepts' if real else 'does not accept'} {bytes(w)[:80]!r} (len {len(w)}) with markers {m[:40]} "
                                     f"but the word {'is' if in_ref else 'is not'} in the language of the expression", solver="z3-new", replay=path)
        return ob.set(INCONCLUSIVE, f"[{kind}] model does not replay (real={real}, reference matcher={in_ref})")

    def union(branches):
        return branches[0] if len(branches) == 1 else "(re.union " + " ".join(branches) + ")"

    # ---- missing letters -----------------------------------------------------------------------
    ok = True
    had_twin = False
    for i in range(0, len(states), chunk):
        branches, twins = [], []
        for s in states[i:i + chunk]:
            present = {b + 256 * m for b, t, m in succ[s]}
            missing = mkset(c for c in set_members(sigma) if c not in present)
            if missing[1]:
                branches.append(f"(re.++ (str.to_re {smt_str(acc[s])}) {em.setterm(missing)} (re.* {sig}))")
            if present:
                twins.append(f"(re.++ (str.to_re {smt_str(acc[s])}) {em.setterm(mkset(present))} (re.* {sig}))")
        if not branches:
            continue
        q = "\n".join(base + [f"(assert (str.in_re x (re.inter {top} {union(branches)})))"])
        r = solve_z3(q, timeout)
        ob_b.queries += 1
        ob_b.solver_s += r.time_s
        if r.status == "sat":
            cps = string_model(q, "x", timeout)
            if cps is None:
                ob_b.set(INCONCLUSIVE, "sat but no string model")
            else:
                violation(ob_b, cps, "missing transition")
            ok = False
            break
        if r.status != "unsat":
            ob_b.set(INCONCLUSIVE, f"solver {r.status} {r.raw[:160]}")
            ok = False
            break
        if twins and not ob_b.vacuity:
            had_twin = True
            rv = solve_z3("\n".join(base + [f"(assert (str.in_re x (re.inter {top} {union(twins)})))"]), timeout)
            ob_b.queries += 1
            ob_b.vacuity = rv.status == "sat"
    if ok:
        if not ob_b.vacuity:
            if not had_twin:
                ob_b.vacuity = True
            ob_b.detail = "no transition of the automaton continues a word of the language (empty language or epsilon only)"
        ob_b.set(HOLDS, solver="z3-new")
    # ---- present classes -----------------------------------------------------------------------
    ok = True
    notes = []
    if unreachable:
        notes.append(f"{len(unreachable)} states of the dump are unreachable (ignored: they cannot affect any run)")
    if dead and (auto.final or auto.tr):
        notes.append(f"{len(dead)} reachable states have no accepting continuation")
    groups, deadgroups = [], []
    for s in states:
        byt = {}
        for b, t, m in succ[s]:
            byt.setdefault(t, []).append(b + 256 * m)
        for t, cps in sorted(byt.items()):
            (groups if t in comp else deadgroups).append((s, t, cps))
    step = chunk * 2
    for i in range(0, max(len(groups), len(deadgroups)), step):
        if not ok:
            break
        qs = []
        g = groups[i:i + step]
        if g:
            u = union([f"(re.++ (str.to_re {smt_str(acc[s])}) {em.setterm(mkset(cps))} (str.to_re {smt_str(comp[t])}))" for s, t, cps in g])
            qs.append(("transition leaves the language", f"(re.inter {u} (re.comp {top}))", f"(re.inter {u} {top})"))
        g = deadgroups[i:i + step]
        if g:
            u = union([f"(re.++ (str.to_re {smt_str(acc[s])}) {em.setterm(mkset(cps))} (re.* {sig}))" for s, t, cps in g])
            qs.append(("transition into a dead state drops a word of the language", f"(re.inter {u} {top})", None))
        for kind, bad, twin in qs:
            q = "\n".join(base + [f"(assert (str.in_re x {bad}))"])
            r = solve_z3(q, timeout)
            ob_c.queries += 1
            ob_c.solver_s += r.time_s
            if r.status == "sat":
                cps = string_model(q, "x", timeout)
                if cps is None:
                    ob_c.set(INCONCLUSIVE, "sat but no string model")
                else:
                    violation(ob_c, cps, kind)
                ok = False
                break
            elif r.status != "unsat":
                ob_c.set(INCONCLUSIVE, f"solver {r.status} {r.raw[:160]}")
                ok = False
                break
            elif twin and not ob_c.vacuity:
                rv = solve_z3("\n".join(base + [f"(assert (str.in_re x {twin}))"]), timeout)
                ob_c.queries += 1
                ob_c.vacuity = rv.status == "sat"
    if ok:
        if not groups:
            ob_c.vacuity = True
            notes.append("no transition reaches an accepting state")
        ob_c.set(HOLDS, solver="z3-new", detail="; ".join(notes))
    # ---- final states ---------------------------------------------------------------------------
    for i in range(0, len(states), chunk * 2):
        L = ["(set-logic ALL)"] + em.defs
        names = []
        for s in states[i:i + chunk * 2]:
            L.append(f"(define-fun in{s} () Bool (str.in_re {smt_str(acc[s])} {top}))")
            names.append(f"in{s}")
        L.append("(assert (or false " + " ".join(f"(not (= in{s} {'true' if s in auto.final else 'false'}))" for s in states[i:i + chunk * 2]) + "))")
        r = solve_z3("\n".join(L), timeout, names)
        ob_d.queries += 1
        ob_d.solver_s += r.time_s
        if r.status == "sat":
            bad = [s for s in states[i:i + chunk * 2] if r.model.get(f"in{s}") != (s in auto.final)]
            violation(ob_d, acc[bad[0]], "final-state flag")
            break
        if r.status != "unsat":
            ob_d.set(INCONCLUSIVE, f"solver {r.status} {r.raw[:160]}")
            break
    else:
        ob_d.nontrivial = False      # ground: concrete access words
        ob_d.vacuity = True
        ob_d.set(HOLDS, solver="z3-new")


# ==================================================================================================
# regex family
# ==================================================================================================

def _b(*bs):
    return {"op": "byte_from", "set": [x if isinstance(x, int) else ord(x) for x in bs]}


def _w(s):
    return {"op": "word", "s": list(s.encode())}


def _u(op, x, **kw):
    return dict({"op": op, "x": x}, **kw)


def _bin(op, x, y):
    return {"op": op, "x": x, "y": y}


def _n(op, xs, **kw):
    return dict({"op": op, "xs": list(xs)}, **kw)


def fixed_family():
    """every public combinator applied to leaf classes (boundary members, always included).
    -> list of (id, role key, R)"""
    a, b_, c_ = _b('a'), _b('b'), _b('c')
    abc = _b('a', 'b', 'c')
    ab = _w("ab")
    comma = _w(",")
    dig = {"op": "digit"}
    anyb = {"op": "any_byte"}
    F = []
    add = lambda i, r, key=None: F.append((i, key or "regex:" + i.split("[")[0], r))
    # leaves
    add("byte_from", abc)
    add("byte_from[empty]", _b())
    add("byte_not_from", {"op": "byte_not_from", "set": [97, 98, 0, 255]})
    for leaf in ("any_byte", "epsilon", "digit", "lowercase_letter", "uppercase_letter", "letter", "alphanumeric",
                 "one_blank", "blanks", "blanks_strict", "utf8_cps", "utf8"):
        add(leaf, {"op": leaf})
    add("word", _w("hello"))
    add("word[empty]", _w(""))
    # boolean structure
    add("union", _n("union", [ab, dig, _w("a")]))
    add("union[empty]", _n("union", []))
    add("or", _bin("or", ab, _u("list", a)))
    add("cat", _n("cat", [a, _u("list", b_), c_]))
    add("cat[empty]", _n("cat", []))
    add("terminated", _bin("terminated", _u("non_empty_list", a), _u("list", _b('a', 'b'))))
    add("spaced_terminated", _bin("spaced_terminated", ab, dig))
    add("inter", _n("inter", [_u("list", abc), _n("cat", [anyb, anyb, anyb]), _u("neg", _w("abc"))]))
    add("inter[single]", _n("inter", [ab]))
    add("and", _bin("and", _u("list", _b('a', 'b')), _n("cat", [anyb, a, _u("list", anyb)])))
    add("neg", _u("neg", ab))
    add("neg[class]", _u("neg", dig))
    add("neg[star]", _u("neg", _u("list", _b('a', 'b'))))
    add("neg[neg]", _u("neg", _u("neg", ab)))
    add("neg[contains]", _u("neg", _n("cat", [{"op": "any"}, _w("dd"), {"op": "any"}])))
    add("minus", _bin("minus", _u("list", abc), _n("cat", [_u("list", abc), _w("cc"), _u("list", abc)])))
    add("minus[self]", _bin("minus", ab, ab))
    add("any[cat]", _n("cat", [a, {"op": "any"}, b_]))
    add("any[minus]", _bin("minus", {"op": "any"}, _u("list", _b('a', 'b'))))
    add("optional", _u("optional", ab))
    add("optional[nullable]", _u("optional", _u("list", a)))
    # iteration
    for op in ("list", "non_empty_list", "spaced_list", "spaced_non_empty_list"):
        add(op, _u(op, ab))
        add(op + "[nullable]", _u(op, _u("optional", a)))
    for op in ("separated_list", "separated_non_empty_list", "spaced_separated_list", "spaced_separated_non_empty_list"):
        add(op, _u(op, _u("non_empty_list", dig), sep=comma))
    add("separated_list[nullable]", _u("separated_list", _u("list", a), sep=_u("optional", comma)))
    for n in (0, 1, 3):
        add(f"repeat[{n}]", _u("repeat", ab, n=n))
        add(f"repeat_at_most[{n}]", _u("repeat_at_most", _b('a', 'b'), n=n))
    add("spaced_repeat[2]", _u("spaced_repeat", ab, n=2))
    add("spaced_repeat_at_most[2]", _u("spaced_repeat_at_most", a, n=2))
    add("separated_repeat[3]", _u("separated_repeat", dig, n=3, sep=comma))
    add("separated_repeat[0]", _u("separated_repeat", dig, n=0, sep=comma))
    add("spaced_separated_repeat[2]", _u("spaced_separated_repeat", dig, n=2, sep=comma))
    add("separated_repeat_at_most[2]", _u("separated_repeat_at_most", dig, n=2, sep=comma))
    add("spaced_separated_repeat_at_most[2]", _u("spaced_separated_repeat_at_most", a, n=2, sep=comma))
    add("spaced_cat", _n("spaced_cat", [ab, dig, _w("!")]))
    add("spaced_cat[empty]", _n("spaced_cat", []))
    add("separated_cat", _n("separated_cat", [ab, dig, a], sep=comma))
    add("spaced_separated_cat", _n("spaced_separated_cat", [a, b_], sep=comma))
    add("delimited", {"op": "delimited", "x": _u("list", dig), "open": _w("("), "close": _w(")")})
    add("spaced_delimited", {"op": "spaced_delimited", "x": dig, "open": _w("["), "close": _w("]")})
    # markers
    blank3 = [0x20, 0x0A, 0x09]
    tbl = [None] * 256
    tbl[0x20], tbl[0x0A], tbl[0x09] = 1, 2, 3
    add("mark_bytes", _u("list", _u("mark_bytes", anyb, set=blank3, m=1)))
    add("mark", _u("list", _u("mark", anyb, table=tbl)))
    tbl2 = [None] * 256
    for x in range(0x61, 0x7B):
        tbl2[x] = 1
    add("mark[over-structure]", _u("mark", _n("separated_cat", [_w("["), _u("separated_list", _w("hello"), sep={"op": "blanks_strict"}), _w("]")], sep={"op": "blanks"}), table=tbl2))
    add("mark_bytes[erase]", _u("mark_bytes", _u("mark_bytes", _u("list", abc), set=[97, 98], m=2), set=[97], m=0))
    add("replace_markers", _u("replace_markers", _n("cat", [_u("mark_bytes", a, set=[97], m=1), _u("mark_bytes", _u("list", b_), set=[98], m=2), c_]), map=[[1, 5], [2, 1]]))
    add("replace_markers[zero]", _u("replace_markers", _n("cat", [_u("mark_bytes", a, set=[97], m=1), b_]), map=[[0, 3]]))
    add("mark[separated_list]", _u("separated_list", _u("mark_bytes", _u("non_empty_list", a), set=[97], m=1), sep=b_))
    add("and[marked,unmarked]", _bin("and", _n("separated_cat", [_w("hi"), _w("yo")], sep={"op": "blanks_strict"}), _u("list", _u("mark", anyb, table=tbl))))
    add("minus[marked]", _bin("minus", _u("list", _u("mark_bytes", abc, set=[97], m=1)), _n("cat", [{"op": "any"}, _w("cc"), {"op": "any"}])))
    # successive marker operations on languages whose letters do not appear in the expression (any(), complements):
    # the second operation must compose with the first one's side table (added after seeded C19-d)
    any_ = {"op": "any"}
    add("mark2[any]", _u("mark_bytes", _u("mark_bytes", any_, set=[97], m=1), set=[98], m=2))
    add("mark2[any,replace]", _u("replace_markers", _u("mark_bytes", any_, set=[97], m=1), map=[[1, 7]]))
    add("mark2[minus]", _u("mark_bytes", _u("mark_bytes", _bin("minus", any_, _w("x")), set=[97], m=1), set=[98], m=2))
    add("mark2[neg,replace]", _u("replace_markers", _u("mark_bytes", _u("neg", _w("b")), set=[97], m=1), map=[[1, 3]]))
    add("mark3[any]", _u("mark_bytes", _u("mark_bytes", _u("mark_bytes", any_, set=[97], m=1), set=[98], m=2), set=[99], m=0))
    add("mark[same-byte-two-markers]", _n("cat", [_u("mark_bytes", a, set=[97], m=1), _u("list", b_), _u("mark_bytes", a, set=[97], m=2)]))
    add("mark[ambiguous]", _bin("or", _u("mark_bytes", ab, set=[97], m=1), _u("mark_bytes", ab, set=[97], m=2)))
    # every word has ONE marking, but the marker of 'a' depends on the next byte: no letter-to-letter
    # deterministic transducer exists, the compiler must refuse
    add("mark[lookahead]", _bin("or", _n("cat", [_u("mark_bytes", a, set=[97], m=1), b_]), _n("cat", [_u("mark_bytes", a, set=[97], m=2), c_])))
    return F


# probes of constructs on which a defect was found while building the engine (most are fixed in the
# tree by now: they stay as regression members); each has its own role key
DEFECT_PROBES = [
    ("json_string", "regex:json_string", {"op": "json_string"}),
    ("any", "regex:any", {"op": "any"}),
    ("any[list]", "regex:any", {"op": "list", "x": {"op": "any"}}),
    ("neg[epsilon]", "regex:neg-of-transitionless", {"op": "neg", "x": {"op": "epsilon"}}),
    ("neg[empty]", "regex:neg-of-transitionless", {"op": "neg", "x": {"op": "union", "xs": []}}),
    ("minus[epsilon]", "regex:neg-of-transitionless", {"op": "minus", "x": {"op": "list", "x": _b('a')}, "y": {"op": "epsilon"}}),
    ("cat[repeat_at_most0]", "regex:concat-epsilon-component", {"op": "cat", "xs": [_b('b'), {"op": "repeat_at_most", "x": _b('a'), "n": 0}]}),
    ("terminated[optional-eps]", "regex:concat-epsilon-component", {"op": "terminated", "x": _b('b'), "y": {"op": "optional", "x": {"op": "epsilon"}}}),
    ("delimited[eps-by-inter]", "regex:concat-epsilon-component", {"op": "delimited", "x": {"op": "and", "x": {"op": "list", "x": _b('a')}, "y": {"op": "list", "x": _b('b')}}, "open": _w("("), "close": _w(")")}),
    ("list[empty-word]", "regex:list-of-epsilon-automaton", {"op": "list", "x": {"op": "word", "s": []}}),
    ("list[eps-by-inter]", "regex:list-of-epsilon-automaton", {"op": "list", "x": {"op": "and", "x": {"op": "list", "x": _b('a')}, "y": {"op": "list", "x": _b('b')}}}),
    ("cat[list-of-repeat_at_most0]", "regex:list-of-epsilon-automaton", {"op": "cat", "xs": [_b('a'), {"op": "list", "x": {"op": "repeat_at_most", "x": _b('b'), "n": 0}}]}),
    ("mark[any]", "regex:mark-over-any-or-neg", {"op": "mark_bytes", "x": {"op": "cat", "xs": [_b('a'), {"op": "any"}]}, "set": [97], "m": 1}),
    ("mark[neg]", "regex:mark-over-any-or-neg", {"op": "mark_bytes", "x": {"op": "neg", "x": _w("b")}, "set": [97], "m": 1}),
]


def random_family(seed, count, depth):
    """seeded random ASTs over a small alphabet (so that sub-languages interact)."""
    rnd = random.Random(seed * 7919 + depth)
    small = [ord('a'), ord('b'), ord('c'), ord('0'), ord(' '), ord(',')]

    rich = rich_leaves()
    rich_names = sorted(rich)

    def leaf():
        k = rnd.randrange(12)
        if k == 0:
            return _b(rnd.choice(small))
        if k == 1:
            return _b(*rnd.sample(small, rnd.randrange(2, 4)))
        if k == 2:
            return _w("".join(chr(rnd.choice(small[:3])) for _ in range(rnd.randrange(1, 4))))
        if k == 3:
            return {"op": "byte_not_from", "set": rnd.sample(small, 2)}
        if k == 4:
            return {"op": rnd.choice(["digit", "one_blank", "blanks", "any_byte", "epsilon", "any"])}
        if k == 5:
            return _n("cat", [{"op": "any"}, _b(rnd.choice(small[:3]))])
        if k == 6:
            return _b(*rnd.sample(small[:4], 2))
        if k == 7:
            # iterated random multi-byte word
            w = _w("".join(chr(rnd.choice(small[:3])) for _ in range(rnd.randrange(2, 4))))
            return _u(rnd.choice(["list", "non_empty_list", "optional"]), w)
        return json.loads(json.dumps(rich[rnd.choice(rich_names)]))

    def gen(d):
        if d == 0 or rnd.random() < 0.15:
            return leaf()
        k = rnd.randrange(20)
        x = lambda: gen(d - 1)
        if k < 3:
            return _n("cat", [x() for _ in range(rnd.randrange(2, 4))])
        if k < 5:
            return _n("union", [x() for _ in range(rnd.randrange(2, 4))])
        if k == 5:
            return _bin("and", x(), x())
        if k == 6:
            return _bin("minus", x(), x())
        if k == 7:
            return _u("neg", x())
        if k == 8:
            return _u(rnd.choice(["list", "non_empty_list", "optional"]), x())
        if k == 9:
            return _u(rnd.choice(["spaced_list", "spaced_non_empty_list"]), x())
        if k == 10:
            return _u(rnd.choice(["separated_list", "separated_non_empty_list", "spaced_separated_list", "spaced_separated_non_empty_list"]), x(), sep=leaf())
        if k == 11:
            return _u(rnd.choice(["repeat", "repeat_at_most", "spaced_repeat", "spaced_repeat_at_most"]), x(), n=rnd.randrange(0, 4))
        if k == 12:
            return _u(rnd.choice(["separated_repeat", "separated_repeat_at_most", "spaced_separated_repeat", "spaced_separated_repeat_at_most"]), x(), n=rnd.randrange(0, 3), sep=leaf())
        if k == 13:
            return _n(rnd.choice(["spaced_cat", "separated_cat", "spaced_separated_cat"]), [x(), x()], sep=leaf())
        if k == 14:
            return {"op": rnd.choice(["delimited", "spaced_delimited"]), "x": x(), "open": leaf(), "close": leaf()}
        if k in (15, 16):
            return _u("mark_bytes", x(), set=rnd.sample(small, rnd.randrange(1, 3)), m=rnd.randrange(0, 4))
        if k == 17:
            return _u("replace_markers", x(), map=[[rnd.randrange(1, 4), rnd.randrange(0, 4)]])
        if k == 18:
            return _bin(rnd.choice(["terminated", "spaced_terminated", "or"]), x(), x())
        return _n("inter", [x(), x()])

    def size(j):
        if isinstance(j, dict):
            return 1 + sum(size(v) for v in j.values())
        if isinstance(j, list):
            return sum(size(v) for v in j)
        return 0

    out, tries = [], 0
    while len(out) < count and tries < count * 200:
        tries += 1
        r = gen(depth)
        if size(r) > 40:
            continue
        try:
            lower(prim(r))
        except Outside:
            continue
        out.append((f"random[d{depth},{len(out)}]", "regex:random", r))
    return out


def core_reps(c, acc=None):
    """one representative code point per block of the partition induced by the sets of `c`."""
    pts = set()

    def walk(x):
        t = x[0]
        if t == 'set':
            for lo, hi in x[1]:
                pts.add(lo)
                pts.add(hi + 1)
        elif t in ('cat', 'alt', 'and'):
            for y in x[1]:
                walk(y)
        elif t == 'plus':
            walk(x[1])
        elif t == 'comp':
            walk(x[1])
            walk(x[2])
        elif t == 'all':
            walk(x[1])
    walk(c)
    return sorted(pts)


def core_empty(c, reps=None, limit=400):
    """is the language of `c` empty? (exploration of the derivative automaton over representative
    letters; None when the exploration exceeds `limit` states). Used only to keep the random family clear
    of constructs that have their own defect probes."""
    reps = core_reps(c) if reps is None else reps
    memo = {}
    seen = {c}
    todo = [c]
    while todo:
        x = todo.pop()
        if nullable(x):
            return False
        for a in reps:
            d = deriv(x, a, memo)
            if d != NONE and d not in seen:
                seen.add(d)
                if len(seen) > limit:
                    return None
                todo.append(d)
    return True


def only_eps_or_empty(p):
    """language of the prim tree is a subset of {eps} (True / False / None = unknown)."""
    c = lower(p)
    reps = core_reps(c)
    memo = {}
    for a in reps:
        d = deriv(c, a, memo)
        if d == NONE:
            continue
        e = core_empty(d, reps)
        if e is not True:
            return e
    return True


def _touches_defect(p):
    """prim tree contains a construct that has its own defect probe: a relabelled universe / complement
    (mark over any / neg), a complement of a language within {eps} (`neg-of-transitionless`), or a
    concatenation with a component whose language is exactly {eps} without being the literal empty
    concatenation (`concat-epsilon-component`). Semantic test (derivatives); unknown counts as touching."""
    t = p[0]
    if t == 'S':
        return False
    if t == 'A':
        return {c >> 8 for c in p[1]} != {0}
    if t == 'P':
        return _touches_defect(p[1])
    if t in 'UI':
        return any(_touches_defect(x) for x in p[1])
    if t == 'N':
        if {c >> 8 for c in p[2]} != {0}:
            return True
        if only_eps_or_empty(p[1]) is not False:
            return True
        return _touches_defect(p[1])
    if t == 'C':
        flat, todo = [], list(p[1])
        while todo:
            x = todo.pop(0)
            if x[0] == 'C':
                todo = list(x[1]) + todo
            else:
                flat.append(x)
        for x in flat:
            if _touches_defect(x):
                return True
            if nullable(lower(x)) and only_eps_or_empty(x) is not False:
                return True
        return False
    return False


def _no_letters(p):
    """language is {} or {eps} (its automaton has no transition)."""
    t = p[0]
    if t == 'S':
        return not p[1]
    if t == 'C':
        return any(_empty(x) for x in p[1]) or all(_no_letters(x) for x in p[1])
    if t == 'U':
        return all(_no_letters(x) for x in p[1])
    if t == 'I':
        return any(_no_letters(x) for x in p[1])
    if t == 'P':
        return _no_letters(p[1])
    if t == 'A':
        return not p[1]
    return False


def _empty(p):
    t = p[0]
    if t == 'S':
        return not p[1]
    if t == 'C':
        return any(_empty(x) for x in p[1])
    if t == 'U':
        return all(_empty(x) for x in p[1])
    if t == 'P':
        return _empty(p[1])
    return False


# ==================================================================================================
# engine C with the `ax` extractor (C19 in-circuit half): same pipeline as cengine.decide
# ==================================================================================================
from . import csmt, cengine                      # noqa: E402


def c_extract(family, op, params, ins, k, P=csmt.P_BLS):
    build()
    p = subprocess.run([AXBIN] + cengine.cx_args(family, op, params, ins, k), capture_output=True, text=True)
    if p.returncode != 0 or not p.stdout.strip():
        raise cengine.ExtractError(f"ax failed for {family}/{op} {cengine.pstr(params)} in={ins}: {p.stderr[-1200:]}")
    d = json.loads(p.stdout)
    # a gate row  c*x - c*y = 0  is an equality of two cells: treat it like a copy constraint (the row is
    # kept as well), so that range facts proven on one cell are static facts of the other
    for g in d["gates"]:
        poly = g["poly"]
        if len(poly) == 2 and all(len(cells) == 1 for _, cells in poly):
            (c1, (x,)), (c2, (y,)) = poly
            if (int(c1, 16) + int(c2, 16)) % P == 0 and x != y and x[0] in "ai" and y[0] in "ai":
                d["copies"].append([x, y])
    return csmt.System(d, P)


def c_replay(family, op, params, ins, k, overrides):
    path = _tmpjson(overrides)
    try:
        p = subprocess.run([AXBIN] + cengine.cx_args(family, op, params, ins, k) + [f"replay={path}"], capture_output=True, text=True)
        if p.returncode != 0:
            return None, p.stderr[-800:]
        return json.loads(p.stdout), ""
    finally:
        os.unlink(path)


RFC4648_VAL = ("(define-fun rfc_b64 ((c Int)) Int (ite (and (<= 65 c) (<= c 90)) (- c 65) (ite (and (<= 97 c) (<= c 122)) (- c 71) "
               "(ite (and (<= 48 c) (<= c 57)) (+ c 4) (ite (= c 43) 62 (ite (= c 47) 63 (- 1)))))))")


def b64_factor(rows):
    """rows of a 2-column table -> one-character function f with table = {(256a+b, 64f(a)+f(b))}, or None.
    Exact check on the dumped table."""
    pairs = {(r[0], r[1]) for r in rows}
    f = {}
    for ch, v in pairs:
        a, b = ch >> 8, ch & 255
        va, vb = v >> 6, v & 63
        if ch >= 65536 or v >= 4096 or f.setdefault(a, va) != va or f.setdefault(b, vb) != vb:
            return None
    if pairs != {(256 * a + b, 64 * f[a] + f[b]) for a in f for b in f}:
        return None
    return f


def table_fun_smt(name, f):
    chain = "(- 1)"
    for a in sorted(f, reverse=True):
        chain = f"(ite (= c {a}) {f[a]} {chain})"
    return f"(define-fun {name} ((c Int)) Int {chain})"


class B64Enc(csmt.Enc):
    """csmt.Enc whose two-column lookups into a table that factors as a product
        {(256 a + b, 64 f(a) + f(b)) : a, b in D}
    (the two-characters Base64 table) are encoded through the one-character function f extracted from
    the dumped table itself; the factorisation is checked exactly on the dump on every run, otherwise
    the generic relational encoding of csmt.Enc is used. When `alphabet_lemma` is set (the obligation
    `forall c in [0,255]: f(c) = RFC 4648 value of c, -1 when c is not in the alphabet` was decided HOLDS
    by the solver in this run, see C19_C.table_lemma) f is written as that RFC function, which is then the
    same term on the system side and on the specification side."""
    alphabet_lemma = False

    def table_pred(self, lk, table, rows, symidx, atoms):
        if len(symidx) != 2 or len(rows[0]) != 2:
            return super().table_pred(lk, table, rows, symidx, atoms)
        key = ("b64fac", lk["name"])
        if key not in self.monos:
            self.monos[key] = b64_factor(rows)
        f = self.monos[key]
        if f is None:
            return super().table_pred(lk, table, rows, symidx, atoms)
        key = ("b64f", lk["name"])
        name = self.monos.get(key)
        if name is None:
            if self.alphabet_lemma:
                name = "rfc_b64"
                self.lines.append(RFC4648_VAL)
            else:
                name = f"tf{len(self.monos)}"
                self.lines.append(table_fun_smt(name, f))
            self.monos[key] = name
        x0, x1 = atoms
        a = b = None
        for item in self.order:
            if item[0] == "mod" and item[1] == x0 and item[3] == 0 and sorted(c for c, _ in item[2]) == [1, 256]:
                d = {c: n for c, n in item[2]}
                if self.bound(d[256]) <= 256 and self.bound(d[1]) <= 256:
                    a, b = d[256], d[1]
        if a is None:
            a = self.fresh("ta", 0, 255)
            b = self.fresh("tb", 0, 255)
            self.lines.append(f"(assert (= {x0} (+ (* 256 {a}) {b})))")
        self.lines.append(f"(assert (and (>= ({name} {a}) 0) (>= ({name} {b}) 0) (= {x1} (+ (* 64 ({name} {a})) ({name} {b})))))")
        self.set_bound(x0, 65536)
        self.set_bound(x1, 4096)


class RowKeyEnc(csmt.Enc):
    """csmt.Enc.table_pred caches the predicate of a multi-column lookup under (lookup name, symbolic
    columns, NUMBER of table rows compatible with the constant columns). Two inputs of one lookup whose
    constant components select different row sets of the same size would share one predicate: in a chip
    with several automata the first row of every `parse` region has a constant source state (the
    automaton's initial state), and `parse(A)` / `parse(C)` both select exactly one row. Here the
    selected rows themselves are part of the key."""

    def table_pred(self, lk, table, rows, symidx, atoms):
        proj = sorted(set(tuple(r[i] for i in symidx) for r in rows))
        tag = fcore.stable_hash(json.dumps(proj))
        return super().table_pred(dict(lk, name=f"{lk['name']}#{tag}"), table, rows, symidx, atoms)


class PresetEnc(csmt.Enc):
    """csmt.Enc with static range facts fixed in advance (class -> exclusive upper bound). Every preset
    was proven by `discover_bounds` from a SUBSET of the system's own constraints, so asserting it does
    not strengthen the system; it lets the encoder treat products of small operands exactly."""
    preset = None

    def iszero_lemmas(self, polys):
        """csmt.Enc's syntactic is-zero lemma (added to csmt.Enc.encode after this engine was built) is not
        used with the presets: `discover_hints` already replaces the same gadget rows by the fact
        `v = ite(x = c, 1, 0)` it proved from them, and the lemma's extra residue definitions made the
        Base64 queries 300x slower (decode_base64 padded n=8: 0.2 s -> 60 s; every base64url obligation
        timed out at 120 s). Leaving out an implied fact cannot make a query unsat."""
        return

    def constraint(self, poly, monomial_mode=False):
        """a degree-2 row whose every product contains one and the same Boolean atom b (b < 2 is a static
        fact) is the disjunction of two LINEAR rows, b = 0 and b = 1: exact, and free of product terms."""
        P = self.P
        const, lin, quad, high = self.split_poly(poly)
        if quad and not high:
            cands = [x for x in {q[1] for q in quad} | {q[2] for q in quad} if not isinstance(x, int) and self.bound(x) <= 2
                     and all(x in (a, b) for _, a, b in quad)]
            if cands:
                b = sorted(cands)[0]
                lin0 = {n: c for n, c in lin.items() if n != b}
                lin1 = dict(lin0)
                const1 = (const + lin.get(b, 0)) % P
                for k, x, y in quad:
                    o = y if x == b else x
                    if o == b:
                        const1 = (const1 + k) % P
                    else:
                        lin1[o] = (lin1.get(o, 0) + k) % P
                f0 = self.modeq([(csmt.sym(c, P), n) for n, c in sorted(lin0.items()) if c % P], csmt.sym(const, P), as_bool=True)
                f1 = self.modeq([(csmt.sym(c, P), n) for n, c in sorted(lin1.items()) if c % P], csmt.sym(const1, P), as_bool=True)
                self.lines.append(f"(assert (ite (= {b} 0) {f0} {f1}))")
                return
        return super().constraint(poly, monomial_mode)

    def v(self, cell):
        r = self.s.cls(cell)
        known = r in self.vars
        n = super().v(cell)
        if not known and not isinstance(n, int) and self.preset and r in self.preset:
            B = self.preset[r]
            if B < self.ub.get(n, self.P):
                self.lines.append(f"(assert (< {n} {B}))")
                self.set_bound(n, B)
        return n


def _constraint_classes(system):
    """[(key, set of non-constant classes)] for every gate row and lookup row."""
    out = []
    for g in system.d["gates"]:
        cl = {system.cls(c) for _, cells in g["poly"] for c in cells}
        out.append((("gate", g["gate"], g["row"]), {c for c in cl if c not in system.const}))
    for lk in system.d["lookups"]:
        for inp in lk["inputs"]:
            cl = {system.cls(c) for p in inp["exprs"] for _, cells in p for c in cells}
            out.append((("lookup", lk["name"], inp["row"]), {c for c in cl if c not in system.const}))
    return out


def discover_bounds(system, enc_cls, candidates=(2, 256, 4096, 65536), timeout=20, rounds=4, log=None):
    """Static range facts by local lemmas: for a class v without a small static bound, the constraints
    that mention v or a class sharing a constraint with v (a subset of the system) are encoded alone and
    the solver is asked whether they force v < B. unsat => the bound is recorded and used (as an asserted
    fact and as a static bound) by later lemmas and by the main encoding. Sound: every lemma is a
    consequence of a subset of the system."""
    cons = _constraint_classes(system)
    allkeys = {k for k, _ in cons}
    preset = {}
    queries = 0
    for rnd in range(rounds):
        # static bounds the encoder derives by itself with the current presets
        class E(enc_cls, PresetEnc):
            pass
        E.preset = dict(preset)
        e0 = E(system)
        try:
            e0.encode(False)
        except NotImplementedError:
            pass
        have = {}
        for cls, name in e0.vars.items():
            have[cls] = e0.ub.get(name, system.P)
        todo = [c for c in sorted(system.used_classes()) if have.get(c, system.P) > max(candidates) and c not in system.const]
        progress = False
        for v in todo:
            near = set()
            for k, cl in cons:
                if v in cl:
                    near |= cl
            keep = {k for k, cl in cons if v in cl or (cl and cl <= near)}
            drop = allkeys - keep
            for B in candidates:
                E.preset = dict(preset)
                e = E(system, drop=drop)
                try:
                    e.encode(False)
                except NotImplementedError:
                    break
                if v not in e.vars:
                    break
                n = e.vars[v]
                r = solvers.solve(e.text([f"(assert (>= {n} {B}))"]), timeout=timeout)
                queries += 1
                if r.status == "unsat":
                    preset[v] = B
                    progress = True
                    break
                if r.status != "sat":
                    break
        if log:
            log(f"range discovery round {rnd}: {len(preset)} facts, {queries} local queries")
        if not progress:
            break
    return preset, queries


def discover_hints(system, enc_cls, preset, timeout=20):
    """Hint elimination by local lemmas. A gate row that contains a class p occurring nowhere else (a
    prover hint such as the inverse in an is-zero test), one Boolean class v (proven by discover_bounds)
    and one small class x: with K = the constraints over {p, v, x} only, ask the solver for the value c
    of x in a model of K with v = 1, then prove  K => (v = 1 <=> x = c).  When that is unsat the row is
    dropped from the main encoding and replaced by the lemma  v = ite(x = c, 1, 0).  Sound: the system
    implies the lemma, and dropping a row only weakens the system.
    -> (drop keys, lemma lines as functions of an encoder, repair list, number of queries)"""
    cons = _constraint_classes(system)
    count = {}
    for _, cl in cons:
        for c in cl:
            count[c] = count.get(c, 0) + 1
    io = {system.cls(c) for c in system.ins + system.outs}

    class E(enc_cls, PresetEnc):
        pass
    E.preset = dict(preset)
    drops, lemmas, repairs, queries = set(), [], [], 0
    allkeys = {k for k, _ in cons}
    gates = {("gate", g["gate"], g["row"]): g for g in system.d["gates"]}
    for key, cl in cons:
        if key[0] != "gate":
            continue
        priv = [c for c in cl if count[c] == 1 and c not in io and c not in preset and c not in system.const]
        if len(priv) != 1:
            continue
        p = priv[0]
        others = [c for c in cl if c != p and c not in system.const]
        bools = [c for c in others if preset.get(c) == 2]
        if len(bools) != 1 or len(others) != 2:
            continue
        v = bools[0]
        x = [c for c in others if c != v][0]
        keep = {k for k, c2 in cons if c2 and c2 <= cl}
        e = E(system, drop=allkeys - keep)
        try:
            e.encode(False)
        except NotImplementedError:
            continue
        if v not in e.vars or x not in e.vars:
            continue
        nv, nx = e.vars[v], e.vars[x]
        if e.ub.get(nx, system.P) > 65536:
            continue
        r = solvers.solve(e.text([f"(assert (= {nv} 1))"]), timeout=timeout, get_values=[nx])
        queries += 1
        if r.status != "sat" or nx not in r.model:
            continue
        c0 = r.model[nx]
        r = solvers.solve(e.text([f"(assert (not (= {nv} (ite (= {nx} {c0}) 1 0))))"]), timeout=timeout)
        queries += 1
        if r.status != "unsat":
            continue
        drops.add(key)
        lemmas.append((v, x, c0))
        repairs.append((gates[key], p))
    return drops, lemmas, repairs, queries


def repair_hints(system, repairs, cls_assign):
    """values of the eliminated hint classes that make their (dropped) rows hold: each row is affine in
    its hint."""
    P = system.P
    for g, p in repairs:
        a0 = dict(cls_assign)
        a0[p] = 0
        B = system.eval_poly(g["poly"], a0)
        a0[p] = 1
        A1 = (system.eval_poly(g["poly"], a0) - B) % P
        if A1 == 0:
            cls_assign[p] = 0
        else:
            cls_assign[p] = (-B * pow(A1, P - 2, P)) % P
    return cls_assign


def c_decide(run, ob, family, op, params, ins, spec, k=10, timeout=60, enc_cls=csmt.Enc, P=csmt.P_BLS, twin=True, discover=False, label=None):
    """`forall assignment. Sys => Spec` for one circuit extracted by `ax` (mirrors cengine.decide).
    spec(e, I, O, system) -> SMT Bool. discover: static range facts and hint elimination by local
    solver lemmas first (discover_bounds / discover_hints)."""
    try:
        system = c_extract(family, op, params, ins, k, P)
    except cengine.ExtractError as ex:
        return ob.set(INCONCLUSIVE, f"extraction failed: {ex}")
    d = system.d
    try:
        honest = system.honest_assign()
    except AssertionError as ex:
        return ob.set(INCONCLUSIVE, f"honest run inconsistent: {ex}")
    bad = system.check_exact(honest)
    if d["honest_verify"] and bad:
        return ob.set(INCONCLUSIVE, f"extractor/encoder disagree with MockProver on the honest run: {bad[:3]}")
    cx = cengine.cx_args(family, op, params, ins, k)
    if not d["honest_verify"]:
        ob.key = ob.key + ":honest-rejected"
        path = run.write_replay(ob, dict(kind="c19-honest-rejected", ax=cx))
        return ob.set(VIOLATION, f"real MockProver rejects the honest witness of {op} {label or cengine.pstr(params)} on admissible inputs {ins}", replay=path)
    repairs = []
    if discover:
        preset, nq = discover_bounds(system, enc_cls)
        drops, lemmas, repairs, nq2 = discover_hints(system, enc_cls, preset)
        ob.queries += nq + nq2

        class E(enc_cls, PresetEnc):
            pass
        E.preset = preset
        for c, B in preset.items():
            if c in honest and honest[c] >= B:
                return ob.set(INCONCLUSIVE, f"discovered bound {B} on {c} contradicts the honest assignment")
        e = E(system, drop=drops)
    else:
        lemmas = []
        e = enc_cls(system)
    try:
        e.encode(False)
        for v, x, c0 in lemmas:
            if v in e.vars and x in e.vars:
                if (honest.get(v) == 1) != (honest.get(x) == c0):
                    return ob.set(INCONCLUSIVE, f"hint lemma {v} = [{x} = {c0}] contradicts the honest assignment")
                e.lines.append(f"(assert (= {e.vars[v]} (ite (= {e.vars[x]} {c0}) 1 0)))")
        Iat = [e.v(c) for c in system.ins]
        Oat = [e.v(c) for c in system.outs]
        spec_smt = spec(e, Iat, Oat, system)
        e.assoc_lemmas()
    except NotImplementedError as ex:
        return ob.set(INCONCLUSIVE, f"untranslatable: {ex}")
    names = sorted(set(e.vars.values()))
    # every product has a Boolean operand (written as an ite): the query is linear integer arithmetic, and
    # both solvers are far quicker when told so
    linear = all(min(e.bound(a_), e.bound(b_)) <= 2 for _, a_, b_ in e.prod_list)
    text = (lambda extra_: e.text(extra_).replace("(set-logic ALL)", "(set-logic QF_LIA)", 1)) if linear else e.text
    pins = [f"(assert (= {n} {honest[c]}))" for c, n in e.vars.items() if c in honest]
    r = solvers.solve(text(pins + ([f"(assert {spec_smt})"] if twin else [])), timeout=timeout)
    ob.queries += 1
    ob.solver_s += r.time_s
    if r.status != "sat":
        return ob.set(INCONCLUSIVE, f"vacuity twin (honest assignment satisfies encoding and spec) came back {r.status}: {r.raw[:200]}")
    ob.vacuity = True
    extra = [f"(assert (not {spec_smt}))"]
    for rnd in range(6):
        atoms = names + [it[1] for it in e.order]
        r = solvers.solve(text(extra), timeout=timeout, get_values=atoms)
        ob.queries += 1
        ob.solver_s += r.time_s
        if r.status == "unsat":
            return ob.set(HOLDS, solver=r.solver)
        if r.status != "sat":
            return ob.set(INCONCLUSIVE, f"solver: {r.status} {r.raw[:200]} {r.per_solver}")
        model = r.model
        assign = {n: model.get(n, 0) % P for n in names}
        cls_assign = {c: assign[n] for c, n in e.vars.items()}
        for c in system.used_classes():
            cls_assign.setdefault(c, honest.get(c, 0))
        repair_hints(system, repairs, cls_assign)
        exact = e.exact_atoms(assign)
        bad = system.check_exact(cls_assign)
        wrong = [it for it in e.order if it[0] == "mul" and model.get(it[1]) is not None and model[it[1]] != exact[it[1]]]
        if not bad:
            pins = [f"(assert (= {n} {v}))" for n, v in exact.items()]
            r2 = solvers.solve(text(pins + extra), timeout=timeout)
            ob.queries += 1
            if r2.status == "sat":
                # every advice / instance cell of a class used by the system gets the model's (or repaired) value
                ov = {}
                for cell in set(system.honest) | set(system.uf.p):
                    if cell[0] in "ai":
                        c = system.cls(cell)
                        if c in cls_assign and c not in system.const:
                            ov[cell] = hex(cls_assign[c] % P)
                res, err = c_replay(family, op, params, ins, k, ov)
                iv = {c: cls_assign.get(system.cls(c), system.const.get(system.cls(c), 0)) for c in system.ins + system.outs}
                ivs = f"in={[iv[c] for c in system.ins]} out={[iv[c] for c in system.outs]}"
                if res and res.get("accepted"):
                    path = run.write_replay(ob, dict(kind="c19-forged-assignment", ax=cx, overrides=ov, instance={c: hex(v) for c, v in iv.items()},
                                                     note="real MockProver::verify() accepts this assignment although the (inputs, outputs) on the instance column violate the specification"))
                    return ob.set(VIOLATION, f"{op} {label or cengine.pstr(params)}: the real MockProver accepts {ivs}, which violates the specification", solver=r.solver, replay=path)
                return ob.set(INCONCLUSIVE, f"exact counterexample did not replay on MockProver: {res} {err}")
            if r2.status != "unsat":
                return ob.set(INCONCLUSIVE, f"ground re-check: {r2.status}")
        if not wrong and bad:
            return ob.set(INCONCLUSIVE, f"model violates real constraints {bad[:2]} but no abstract product is wrong (encoder bug?)")
        for _, t, a, b in wrong[:40]:
            va, vb = exact[a] if not isinstance(a, int) else a, exact[b] if not isinstance(b, int) else b
            q1 = e.fresh("q", 0, P)
            e.lines.append(f"(assert (=> (= {a} {va}) (= {t} (- (* {va} {b}) (* {P} {q1})))))")
            if a != b:
                q2 = e.fresh("q", 0, P)
                e.lines.append(f"(assert (=> (= {b} {vb}) (= {t} (- (* {vb} {a}) (* {P} {q2})))))")
    return ob.set(INCONCLUSIVE, "refinement rounds exhausted")


def c_replay_payload(payload):
    """replay of a C19 engine-C counterexample on the real MockProver (hook H2)."""
    build()
    if payload["kind"] == "c19-honest-rejected":
        p = subprocess.run([AXBIN] + payload["ax"], capture_output=True, text=True)
        out = json.loads(p.stdout) if p.returncode == 0 and p.stdout.strip() else {"error": p.stderr[-500:]}
        print("honest_verify:", out.get("honest_verify"), out.get("error", ""))
        return 1 if out.get("honest_verify") is False else 0
    path = _tmpjson(payload["overrides"])
    try:
        p = subprocess.run([AXBIN] + payload["ax"] + [f"replay={path}"], capture_output=True, text=True)
        out = json.loads(p.stdout) if p.returncode == 0 and p.stdout.strip() else {"error": p.stderr[-500:]}
        print("real MockProver verdict on the forged assignment:", out, "instance:", payload.get("instance"))
        return 1 if out.get("accepted") else 0
    finally:
        os.unlink(path)


# ==================================================================================================
# systematic product family: every combinator x every leaf in every operand position
# ==================================================================================================

def rich_leaves():
    """name -> R. Besides byte classes: short words, ITERATED multi-byte words (their compiled initial
    state lies on a cycle of length >= 2 without a self-loop), marked variants, and words sharing
    prefixes / suffixes with one another (so that a context built from two leaves overlaps)."""
    a, b_, c_ = _b('a'), _b('b'), _b('c')
    ab, abc, ba = _w("ab"), _w("abc"), _w("ba")
    mk = lambda x, by, m: _u("mark_bytes", x, set=[ord(by)], m=m)
    L = {
        "a": a, "[ab]": _b('a', 'b'), "[^a]": {"op": "byte_not_from", "set": [97]}, "eps": {"op": "epsilon"},
        "ab": ab, "abc": abc, "ba": ba, "aba": _w("aba"),
        "a*": _u("list", a), "[ab]*": _u("list", _b('a', 'b')),
        "(ab)*": _u("list", ab), "(ab)+": _u("non_empty_list", ab), "(ab)?": _u("optional", ab),
        "(abc)*": _u("list", abc), "(ba)*": _u("list", ba),
        "(ab)*c": _n("cat", [_u("list", ab), c_]), "a(ba)*": _n("cat", [a, _u("list", ba)]),
        "(ab|a)*": _u("list", _bin("or", ab, a)),
        "(a[b:2])*": _u("list", _n("cat", [a, mk(b_, 'b', 2)])),
        "([a:1]b)+": _u("non_empty_list", _n("cat", [mk(a, 'a', 1), b_])),
        "(ab)*[c:1]": _n("cat", [_u("list", ab), mk(c_, 'c', 1)]),
    }
    return L


REDUCED = ["a", "ab", "a*", "(ab)*", "(ab)+", "(ab)?", "(abc)*", "(ba)*", "(ab)*c", "(a[b:2])*", "(ab)*[c:1]"]
TRIPLE = ["a", "ab", "a*", "(ab)*", "(ab)?", "(ab)*c"]
UNARY_OPS = ["neg", "list", "non_empty_list", "optional", "spaced_list", "spaced_non_empty_list"]
UNARY_N_OPS = ["repeat", "repeat_at_most", "spaced_repeat", "spaced_repeat_at_most"]
BINARY_OPS = ["or", "and", "minus", "terminated", "spaced_terminated"]
SEP_OPS = ["separated_list", "separated_non_empty_list", "spaced_separated_list", "spaced_separated_non_empty_list"]
SEP_N_OPS = ["separated_repeat", "separated_repeat_at_most", "spaced_separated_repeat", "spaced_separated_repeat_at_most"]


def product_candidates(tier):
    """(id, key, R) before deduplication."""
    L = rich_leaves()
    full = list(L)
    red = REDUCED if tier == "quick" else REDUCED + ["[ab]*", "a(ba)*", "(ab|a)*", "([a:1]b)+"]
    tri = TRIPLE if tier == "quick" else REDUCED[:8]
    out = []
    # list(eps) shares its role key with the probes of the same root cause (DEFECT_PROBES)
    add = lambda op, names, r: out.append((f"prod/{op}({','.join(names)})", "regex:list-of-epsilon-automaton" if (op, names) == ("list", ["eps"]) else f"regex:{op}", r))
    for x in full:
        for op in UNARY_OPS:
            add(op, [x], _u(op, L[x]))
        for op in UNARY_N_OPS:
            for n in ((2,) if tier == "quick" else (2, 3)):
                add(f"{op}{n}", [x], _u(op, L[x], n=n))
        add("mark_bytes", [x], _u("mark_bytes", L[x], set=[98], m=3))
        add("replace_markers", [x], _u("replace_markers", L[x], map=[[0, 1], [2, 0]]))
    # quick tier: the blank-inserting and the bounded-repetition variants of the binary combinators run on
    # the ordered pairs of the smaller leaf set; their plain counterparts on all ordered pairs of `red`
    small = set(TRIPLE) if tier == "quick" else set(red)
    for x in red:
        for y in red:
            both_small = x in small and y in small
            for op in BINARY_OPS:
                if op.startswith("spaced") and not both_small:
                    continue
                add(op, [x, y], _bin(op, L[x], L[y]))
            for op in SEP_OPS:
                if op.startswith("spaced") and not both_small:
                    continue
                add(op, [x, y], _u(op, L[x], sep=L[y]))
            if both_small:
                for op in SEP_N_OPS:
                    add(f"{op}2", [x, y], _u(op, L[x], n=2, sep=L[y]))
                add("spaced_delimited", [x, y], {"op": "spaced_delimited", "x": L[x], "open": L[y], "close": L[y]})
            add("delimited", [x, y], {"op": "delimited", "x": L[x], "open": L[y], "close": L[y]})
    for x in tri:
        for y in tri:
            for z in tri:
                add("cat", [x, y, z], _n("cat", [L[x], L[y], L[z]]))
                add("union", [x, y, z], _n("union", [L[x], L[y], L[z]]))
    for x in tri:
        for y in tri:
            add("spaced_cat", [x, y], _n("spaced_cat", [L[x], L[y]]))
            for z in ("a", "(ab)*"):
                add("separated_cat", [x, y, "sep=" + z], _n("separated_cat", [L[x], L[y]], sep=L[z]))
                add("spaced_separated_cat", [x, y, "sep=" + z], _n("spaced_separated_cat", [L[x], L[y]], sep=L[z]))
    return out


def canon_core(c):
    """semantics-preserving normal form used ONLY as a deduplication key: nested cat / alt / and
    flattened, eps dropped from cat, alt / and operands sorted and deduplicated."""
    t = c[0]
    if t in ('set', 'eps'):
        return c
    if t == 'plus':
        return ('plus', canon_core(c[1]))
    if t == 'all':
        return c
    if t == 'comp':
        return ('comp', canon_core(c[1]), c[2])
    xs = []
    for x in c[1]:
        x = canon_core(x)
        if x[0] == t:
            xs.extend(x[1])
        else:
            xs.append(x)
    if t == 'cat':
        xs = [x for x in xs if x != ('eps',)]
        if not xs:
            return ('eps',)
        return xs[0] if len(xs) == 1 else ('cat', tuple(xs))
    xs = sorted(set(xs), key=repr)
    return xs[0] if len(xs) == 1 else (t, tuple(xs))


def canon_automaton(d):
    """dump renumbered by breadth-first traversal from the initial state (unreachable states dropped)."""
    tr = {}
    for s, b, t, m in d["transitions"]:
        tr.setdefault(s, []).append((b, t, m))
    num = {d["initial_state"]: 0}
    order = [d["initial_state"]]
    i = 0
    while i < len(order):
        s = order[i]
        i += 1
        for b, t, m in sorted(tr.get(s, [])):
            if t not in num:
                num[t] = len(num)
                order.append(t)
    rows = tuple(sorted((num[s], b, num[t], m) for s in order for b, t, m in tr.get(s, [])))
    fin = tuple(sorted(num[f] for f in d["final_states"] if f in num))
    return (rows, fin)


def product_family(tier, compile_timeout=20):
    """candidates -> compiled -> deduplicated. Two candidates whose reference language has the same
    normal form AND whose compiled automata are equal up to state renaming pose literally the same
    question; only the first is kept (its id lists how many it stands for).
    -> (members [(id, key, R)], comps {id: result}, stats)"""
    cands = []
    outside = 0
    for i, k, r in product_candidates(tier) + (depth2_candidates() if tier != "quick" else []):
        try:
            c = canon_core(core_of(r))
        except Outside:
            outside += 1
            continue
        cands.append((i, k, r, c))
    comps = ax_compile([(i, r) for i, k, r, c in cands], timeout=compile_timeout, workers=8)
    seen = {}
    members = []
    for i, k, r, c in cands:
        comp = comps[i]
        if comp.get("ok"):
            key = (c, canon_automaton(comp["automaton"]))
        else:
            key = (c, (comp.get("panic") or comp.get("error") or "timeout")[:60])
        if key in seen:
            seen[key].append(i)
            continue
        seen[key] = [i]
        members.append((i, k, r))
    stats = dict(candidates=len(cands) + outside, outside=outside, distinct=len(members))
    return members, {i: comps[i] for i, _, _ in members}, stats


def depth2_candidates():
    """thorough tier: op1(op2(W), X) and op1(X, op2(W)) for every pair of combinators, W an iterated
    multi-byte word, X a small context leaf."""
    L = rich_leaves()
    Ws = ["(ab)*", "(ab)+", "(ab)*c", "(a[b:2])*"]
    Xs = ["a", "ab", "(ab)*"]
    inner = [(op, lambda w, op=op: _u(op, w)) for op in UNARY_OPS if op != "neg"] + \
            [(f"{op}2", lambda w, op=op: _u(op, w, n=2)) for op in UNARY_N_OPS] + \
            [("sep_list_a", lambda w: _u("separated_list", w, sep=_b('a'))), ("as_sep", lambda w: _u("separated_list", _b('a'), sep=w))]
    out = []
    for wn in Ws:
        for iname, f in inner:
            g = f(L[wn])
            gname = f"{iname}({wn})"
            for op in UNARY_OPS:
                out.append((f"d2/{op}({gname})", f"regex:{op}", _u(op, g)))
            for op in UNARY_N_OPS:
                out.append((f"d2/{op}2({gname})", f"regex:{op}", _u(op, g, n=2)))
            for xn in Xs:
                x = L[xn]
                for op in BINARY_OPS:
                    out.append((f"d2/{op}({gname},{xn})", f"regex:{op}", _bin(op, g, x)))
                    out.append((f"d2/{op}({xn},{gname})", f"regex:{op}", _bin(op, x, g)))
                for op in SEP_OPS:
                    out.append((f"d2/{op}({gname},{xn})", f"regex:{op}", _u(op, g, sep=x)))
                    out.append((f"d2/{op}({xn},{gname})", f"regex:{op}", _u(op, x, sep=g)))
                for op in SEP_N_OPS:
                    out.append((f"d2/{op}2({gname},{xn})", f"regex:{op}", _u(op, g, n=2, sep=x)))
                    out.append((f"d2/{op}2({xn},{gname})", f"regex:{op}", _u(op, x, n=2, sep=g)))
                out.append((f"d2/delimited({gname},{xn})", "regex:delimited", {"op": "delimited", "x": g, "open": x, "close": x}))
                out.append((f"d2/delimited({xn},{gname})", "regex:delimited", {"op": "delimited", "x": x, "open": g, "close": g}))
    return out
