"""Engine A (auto-smt, DESIGN 2.A) and the C19-specific pieces of engine C.

Part A.  A mirror AST `R` (JSON, one node per public `RegexInstructions` combinator) has two
interpretations:
  (i)  engines/auto (Rust, `ax`): build the REAL `Regex` through the real combinators, call the real
       `to_automaton()`, dump the public fields of the resulting `Automaton`;
  (ii) here: a reference semantics written from the trait documentation (never from the library's
       bodies): R -> `prim` (markers pushed to the leaves) -> `core` (plain regular expression over the
       alphabet of code points `byte + 256*marker`) -> SMT-LIB `RegLan` text.
The obligation for (regex, n): a symbolic word of n code points, the dumped transition map unrolled as
a total function (missing key => dead state), `accepts_with_these_markers(w) != (w in RegLan)`.

A small Brzozowski-derivative matcher over `core` validates the RegLan emitter on ground words
(translator validation), and is used for nothing else.
"""
import json, os, subprocess, time, threading, random, tempfile, itertools
from . import core as fcore, solvers
from .core import HOLDS, VIOLATION, INCONCLUSIVE

MAXM = 64


class Outside(Exception):
    """The expression is outside the claim (both-marked intersection, markers under a complement...)."""


# ==================================================================================================
# R -> prim : one node per primitive construct, markers at the leaves
# ==================================================================================================
# prim nodes (tuples):
#   ('S', frozenset of code points)           one letter out of a set
#   ('C', (x,..))  concatenation   ('U', (x,..)) union   ('I', (x,..)) intersection (unifying rule)
#   ('P', x)       one or more iterations
#   ('N', x, univ) complement of x relative to univ* ; univ = frozenset of code points
#   ('A', univ)    every word over univ
# Intersections are resolved when they are built: the library's rule ("a letter marked 0 unifies with
# the same byte carrying any marker") is, when at most one operand carries markers, the plain
# intersection after lifting the unmarked operands over the markers of the marked one (`plift`).
# Two marked operands: outside the claim (DESIGN 2.A).
ZERO_UNIV = frozenset(range(256))
EPS = ('C', ())
BLANK_BYTES = (0x20, 0x09, 0x0A)        # "space, newline, or tab"


def S(bytes_):
    return ('S', frozenset(int(b) for b in bytes_))


def cat(*xs):
    return ('C', tuple(xs))


def alt(*xs):
    return ('U', tuple(xs))


def star(x):
    return alt(EPS, ('P', x))


def power(x, n):
    return cat(*([x] * n))


def sepcat(xs, sep):
    out = []
    for i, x in enumerate(xs):
        if i:
            out.append(sep)
        out.append(x)
    return cat(*out)


ONE_BLANK = S(BLANK_BYTES)
BLANKS = star(ONE_BLANK)


def rng(a, b):
    return S(range(a, b + 1))


def utf8_cps_ref():
    """Well-formed UTF-8 byte sequences of ONE code point: Unicode standard, table 3-7."""
    tail = rng(0x80, 0xBF)
    return alt(
        rng(0x00, 0x7F),
        cat(rng(0xC2, 0xDF), tail),
        cat(S([0xE0]), rng(0xA0, 0xBF), tail),
        cat(rng(0xE1, 0xEC), tail, tail),
        cat(S([0xED]), rng(0x80, 0x9F), tail),
        cat(rng(0xEE, 0xEF), tail, tail),
        cat(S([0xF0]), rng(0x90, 0xBF), tail, tail),
        cat(rng(0xF1, 0xF3), tail, tail, tail),
        cat(S([0xF4]), rng(0x80, 0x8F), tail, tail),
    )


def json_string_ref(ascii_only=False):
    """RFC 8259 section 7: quotation-mark *char quotation-mark,
    char = unescaped / escape ( " \\ / b f n r t / uXXXX ), unescaped = %x20-21 / %x23-5B / %x5D-10FFFF
    (UTF-8 encoded). The quoted content is marked 1 (documentation of `json_string`).
    ascii_only: variant used to look past finding `json_string` (non-ASCII content), see C19_A."""
    tail = rng(0x80, 0xBF)
    unescaped_1 = S([b for b in range(0x20, 0x80) if b not in (0x22, 0x5C)])
    multi = [
        cat(rng(0xC2, 0xDF), tail),
        cat(S([0xE0]), rng(0xA0, 0xBF), tail),
        cat(rng(0xE1, 0xEC), tail, tail),
        cat(S([0xED]), rng(0x80, 0x9F), tail),
        cat(rng(0xEE, 0xEF), tail, tail),
        cat(S([0xF0]), rng(0x90, 0xBF), tail, tail),
        cat(rng(0xF1, 0xF3), tail, tail, tail),
        cat(S([0xF4]), rng(0x80, 0x8F), tail, tail),
    ]
    hexd = S(list(range(0x30, 0x3A)) + list(range(0x41, 0x47)) + list(range(0x61, 0x67)))
    esc = cat(S([0x5C]), S(b'"\\/bfnrt'))
    uesc = cat(S([0x5C]), S(b'u'), hexd, hexd, hexd, hexd)
    content = star(alt(unescaped_1, esc, uesc, *([] if ascii_only else multi)))
    content = pmap(content, lambda b, m: 1)
    q = S([0x22])
    return cat(q, content, q)


def pmarkers(p):
    """set of markers occurring in a prim tree (incl. 0)."""
    t = p[0]
    if t == 'S':
        return {c >> 8 for c in p[1]}
    if t in 'CUI':
        out = set()
        for x in p[1]:
            out |= pmarkers(x)
        return out
    if t == 'P':
        return pmarkers(p[1])
    if t == 'N':
        return pmarkers(p[1]) | {c >> 8 for c in p[2]}
    if t == 'A':
        return {c >> 8 for c in p[1]}
    raise ValueError(t)


def plift(p, M):
    """unmarked prim -> the same byte language with every letter (b,0) replaced by {(b,m): m in M}."""
    t = p[0]
    lift = lambda cps: frozenset((c & 255) + 256 * m for c in cps for m in M)
    if t == 'S':
        return ('S', lift(p[1]))
    if t in 'CUI':
        return (t, tuple(plift(x, M) for x in p[1]))
    if t == 'P':
        return ('P', plift(p[1], M))
    if t == 'N':
        return ('N', plift(p[1], M), lift(p[2]))
    if t == 'A':
        return ('A', lift(p[1]))
    raise ValueError(t)


def pinter(xs):
    """intersection with the library's documented unification rule, at most one marked operand."""
    if not xs:
        return ('A', ZERO_UNIV)
    marked = [x for x in xs if pmarkers(x) - {0}]
    if len(marked) >= 2:
        raise Outside("intersection with two marked operands (unification rule: outside the claim)")
    if not marked:
        return ('I', tuple(xs))
    M = pmarkers(marked[0]) | {0}
    return ('I', tuple(x if x is marked[0] else plift(x, M) for x in xs))


def pmap(p, f):
    """image of the language under the letter relabelling (b,m) -> (b,f(b,m)); pushed to the leaves.
    Exact for S, C, U, P (homomorphic image). N / A: the universe is relabelled as well; exact because
    the complemented operand is byte-determined (unmarked, possibly lifted). I: exact because all
    operands but one are byte-determined (see `pinter`)."""
    t = p[0]
    if t == 'S':
        return ('S', frozenset((c & 255) + 256 * f(c & 255, c >> 8) for c in p[1]))
    if t in 'CUI':
        return (t, tuple(pmap(x, f) for x in p[1]))
    if t == 'P':
        return ('P', pmap(p[1], f))
    if t == 'N':
        return ('N', pmap(p[1], f), frozenset((c & 255) + 256 * f(c & 255, c >> 8) for c in p[2]))
    if t == 'A':
        return ('A', frozenset((c & 255) + 256 * f(c & 255, c >> 8) for c in p[1]))
    raise ValueError(t)


def prim(j, variant=None):
    """R (JSON) -> prim, from the documentation of each combinator."""
    variant = variant or {}
    op = j['op']
    P = lambda k: prim(j[k], variant)
    XS = lambda: [prim(x, variant) for x in j['xs']]
    if op == 'byte_from':
        return S(j['set'])
    if op == 'byte_not_from':
        ex = set(j['set'])
        return S(b for b in range(256) if b not in ex)
    if op == 'any_byte':
        return S(range(256))
    if op == 'any':
        return ('A', ZERO_UNIV)
    if op == 'epsilon':
        return EPS
    if op == 'word':
        return cat(*[S([b]) for b in j['s']])
    if op == 'digit':
        return rng(0x30, 0x39)
    if op == 'lowercase_letter':
        return rng(0x61, 0x7A)
    if op == 'uppercase_letter':
        return rng(0x41, 0x5A)
    if op == 'letter':
        return S(list(range(0x61, 0x7B)) + list(range(0x41, 0x5B)))
    if op == 'alphanumeric':
        return S(list(range(0x61, 0x7B)) + list(range(0x41, 0x5B)) + list(range(0x30, 0x3A)))
    if op == 'one_blank':
        return ONE_BLANK
    if op == 'blanks':
        return BLANKS
    if op == 'blanks_strict':
        return ('P', ONE_BLANK)
    if op == 'utf8_cps':
        return utf8_cps_ref()
    if op == 'utf8':
        return star(utf8_cps_ref())
    if op == 'json_string':
        return json_string_ref(ascii_only=bool(variant.get('json_ascii')))
    if op == 'neg':
        x = P('x')
        if pmarkers(x) - {0}:
            raise Outside("neg applied to an expression with markers (the library panics)")
        return ('N', x, ZERO_UNIV)
    if op == 'union':
        return alt(*XS())
    if op == 'inter':
        return pinter(XS())
    if op == 'cat':
        return cat(*XS())
    if op == 'or':
        return alt(P('x'), P('y'))
    if op == 'and':
        return pinter([P('x'), P('y')])
    if op == 'minus':
        y = P('y')
        if pmarkers(y) - {0}:
            raise Outside("minus: subtracted expression carries markers (the library panics)")
        return pinter([P('x'), ('N', y, ZERO_UNIV)])
    if op == 'terminated':
        return cat(P('x'), P('y'))
    if op == 'spaced_terminated':
        return cat(P('x'), BLANKS, P('y'))
    if op == 'optional':
        return alt(P('x'), EPS)
    if op == 'list':
        return star(P('x'))
    if op == 'non_empty_list':
        return ('P', P('x'))
    if op == 'spaced_non_empty_list':
        x = P('x')
        return cat(x, star(cat(BLANKS, x)))
    if op == 'spaced_list':
        x = P('x')
        return alt(EPS, cat(x, star(cat(BLANKS, x))))
    if op == 'separated_non_empty_list':
        x, s = P('x'), P('sep')
        return cat(x, star(cat(s, x)))
    if op == 'separated_list':
        x, s = P('x'), P('sep')
        return alt(EPS, cat(x, star(cat(s, x))))
    if op == 'spaced_separated_non_empty_list':
        x, s = P('x'), P('sep')
        return cat(x, star(cat(BLANKS, s, BLANKS, x)))
    if op == 'spaced_separated_list':
        x, s = P('x'), P('sep')
        return alt(EPS, cat(x, star(cat(BLANKS, s, BLANKS, x))))
    if op == 'repeat':
        return power(P('x'), j['n'])
    if op == 'spaced_repeat':
        return sepcat([P('x')] * j['n'], BLANKS)
    if op == 'repeat_at_most':
        x = P('x')
        return alt(*[power(x, i) for i in range(j['n'] + 1)])
    if op == 'spaced_repeat_at_most':
        x = P('x')
        return alt(*[sepcat([x] * i, BLANKS) for i in range(j['n'] + 1)])
    if op == 'separated_repeat':
        return sepcat([P('x')] * j['n'], P('sep'))
    if op == 'spaced_separated_repeat':
        return sepcat([P('x')] * j['n'], cat(BLANKS, P('sep'), BLANKS))
    if op == 'separated_repeat_at_most':
        x, s = P('x'), P('sep')
        return alt(*[sepcat([x] * i, s) for i in range(j['n'] + 1)])
    if op == 'spaced_separated_repeat_at_most':
        x, s = P('x'), cat(BLANKS, P('sep'), BLANKS)
        return alt(*[sepcat([x] * i, s) for i in range(j['n'] + 1)])
    if op == 'spaced_cat':
        return sepcat(XS(), BLANKS)
    if op == 'separated_cat':
        return sepcat(XS(), P('sep'))
    if op == 'spaced_separated_cat':
        return sepcat(XS(), cat(BLANKS, P('sep'), BLANKS))
    if op == 'delimited':
        return cat(P('open'), P('x'), P('close'))
    if op == 'spaced_delimited':
        return cat(P('open'), BLANKS, P('x'), BLANKS, P('close'))
    if op == 'mark':
        t = j['table']
        return pmap(P('x'), lambda b, m: m if t[b] is None else t[b])
    if op == 'mark_bytes':
        bs, mk = set(j['set']), j['m']
        return pmap(P('x'), lambda b, m: mk if b in bs else m)
    if op == 'replace_markers':
        mp = {a: b for a, b in j['map']}
        return pmap(P('x'), lambda b, m: mp.get(m, m))
    raise ValueError(f"unknown R node {op}")


# ==================================================================================================
# prim -> core : plain regular expressions over code points (hash-consed tuples)
# ==================================================================================================
# core nodes: ('set', ((lo,hi),..)) | ('eps',) | ('cat', xs) | ('alt', xs) | ('and', xs) | ('plus', x)
#             | ('comp', x, univ_set_node)      language  univ* \ L(x)
#             | ('all', univ_set_node)          language  univ*

def mkset(cps):
    cps = sorted(set(cps))
    rs = []
    for c in cps:
        if rs and rs[-1][1] == c - 1:
            rs[-1][1] = c
        else:
            rs.append([c, c])
    return ('set', tuple((a, b) for a, b in rs))


def set_members(node):
    for a, b in node[1]:
        yield from range(a, b + 1)


def lower(p):
    """prim -> core."""
    t = p[0]
    if t == 'S':
        return mkset(p[1])
    if t == 'C':
        xs = [lower(x) for x in p[1]]
        return ('cat', tuple(xs)) if xs else ('eps',)
    if t == 'U':
        return ('alt', tuple(lower(x) for x in p[1]))
    if t == 'I':
        return ('and', tuple(lower(x) for x in p[1]))
    if t == 'P':
        return ('plus', lower(p[1]))
    if t == 'A':
        return ('all', mkset(p[1]))
    if t == 'N':
        return ('comp', lower(p[1]), mkset(p[2]))
    raise ValueError(t)


def core_of(j, variant=None):
    return lower(prim(j, variant))


def core_markers(c, acc=None):
    acc = set() if acc is None else acc
    t = c[0]
    if t == 'set':
        for a, b in c[1]:
            acc.add(a >> 8)
            acc.add(b >> 8)
            if (b >> 8) - (a >> 8) > 1:
                acc.update(range(a >> 8, (b >> 8) + 1))
    elif t in ('cat', 'alt', 'and'):
        for x in c[1]:
            core_markers(x, acc)
    elif t == 'plus':
        core_markers(c[1], acc)
    elif t == 'comp':
        core_markers(c[1], acc)
        core_markers(c[2], acc)
    elif t == 'all':
        core_markers(c[1], acc)
    return acc


# ==================================================================================================
# core -> SMT-LIB RegLan
# ==================================================================================================

def smt_char(c):
    return '"\\u{%x}"' % c


class RegLanEmitter:
    """Emits one `define-fun` per distinct compound core node (sharing keeps repeat_at_most etc. small)."""

    def __init__(self, prefix="re"):
        self.defs = []
        self.names = {}
        self.prefix = prefix

    def setterm(self, node):
        rs = node[1]
        if not rs:
            return "re.none"
        parts = [f"(re.range {smt_char(a)} {smt_char(b)})" if a != b else f"(str.to_re {smt_char(a)})" for a, b in rs]
        return parts[0] if len(parts) == 1 else "(re.union " + " ".join(parts) + ")"

    def term(self, c):
        if c in self.names:
            return self.names[c]
        t = c[0]
        if t == 'set':
            s = self.setterm(c)
        elif t == 'eps':
            s = '(str.to_re "")'
        elif t in ('cat', 'alt', 'and'):
            xs = [self.term(x) for x in c[1]]
            if not xs:
                s = {'cat': '(str.to_re "")', 'alt': 're.none', 'and': None}[t]
                if s is None:
                    raise ValueError("empty intersection must be an `all` node")
            elif len(xs) == 1:
                s = xs[0]
            else:
                s = "(" + {'cat': 're.++', 'alt': 're.union', 'and': 're.inter'}[t] + " " + " ".join(xs) + ")"
        elif t == 'plus':
            s = f"(re.+ {self.term(c[1])})"
        elif t == 'all':
            s = f"(re.* {self.term(c[1])})"
        elif t == 'comp':
            s = f"(re.inter (re.* {self.term(c[2])}) (re.comp {self.term(c[1])}))"
        else:
            raise ValueError(t)
        if t == 'eps' or (t == 'set' and len(c[1]) <= 1):
            self.names[c] = s
            return s
        n = f"{self.prefix}{len(self.defs)}"
        self.defs.append(f"(define-fun {n} () RegLan {s})")
        self.names[c] = n
        return n


# ==================================================================================================
# reference matcher (Brzozowski derivatives over core) -- translator validation only
# ==================================================================================================

def nullable(c):
    t = c[0]
    if t == 'set':
        return False
    if t == 'eps':
        return True
    if t == 'cat' or t == 'and':
        return all(nullable(x) for x in c[1])
    if t == 'alt':
        return any(nullable(x) for x in c[1])
    if t == 'plus':
        return nullable(c[1])
    if t == 'all':
        return True
    if t == 'comp':
        return not nullable(c[1])
    raise ValueError(t)


NONE = ('alt', ())


def in_set(node, a):
    return any(lo <= a <= hi for lo, hi in node[1])


def s_cat(xs):
    out = []
    for x in xs:
        if x == NONE:
            return NONE
        if x == ('eps',):
            continue
        if x[0] == 'cat':
            out.extend(x[1])
        else:
            out.append(x)
    if not out:
        return ('eps',)
    return out[0] if len(out) == 1 else ('cat', tuple(out))


def s_alt(xs):
    out = []
    for x in xs:
        if x == NONE:
            continue
        ys = x[1] if x[0] == 'alt' else (x,)
        for y in ys:
            if y not in out:
                out.append(y)
    if not out:
        return NONE
    return out[0] if len(out) == 1 else ('alt', tuple(out))


def s_and(xs):
    out = []
    for x in xs:
        if x == NONE:
            return NONE
        if x not in out:
            out.append(x)
    return out[0] if len(out) == 1 else ('and', tuple(out))


def deriv(c, a, memo):
    key = (c, a)
    if key in memo:
        return memo[key]
    t = c[0]
    if t == 'set':
        r = ('eps',) if in_set(c, a) else NONE
    elif t == 'eps':
        r = NONE
    elif t == 'cat':
        xs = c[1]
        if not xs:
            r = NONE
        else:
            head, rest = xs[0], s_cat(xs[1:])
            r = s_cat([deriv(head, a, memo), rest])
            if nullable(head):
                r = s_alt([r, deriv(rest, a, memo)])
    elif t == 'alt':
        r = s_alt([deriv(x, a, memo) for x in c[1]])
    elif t == 'and':
        r = s_and([deriv(x, a, memo) for x in c[1]])
    elif t == 'plus':
        r = s_cat([deriv(c[1], a, memo), s_alt([('eps',), c])])
    elif t == 'all':
        r = c if in_set(c[1], a) else NONE
    elif t == 'comp':
        # univ* \ L : a letter outside univ kills the word
        r = ('comp', deriv(c[1], a, memo), c[2]) if in_set(c[2], a) else NONE
    else:
        raise ValueError(t)
    memo[key] = r
    return r


def ref_match(c, word, memo=None):
    memo = {} if memo is None else memo
    for a in word:
        c = deriv(c, a, memo)
        if c == NONE:
            return False
    return nullable(c)


# ==================================================================================================
# automaton dump -> SMT
# ==================================================================================================

class Auto:
    def __init__(self, d):
        self.nb = d["nb_states"]
        self.init = d["initial_state"]
        self.final = set(d["final_states"])
        self.tr = {(s, b): (t, m) for s, b, t, m in d["transitions"]}
        self.raw = d["transitions"]
        self.nb_raw = d.get("nb_transitions", len(d["transitions"]))

    def run(self, bytes_):
        s, out = self.init, []
        for b in bytes_:
            if (s, b) not in self.tr:
                return False, out
            s, m = self.tr[(s, b)]
            out.append(m)
        return s in self.final, out

    def by_state(self):
        """state -> list of (lo, hi, target, marker) maximal byte ranges with the same image."""
        per = {}
        for (s, b), (t, m) in sorted(self.tr.items()):
            l = per.setdefault(s, [])
            if l and l[-1][1] == b - 1 and l[-1][2] == t and l[-1][3] == m:
                l[-1][1] = b
            else:
                l.append([b, b, t, m])
        return per

    def smt_defs(self, name="d", only=None):
        """(define-fun <name>_t (s b) Int) target state or -1, (<name>_m (s b) Int) marker or -1,
        (<name>_f (s) Bool). Total functions: a missing key is the dead state -1."""
        per = self.by_state()
        if only is not None:
            per = {s: v for s, v in per.items() if s in only}

        def cond(lo, hi):
            return f"(= b {lo})" if lo == hi else f"(and (<= {lo} b) (<= b {hi}))"

        def chain(idx):
            outer = "(- 1)"
            for s in sorted(per, reverse=True):
                inner = "(- 1)"
                for lo, hi, t, m in reversed(per[s]):
                    inner = f"(ite {cond(lo, hi)} {(t, m)[idx]} {inner})"
                outer = f"(ite (= s {s}) {inner} {outer})"
            return outer

        fin = "(or false " + " ".join(f"(= s {f})" for f in sorted(self.final)) + ")"
        return [
            f"(define-fun {name}_t ((s Int) (b Int)) Int {chain(0)})",
            f"(define-fun {name}_m ((s Int) (b Int)) Int {chain(1)})",
            f"(define-fun {name}_f ((s Int)) Bool {fin})",
        ]


# ==================================================================================================
# queries
# ==================================================================================================

def word_decl(n, mmax, style="code"):
    """symbolic marked word of n letters: ints b_i (byte), m_i (marker), c_i = b_i + 256 m_i and the
    String term `w`."""
    L = []
    for i in range(n):
        L.append(f"(declare-const b{i} Int)(declare-const m{i} Int)")
        L.append(f"(assert (and (<= 0 b{i}) (<= b{i} 255) (<= 0 m{i}) (<= m{i} {mmax})))")
        L.append(f"(define-fun c{i} () Int (+ b{i} (* 256 m{i})))")
    if style == "code":
        if n == 0:
            L.append('(define-fun w () String "")')
        elif n == 1:
            L.append("(define-fun w () String (str.from_code c0))")
        else:
            L.append("(define-fun w () String (str.++ " + " ".join(f"(str.from_code c{i})" for i in range(n)) + "))")
    else:
        L.append("(declare-const w String)")
        L.append(f"(assert (= (str.len w) {n}))")
        for i in range(n):
            L.append(f"(assert (= c{i} (str.to_code (str.at w {i}))))")
    return L


def run_decl(n, init, name="d", pfx="s"):
    """unrolled run of automaton `name` on b_0..b_{n-1}; returns (lines, accept_term)."""
    L = [f"(define-fun {pfx}0 () Int {init})"]
    for i in range(n):
        L.append(f"(define-fun {pfx}{i + 1} () Int ({name}_t {pfx}{i} b{i}))")
    conj = [f"({name}_f {pfx}{n})"] + [f"(>= {pfx}{i + 1} 0)" for i in range(n)] + [f"(= m{i} ({name}_m {pfx}{i} b{i}))" for i in range(n)]
    return L, "(and " + " ".join(conj) + ")"


def equiv_query(auto, corex, n, mmax, style="code", mode="neq"):
    em = RegLanEmitter()
    top = em.term(corex)
    L = ["(set-logic ALL)"] + em.defs + auto.smt_defs("d") + word_decl(n, mmax, style)
    rl, acc = run_decl(n, auto.init)
    L += rl
    L.append(f"(define-fun acc () Bool {acc})")
    L.append(f"(define-fun inl () Bool (str.in_re w {top}))")
    if mode == "neq":
        L.append("(assert (not (= acc inl)))")
    elif mode == "vac":      # vacuity twin: some word of this length is accepted by both
        L.append("(assert (and acc inl))")
    return "\n".join(L), [f"b{i}" for i in range(n)] + [f"m{i}" for i in range(n)]


def ambiguity_query(corex, n, mmax):
    """two marked words of length n in the language with the same bytes and different markers."""
    em = RegLanEmitter()
    top = em.term(corex)
    L = ["(set-logic ALL)"] + em.defs
    for k in "xy":
        L.append(f"(declare-const w{k} String)")
        L.append(f"(assert (= (str.len w{k}) {n}))")
        L.append(f"(assert (str.in_re w{k} {top}))")
    diff = []
    for i in range(n):
        L.append(f"(declare-const b{i} Int)(declare-const mx{i} Int)(declare-const my{i} Int)")
        L.append(f"(assert (and (<= 0 b{i}) (<= b{i} 255) (<= 0 mx{i}) (<= mx{i} {mmax}) (<= 0 my{i}) (<= my{i} {mmax})))")
        L.append(f"(assert (= (+ b{i} (* 256 mx{i})) (str.to_code (str.at wx {i}))))")
        L.append(f"(assert (= (+ b{i} (* 256 my{i})) (str.to_code (str.at wy {i}))))")
        diff.append(f"(not (= mx{i} my{i}))")
    L.append("(assert (or false " + " ".join(diff) + "))")
    return "\n".join(L), [f"b{i}" for i in range(n)] + [f"mx{i}" for i in range(n)] + [f"my{i}" for i in range(n)]


def smt_str(cps):
    return '"' + "".join("\\u{%x}" % c for c in cps) + '"'


# ==================================================================================================
# the Rust side (`ax`)
# ==================================================================================================

AX_DIR, AX_TARGET = fcore.crate_dirs("engines/auto")
AXBIN = os.path.join(AX_TARGET, "debug", "ax")
_build_lock = threading.Lock()
_built = False


def build(run=None):
    """(Re)build `ax` against the checked tree (path dependencies + build.rs regenerate everything that
    depends on the tree's sources)."""
    global _built
    with _build_lock:
        if _built:
            return
        t = time.time()
        env = dict(os.environ, CARGO_TARGET_DIR=AX_TARGET, CARGO_NET_OFFLINE="true")
        p = subprocess.run(["cargo", "build", "--offline", "--bin", "ax"], cwd=AX_DIR, env=env, capture_output=True, text=True)
        if p.returncode != 0:
            raise RuntimeError("ax build failed:\n" + p.stderr[-3000:])
        _built = True
        if run:
            run.log(f"ax built in {time.time() - t:.1f}s")


def _tmpjson(obj):
    f = tempfile.NamedTemporaryFile("w", suffix=".json", delete=False)
    json.dump(obj, f)
    f.close()
    return f.name


def ax_compile(items, timeout=20, workers=6):
    """items: list of (id, R). -> {id: result dict} (ok/automaton | panic | timeout)."""
    build()
    out = {}
    chunks = [items[i::workers] for i in range(workers)]
    chunks = [c for c in chunks if c]

    def one(chunk):
        path = _tmpjson({"items": [{"id": i, "r": r} for i, r in chunk]})
        try:
            p = subprocess.run([AXBIN, "compile", path, str(timeout)], capture_output=True, text=True, timeout=timeout * len(chunk) + 60)
            res = {}
            for l in p.stdout.splitlines():
                o = json.loads(l)
                res[o["id"]] = o
            for i, _ in chunk:
                res.setdefault(i, {"ok": False, "error": "no output: " + p.stderr[-300:]})
            return res
        except subprocess.TimeoutExpired:
            return {i: {"ok": False, "timeout": True} for i, _ in chunk}
        finally:
            os.unlink(path)

    from concurrent.futures import ThreadPoolExecutor
    with ThreadPoolExecutor(len(chunks) or 1) as ex:
        for res in ex.map(one, chunks):
            out.update(res)
    return out


def ax_run(spec, words):
    """spec: {"r": R} | {"lib": name} | {"shipped": name}; words: list of byte lists. Real runs."""
    build()
    path = _tmpjson(dict(spec, words=[list(w) for w in words]))
    try:
        p = subprocess.run([AXBIN, "run", path], capture_output=True, text=True, timeout=700)
        if p.returncode != 0 or not p.stdout.strip():
            return {"ok": False, "error": p.stderr[-500:]}
        return json.loads(p.stdout.splitlines()[-1])
    finally:
        os.unlink(path)


def ax_lib(timeout=120):
    build()
    p = subprocess.run([AXBIN, "lib", "all", str(timeout)], capture_output=True, text=True, timeout=timeout * 6 + 60)
    if p.returncode != 0:
        raise RuntimeError("ax lib failed: " + p.stderr[-800:])
    return [json.loads(l) for l in p.stdout.splitlines() if l.strip()]


# ==================================================================================================
# deciding one regex
# ==================================================================================================

Z3 = ("z3-new",)


def solve_z3(q, timeout, names=None):
    return solvers.solve(q, timeout=timeout, solvers=Z3, get_values=names)


def real_verdict(spec, bytes_, markers):
    """real run of the real automaton: does it accept `bytes_` AND emit exactly `markers`?"""
    res = ax_run(spec, [bytes_])
    if not res.get("ok"):
        return None, res
    r = res["runs"][0]
    return bool(r["accepted"] and r["markers"] == list(markers)), r


def decide_equiv(run, ob, rjson, auto, N, variant=None, spec=None, timeout=60, cross=0):
    """language + marker equivalence of the dumped automaton and the reference language, every word
    length 0..N. spec: what `ax run` must rebuild for a replay (default {"r": rjson})."""
    spec = spec or {"r": rjson}
    try:
        corex = core_of(rjson, variant)
    except Outside as ex:
        ob.nontrivial = False
        return ob.set(INCONCLUSIVE, f"outside the claim: {ex}")
    mmax = min(MAXM, max(core_markers(corex) | {m for _, _, _, m in auto.raw} | {0}) + 1)
    memo = {}
    witness = None
    for n in range(N + 1):
        q, names = equiv_query(auto, corex, n, mmax, "at")
        r = solve_z3(q, timeout, names)
        ob.queries += 1
        ob.solver_s += r.time_s
        if r.status == "unsat":
            if cross and 1 <= n <= cross:
                # second opinion (cvc5, str.from_code formulation); a definite disagreement is inconclusive
                q2, _ = equiv_query(auto, corex, n, mmax, "code")
                r2 = solvers.solve(q2, timeout=10, solvers=("cvc5",))
                ob.queries += 1
                if r2.status == "sat":
                    return ob.set(INCONCLUSIVE, f"solvers disagree at length {n}: z3-new unsat, cvc5 sat")
            if witness is None:
                q, names = equiv_query(auto, corex, n, mmax, "at", mode="vac")
                rv = solve_z3(q, timeout, names)
                ob.queries += 1
                ob.solver_s += rv.time_s
                if rv.status == "sat":
                    witness = n
            continue
        if r.status != "sat":
            return ob.set(INCONCLUSIVE, f"length {n}: solver {r.status} {r.raw[:160]}")
        w = [r.model.get(f"b{i}", 0) for i in range(n)]
        m = [r.model.get(f"m{i}", 0) for i in range(n)]
        in_ref = ref_match(corex, [b + 256 * k for b, k in zip(w, m)], memo)
        real, raw = real_verdict(spec, w, m)
        if real is None:
            return ob.set(INCONCLUSIVE, f"counterexample {w} {m} could not be replayed: {raw}")
        if real != in_ref:
            path = run.write_replay(ob, dict(kind="regex-word", spec=spec, r=rjson, variant=variant, word=w, markers=m,
                                             in_reference_language=in_ref, real_accepts_with_these_markers=real, real_run=raw))
            what = (f"the real automaton {'accepts' if real else 'does not accept'} {bytes(w)!r} with markers {m} "
                    f"(real run: accepted={raw['accepted']} markers={raw['markers']}) but the word "
                    f"{'is' if in_ref else 'is not'} in the language of the expression")
            return ob.set(VIOLATION, what, solver=r.solver, replay=path)
        return ob.set(INCONCLUSIVE, f"length {n}: model {w} {m} does not replay (real={real}, reference matcher={in_ref}, z3 said they differ)")
    if witness is not None:
        ob.vacuity = True
    else:
        # nothing accepted up to N: the twin is "the word space itself is satisfiable" (weak), say so
        q, names = equiv_query(auto, corex, min(N, 1), mmax, "at", mode="none")
        rv = solve_z3(q, timeout)
        ob.queries += 1
        ob.vacuity = rv.status == "sat"
        ob.detail = f"no word of length <= {N} is accepted (language has only longer words or is empty)"
    return ob.set(HOLDS, solver="z3-new")


def decide_unambiguous(run, ob, rjson, N, variant=None, timeout=20, budget=25.0, min_n=3):
    """output-determinism of the expression itself (no automaton involved): no two words of the language
    of the same length <= n have the same bytes and different markers. The two-string query gets hard
    quickly; n grows until N or until the time budget is spent, the bound reached is recorded."""
    corex = core_of(rjson, variant)
    mmax = min(MAXM, max(core_markers(corex) | {0}))
    memo = {}
    t0 = time.time()
    reached = -1
    for n in range(N + 1):
        if n > min_n and time.time() - t0 > budget:
            break
        q, names = ambiguity_query(corex, n, mmax)
        r = solve_z3(q, timeout if n > min_n else 60, names)
        ob.queries += 1
        ob.solver_s += r.time_s
        if r.status == "unsat":
            reached = n
            continue
        if r.status != "sat":
            if n > min_n:
                break
            return ob.set(INCONCLUSIVE, f"length {n}: solver {r.status} {r.raw[:160]}")
        b = [r.model.get(f"b{i}", 0) for i in range(n)]
        mx = [r.model.get(f"mx{i}", 0) for i in range(n)]
        my = [r.model.get(f"my{i}", 0) for i in range(n)]
        ok = ref_match(corex, [x + 256 * k for x, k in zip(b, mx)], memo) and ref_match(corex, [x + 256 * k for x, k in zip(b, my)], memo) and mx != my
        if not ok:
            return ob.set(INCONCLUSIVE, f"ambiguity model does not re-evaluate: {b} {mx} {my}")
        return ("ambiguous", b, mx, my)
    ob.bound = f"word length <= {reached}"
    return None


def decide_refusal(run, ob, rjson, msg, variant=None, timeout=60):
    """The compiler refused the expression as non output-deterministic. A letter-to-letter deterministic
    transducer exists iff no two words of the language share a byte prefix on which their markers
    differ; the refusal is justified iff such a pair exists. The panic message names a byte prefix P, a
    byte X and two markers: both  L ∩ lift(P)·(X,M1)·Sigma*  and  L ∩ lift(P)·(X,M2)·Sigma*  must be
    non-empty (two regular-language queries, suffixes of any length)."""
    import re
    corex = core_of(rjson, variant)
    m = re.search(r"bytes \[\[([0-9, ]*)\]\]\).*?\(byte (\d+)\) should be marked (\d+) or (\d+)", msg, re.S)
    if not m:
        return ob.set(INCONCLUSIVE, f"refusal message without a parsable witness: {msg[:200]}")
    P = [int(x) for x in m.group(1).split(",") if x.strip()]
    X, M1, M2 = int(m.group(2)), int(m.group(3)), int(m.group(4))
    em = RegLanEmitter()
    top = em.term(corex)
    M = sorted(core_markers(corex) | {0})
    sig = em.setterm(mkset(b + 256 * k for b in range(256) for k in M))
    pre = " ".join(em.setterm(mkset(b + 256 * k for k in M)) for b in P)
    words = []
    for mk in (M1, M2):
        q = "\n".join(["(set-logic ALL)"] + em.defs + ["(declare-const x String)",
                      f"(assert (str.in_re x (re.inter {top} (re.++ {pre} (str.to_re {smt_char(X + 256 * mk)}) (re.* {sig})))))"])
        r = solve_z3(q, timeout)
        ob.queries += 1
        ob.solver_s += r.time_s
        if r.status == "unsat":
            path = run.write_replay(ob, dict(kind="regex-panic", r=rjson))
            ob.key += ":unjustified-refusal"
            return ob.set(VIOLATION, f"to_automaton() refuses the expression as non output-deterministic after bytes {P} + {X}, but no word of the language marks that byte {mk}", replay=path)
        if r.status != "sat":
            return ob.set(INCONCLUSIVE, f"solver {r.status} {r.raw[:160]}")
        cps = string_model(q, "x", timeout)
        if cps is None or not ref_match(corex, cps):
            return ob.set(INCONCLUSIVE, "witness word does not re-evaluate")
        words.append(cps)
    ob.vacuity = True
    w1, w2 = words
    return ob.set(HOLDS, f"refusal justified: {bytes(c & 255 for c in w1)!r} marks byte #{len(P)} with {M1}, {bytes(c & 255 for c in w2)!r} with {M2}", solver="z3-new")


def balanced_ite(var, vals, lo=0):
    """(ite ...) tree of depth log n selecting vals[var - lo]."""
    if len(vals) == 1:
        return str(vals[0])
    mid = len(vals) // 2
    return f"(ite (< {var} {lo + mid}) {balanced_ite(var, vals[:mid], lo)} {balanced_ite(var, vals[mid:], lo + mid)})"


def determinism_queries(transitions, chunk=400):
    """over the LIST of dumped transitions (sorted by Python, sortedness is part of the query): some
    adjacent pair of entries is not strictly increasing in the key (state, byte) -- unsat for every
    chunk means the keys are pairwise distinct, i.e. one image (target, marker) per (state, byte)."""
    keys = [s * 256 + b for s, b, _, _ in sorted(transitions)]
    out = []
    for lo in range(0, max(len(keys) - 1, 0), chunk):
        part = keys[lo:lo + chunk + 1]
        if len(part) < 2:
            continue
        out.append("\n".join(["(set-logic ALL)", f"(define-fun K ((i Int)) Int {balanced_ite('i', part)})",
                              "(declare-const i Int)", f"(assert (and (<= 0 i) (< i {len(part) - 1})))",
                              "(assert (>= (K i) (K (+ i 1))))"]))
    return out
