"""Engine M: bodies that are straight field arithmetic over an FFI-backed (or otherwise opaque) field type.

The MIR interpreter runs the body with every value of the listed field types an abstract element; the
calls into the field (`Mul::mul`, `Field::square`, `Field::invert`, `is_zero`, `conditional_select`, ...)
are interpreted by a FieldTheory:

  mode 'uf'     elements are an uninterpreted carrier with fmul/fadd/fneg/finv and the (quantified) field
                axioms; `unsat` is valid in EVERY field, so it covers Fp and Fp2 alike;  `sat`/unknown is
                not a counterexample.
  mode 'exact'  elements are integers mod p (p read from the tree), products with fresh quotients (NIA);
                a `sat` model is a concrete counterexample over the prime field, which is replayed natively
                (for Fp2-typed code the prime subfield is embedded as c1 = 0: the code only uses field
                operations, so a prime-subfield counterexample is a counterexample)."""
import re

from vf import mir2smt as M
from vf.mir2smt import Opaque, Agg, Ref, Cell, S, B, Untranslatable, mk_choice, I


class FieldCtx(M.Ctx):
    def __init__(self, mode, p=None):
        super().__init__("nonlinear")
        self.mode, self.p = mode, p
        self.elems = []
        if mode == "uf":
            self.decl += [
                "(declare-fun fmul (Int Int) Int)", "(declare-fun fadd (Int Int) Int)",
                "(declare-fun fneg (Int) Int)", "(declare-fun finv (Int) Int)",
                "(assert (forall ((a Int) (b Int)) (! (= (fmul a b) (fmul b a)) :pattern ((fmul a b)))))",
                "(assert (forall ((a Int) (b Int) (c Int)) (! (= (fmul (fmul a b) c) (fmul a (fmul b c))) :pattern ((fmul (fmul a b) c)))))",
                "(assert (forall ((a Int) (b Int) (c Int)) (! (= (fmul (fmul a b) c) (fmul a (fmul b c))) :pattern ((fmul a (fmul b c))))))",
                "(assert (forall ((a Int)) (! (= (fmul a 1) a) :pattern ((fmul a 1)))))",
                "(assert (forall ((a Int)) (! (= (fmul a 0) 0) :pattern ((fmul a 0)))))",
                "(assert (forall ((a Int)) (! (=> (not (= a 0)) (= (fmul a (finv a)) 1)) :pattern ((finv a)))))",
                "(assert (= (finv 0) 0))",
                "(assert (forall ((a Int) (b Int)) (! (=> (= (fmul a b) 0) (or (= a 0) (= b 0))) :pattern ((fmul a b)))))",
                "(assert (forall ((a Int) (b Int)) (! (= (fadd a b) (fadd b a)) :pattern ((fadd a b)))))",
                "(assert (forall ((a Int) (b Int) (c Int)) (! (= (fadd (fadd a b) c) (fadd a (fadd b c))) :pattern ((fadd (fadd a b) c)))))",
                "(assert (forall ((a Int)) (! (= (fadd a 0) a) :pattern ((fadd a 0)))))",
                "(assert (forall ((a Int)) (! (= (fadd a (fneg a)) 0) :pattern ((fneg a)))))",
                "(assert (forall ((a Int) (b Int) (c Int)) (! (= (fmul a (fadd b c)) (fadd (fmul a b) (fmul a c))) :pattern ((fmul a (fadd b c))))))",
                "(assert (forall ((a Int) (b Int) (c Int)) (! (= (fmul a (fadd b c)) (fadd (fmul a b) (fmul a c))) :pattern ((fadd (fmul a b) (fmul a c))))))",
            ]

    # ---- carrier
    def fresh_opaque(self, ty, hint="e"):
        if self.mode == "exact":
            nm = self.fresh(0, self.p - 1, hint)
        else:
            self.n += 1
            nm = f"{hint}!{self.n}"
            self.decl.append(f"(declare-const {nm} Int)")
            self.vars.append(nm)
        self.elems.append(nm)
        return nm

    # ---- operations (terms are strings)
    def fmul(self, a, b):
        if self.mode == "uf":
            return self.define(f"(fmul {a} {b})", "m")
        if a in ("0", "1") or b in ("0", "1"):
            return "0" if "0" in (a, b) else (b if a == "1" else a)
        r = self.fresh(0, self.p - 1, "m")
        q = self.fresh(0, self.p - 1, "q")
        self.fact(f"(= (* {a} {b}) (+ {r} (* {self.p} {q})))")
        return r

    def fadd(self, a, b):
        if self.mode == "uf":
            return self.define(f"(fadd {a} {b})", "s")
        r = self.fresh(0, self.p - 1, "s")
        c = self.fresh(0, 1, "c")
        self.fact(f"(= (+ {a} {b}) (+ {r} (* {self.p} {c})))")
        return r

    def fneg(self, a):
        if self.mode == "uf":
            return self.define(f"(fneg {a})", "n")
        return self.define(f"(ite (= {a} 0) 0 (- {self.p} {a}))", "n")

    def fsub(self, a, b):
        return self.fadd(a, self.fneg(b))

    def finv(self, a):
        """total inverse with inv(0) = 0"""
        if self.mode == "uf":
            return self.define(f"(finv {a})", "i")
        r = self.fresh(0, self.p - 1, "i")
        q = self.fresh(0, self.p - 1, "q")
        self.fact(f"(ite (= {a} 0) (= {r} 0) (= (* {a} {r}) (+ 1 (* {self.p} {q}))))")
        return r


def elem(ip, v):
    if isinstance(v, Ref):
        v = ip.read_path(v.cell, v.path)
    if isinstance(v, Opaque):
        return v
    if isinstance(v, Agg) and len(v.f) == 1 and isinstance(v.f.get(0), (Opaque, Agg)):
        return elem(ip, v.f[0])
    raise Untranslatable("field element expected, got " + repr(v))


def field_handlers(types):
    """types: list of opaque field type paths (e.g. bls12_381::fp::Fp). Returns handler list."""
    alts = list(types) + [re.sub(r"<", "::<", t, count=1) for t in types if "<" in t]     # turbofish spelling in call paths
    T = "(?:" + "|".join(re.escape(t) for t in alts) + ")"
    R = f"&?(?:mut )?{T}"
    hs = []

    def h(rx):
        def deco(f):
            hs.append((re.compile(rx), f))
            return f
        return deco

    def out_ty(tys, func):
        for t in types:
            if t in func:
                return t
        return types[0]

    @h(rf"^<{R} as std::ops::Mul(?:<{R}>)?>::mul$|^{T}::mul$|^{T}::mul_const$")
    def _mul(ip, fr, func, args, tys, dty, m):
        a, b = elem(ip, args[0]), elem(ip, args[1])
        return Opaque(ip.ctx.fmul(a.t, b.t), out_ty(tys, func))

    @h(rf"^<{R} as std::ops::Add(?:<{R}>)?>::add$|^{T}::add$")
    def _add(ip, fr, func, args, tys, dty, m):
        a, b = elem(ip, args[0]), elem(ip, args[1])
        return Opaque(ip.ctx.fadd(a.t, b.t), out_ty(tys, func))

    @h(rf"^<{R} as std::ops::Sub(?:<{R}>)?>::sub$|^{T}::sub$")
    def _sub(ip, fr, func, args, tys, dty, m):
        a, b = elem(ip, args[0]), elem(ip, args[1])
        return Opaque(ip.ctx.fsub(a.t, b.t), out_ty(tys, func))

    @h(rf"^<{R} as std::ops::Neg>::neg$|^{T}::neg$")
    def _neg(ip, fr, func, args, tys, dty, m):
        return Opaque(ip.ctx.fneg(elem(ip, args[0]).t), out_ty(tys, func))

    @h(rf"^<{T} as ff::Field>::square$|^{T}::square$")
    def _sq(ip, fr, func, args, tys, dty, m):
        a = elem(ip, args[0])
        return Opaque(ip.ctx.fmul(a.t, a.t), out_ty(tys, func))

    @h(rf"^<{T} as ff::Field>::double$|^{T}::double$")
    def _dbl(ip, fr, func, args, tys, dty, m):
        a = elem(ip, args[0])
        return Opaque(ip.ctx.fadd(a.t, a.t), out_ty(tys, func))

    @h(rf"^<{T} as ff::Field>::invert$|^{T}::invert$")
    def _inv(ip, fr, func, args, tys, dty, m):
        a = elem(ip, args[0])
        c = ip.ctx
        flag = S(c.define(f"(ite (= {a.t} 0) 0 1)", "nz"), "u8", ub=2)
        return Agg({0: Opaque(c.finv(a.t), out_ty(tys, func)), 1: mk_choice(flag)}, "subtle::CtOption")

    @h(rf"^<{T} as ff::Field>::is_zero$|^{T}::is_zero$")
    def _isz(ip, fr, func, args, tys, dty, m):
        a = elem(ip, args[0])
        return mk_choice(S(ip.ctx.define(f"(ite (= {a.t} 0) 1 0)", "z"), "u8", ub=2))

    @h(rf"^<{T} as subtle::ConstantTimeEq>::ct_eq$")
    def _cteq(ip, fr, func, args, tys, dty, m):
        a, b = elem(ip, args[0]), elem(ip, args[1])
        return mk_choice(S(ip.ctx.define(f"(ite (= {a.t} {b.t}) 1 0)", "eq"), "u8", ub=2))

    @h(rf"^<{T} as subtle::ConditionallySelectable>::conditional_select$")
    def _sel(ip, fr, func, args, tys, dty, m):
        a, b = elem(ip, args[0]), elem(ip, args[1])
        c = M.choice_bit(ip, args[2])
        if isinstance(c, int):
            return b if c else a
        return Opaque(ip.ctx.define(f"(ite (= {c.t} 0) {a.t} {b.t})", "sel"), out_ty(tys, func))

    @h(rf"^subtle::CtOption::<{T}>::unwrap_or$")
    def _unwrap_or(ip, fr, func, args, tys, dty, m):
        o, d = args[0], elem(ip, args[1])
        v = elem(ip, o.f[0])
        c = M.choice_bit(ip, o.f[1])
        if isinstance(c, int):
            return v if c else d
        return Opaque(ip.ctx.define(f"(ite (= {c.t} 0) {d.t} {v.t})", "uo"), v.ty)

    @h(rf"^subtle::CtOption::<{T}>::unwrap$")
    def _unwrap(ip, fr, func, args, tys, dty, m):
        o = args[0]
        c = M.choice_bit(ip, o.f[1])
        # subtle: assert_eq!(is_some, 1) -> panic site
        if isinstance(c, int):
            if c != 1:
                raise Untranslatable("CtOption::unwrap on None: panics")
        else:
            ip.do_assert(B(ip.ctx.define(f"(= {c.t} 1)", "some", "Bool")), False, "CtOption::unwrap on None", func)
        return elem(ip, o.f[0])

    @h(rf"^<{R} as std::cmp::PartialEq(?:<{R}>)?>::(eq|ne)$")
    def _peq(ip, fr, func, args, tys, dty, m):
        a, b = elem(ip, args[0]), elem(ip, args[1])
        if a.t.isdigit() and b.t.isdigit():
            r = int(a.t) == int(b.t)
            return r if m.group(1) == "eq" else not r
        t = f"(= {a.t} {b.t})" if m.group(1) == "eq" else f"(not (= {a.t} {b.t}))"
        return B(ip.ctx.define(t, "peq", "Bool"))

    @h(rf"^{T}::(zero|one)$|^<{T} as ff::Field>::(zero|one)$")
    def _zero_one(ip, fr, func, args, tys, dty, m):
        which = m.group(1) or m.group(2)
        return Opaque("0" if which == "zero" else "1", out_ty(tys, func))

    return hs


class CurveInterp(M.Interp):
    """Interp whose named constants of opaque field types ZERO / ONE are the abstract 0 / 1"""
    moduli = {}
    ext_modulus = None

    def named_const(self, fr, path, want_ty=None):
        m = re.search(r"::(ZERO|ONE)$", path)
        if m:
            for t in self.opaque_types:
                if t in path or (want_ty is not None and getattr(want_ty, "s", str(want_ty)) == t):
                    return Opaque("0" if m.group(1) == "ZERO" else "1", t)
        mp_ = re.search(r"::promoted\[(\d+)\]$", path)
        if mp_:
            it = self.resolve_const(fr, path, want_ty)
            sub = CurveInterp(self.P, self.ctx, self.handlers, self.opaque_types)
            sub.moduli = self.moduli
            sub.ext_modulus = self.ext_modulus
            v = sub.run_item(it, [])
            if it.ret is not None and it.ret.kind == "ref" and not isinstance(v, Ref):
                v = Ref(Cell(v))
            return v
        it = self.resolve_const(fr, path, want_ty)
        if it.ret is not None and it.ret.s in self.opaque_types and it.ret.s not in self.moduli and self.ext_modulus:
            # constant of an extension-field type (components in Montgomery limbs over the base prime):
            # prime-subfield constants keep their value, others become uninterpreted constant elements
            key = ("ext", id(it))
            if key not in self.const_cache:
                plain = M.Interp(self.P)
                v = plain.named_const(M.Frame(fr.item), path, want_ty)
                limbs = []

                def walk2(x):
                    if isinstance(x, Ref):
                        x = plain.read_path(x.cell, x.path)
                    if isinstance(x, int):
                        limbs.append(x)
                    elif isinstance(x, Agg):
                        for k in sorted(x.f):
                            walk2(x.f[k])
                    else:
                        raise Untranslatable("constant shape")
                walk2(v)
                pm = self.ext_modulus
                n = (pm.bit_length() + 63) // 64
                comps = [sum(x << (64 * i) for i, x in enumerate(limbs[j:j + n])) for j in range(0, len(limbs), n)]
                comps = [c_ * pow(1 << (64 * n), -1, pm) % pm for c_ in comps]
                self.const_cache[key] = comps
            comps = self.const_cache[key]
            if all(c_ == 0 for c_ in comps[1:]):
                return Opaque(str(comps[0]), it.ret.s)
            # (in exact mode this abstracts the constant to an arbitrary prime-field element other than 0, 1:
            # an over-approximation, so an exact-mode `sat` involving it would not replay and stays inconclusive)
            nm = "K_" + re.sub(r"[^A-Za-z0-9_]", "_", path)
            if nm not in self.ctx.vars:
                self.ctx.decl.append(f"(declare-const {nm} Int)")
                self.ctx.decl.append(f"(assert (and (not (= {nm} 0)) (not (= {nm} 1))))")
                if self.ctx.mode != "uf":
                    self.ctx.decl.append(f"(assert (and (<= 0 {nm}) (< {nm} {self.ctx.p})))")
                self.ctx.vars.append(nm)
            return Opaque(nm, it.ret.s)
        if it.ret is not None and it.ret.s in self.opaque_types and it.ret.s in self.moduli:
            # a published constant of an abstract field type: its canonical value, from the MIR limbs
            # (all these types keep Montgomery form: value = raw * 2^(-64 n) mod p)
            key = ("canon", id(it))
            if key not in self.const_cache:
                plain = M.Interp(self.P)
                v = plain.named_const(M.Frame(fr.item), path, want_ty)
                limbs = []

                def walk(x):
                    if isinstance(x, Ref):
                        x = plain.read_path(x.cell, x.path)
                    if isinstance(x, int):
                        limbs.append(x)
                    elif isinstance(x, Agg):
                        for k in sorted(x.f):
                            walk(x.f[k])
                    else:
                        raise Untranslatable("constant shape")
                walk(v)
                pm = self.moduli[it.ret.s]
                n = len(limbs)
                raw = sum(x << (64 * i) for i, x in enumerate(limbs))
                self.const_cache[key] = raw * pow(1 << (64 * n), -1, pm) % pm
            return Opaque(str(self.const_cache[key]), it.ret.s)
        return super().named_const(fr, path, want_ty)


def mk_interp(P, mode, p, types, extra_handlers=(), decisions=None, const_types=()):
    """types: opaque field type paths; const_types: those of them whose named constants are single prime-field
    elements in Montgomery limbs (their canonical values are read from the MIR const bodies)"""
    ctx = FieldCtx(mode, p)
    hs = list(extra_handlers) + field_handlers(types)
    ip = CurveInterp(P, ctx, hs, opaque_types=set(types), decisions=decisions)
    ip.moduli = {t: p for t in const_types}
    ip.ext_modulus = p
    return ip
