"""Emulated-curve (foreign ECC) gate groups on top of the foreign-field chain (C06, family "fecc").

The foreign ECC chip enforces four identities with custom foreign-field gates that carry a condition
cell `cond` (and, in `slope`, use the same cell as a sign):

    on_curve        y^2         = x*z + a*x + b        (z = x^2 comes from a FieldChip multiplication group)
    slope           s*qy - py   = L*(qx - px)          s = +1 / -1
    tangent         3*px^2 + a  = 2*py*L
    lambda_squared  x1 + x2 + x3 = L^2

Every polynomial of such a group is `cond * Q(cond, limbs, quotients)`. What is decided here, per group:

  case analysis  Sys => cond in {0, 1, -1} (solver), and which of the non-zero values are reachable;
  per reachable value s:  cond := s is substituted and the UNCHANGED `ffchain.run_chain` establishes the
                 links A (aux polynomials vanish over Z), B (CRT reconstruction of E), C (|E| < p*lcm),
                 D (CRT lemma), E (lifting) for the substituted group, i.e. `cond = s  =>  E = 0`;
  (G) ground     the lifted polynomial R of the group is, coefficient by coefficient modulo the emulated
                 modulus, +-(the textbook identity expanded over limb vectors of the group) with
                 val(v) = 1 + sum base^i v_i. The vectors are found by peeling product blocks
                 s*k*F_A*F_B off the quadratic part of R (multi-block generalisation of
                 `ffchain.find_block`) and from the linear part; which vector plays which role is found by
                 search over the group's own vectors, never from column positions;
  hypothesis     `cond = s  =>  sum coef_t * prod_MM res(role) == 0 (mod m)` in residue form, handed to the
                 main query of the operation (`MM`: uninterpreted product of residues, csmt.Enc.MM).

`install()` routes `ffchain.run_chain` through `run_chain_ecc` for systems of family "fecc" (process-local
patch; ffchain.py itself is not modified), so `cengine.decide(..., ff=True)` is reused unchanged:
vacuity twin, seeded counterexample search, exact re-check, replay on the real MockProver.

Requested core diff (would remove the patching): `ffchain.run_chain(e, ob, extra, timeout, on_group=None)`
calling `on_group(name, row, E, R)` per group, and `cengine.decide(..., chain=ffchain.run_chain)`."""
import itertools, os, threading, time
from . import ffchain, csmt, solvers, core
from .ffchain import ChainFail
from .solvers import I

_tls = threading.local()
_orig_find_block = ffchain.find_block
_orig_run_chain = ffchain.run_chain
RUN = None           # set by the part module: per-group (G) obligations are registered on it


def _find_block_hook(R, base):
    col = getattr(_tls, "collector", None)
    if col is not None:
        col.append(dict(R))
    return _orig_find_block(R, base)


def install():
    """process-local: ffchain.find_block records the lifted polynomial of every group it is shown;
    ffchain.run_chain dispatches on the family of the extracted system"""
    ffchain.find_block = _find_block_hook
    ffchain.run_chain = run_chain_dispatch


def run_chain_dispatch(e, ob, extra_info, timeout=60):
    if extra_info.get("family") == "fecc":
        try:
            return run_chain_ecc(e, ob, extra_info, timeout)
        except ChainFail as cf:
            ob._chain_fail = str(cf)
            raise
    return _orig_run_chain(e, ob, extra_info, timeout)


class View:
    """The Enc seen by `ffchain.run_chain` for a subset of the skipped gates with some cell atoms
    substituted by constants. Definitional material (fresh variables, products, residues) goes to the
    real Enc; the hypothesis lines run_chain appends directly land in `self.lines` and are re-emitted by
    the caller under the guard of the substitution."""

    def __init__(self, e, gates, subst):
        self._e = e
        self.skipped = list(gates)
        self.lines = []
        self._subst = dict(subst)

    def __getattr__(self, name):
        return getattr(self._e, name)

    def v(self, cell):
        a = self._e.v(cell)
        return self._subst.get(a, a)


# ---- residue-form helpers (shared with the specifications) --------------------------------------------
def params(e):
    ex = e.extra
    return int(ex["emulated_modulus"], 16), 1 << int(ex["log2_base"]), int(ex["nb_limbs"])


def res(e, vec):
    """residue atom of val(vec) = 1 + sum base^i vec_i (same key as specs/C05.res)"""
    m, base, n = params(e)
    terms, const = [], 1
    for i, l in enumerate(vec):
        if isinstance(l, int):
            const += csmt.sym(l, e.P) * base ** i
        else:
            terms.append((base ** i, l))
    return e.residue(terms, const, m)


def lincomb(e, terms, const=0):
    """residue atom of (const + sum coef*atom) mod m for residue atoms/ints and small integer coefs;
    built from Enc.MM (constant multiple, exact) and Enc.addmod so that models can be re-evaluated"""
    m = params(e)[0]
    if not hasattr(e, "_fecc_lc"):
        e._fecc_lc = {}
    key = (tuple(terms), const)
    if key in e._fecc_lc:
        return e._fecc_lc[key]
    acc = const % m
    for coef, a in terms:
        if coef == 0:
            continue
        t = a if abs(coef) == 1 else e.MM(a, abs(coef) % m, m)
        acc = e.addmod(acc, t, m, 1 if coef > 0 else -1)
    e._fecc_lc[key] = acc
    return acc


# textbook identities: list of (coef, [roles]); coef may be a callable of (a, b, s)
TEMPLATES = {
    "on_curve": (("x", "y", "z"), lambda a, b, s: [(1, ("y", "y")), (-1, ("x", "z")), (-a, ("x",)), (-b, ())]),
    "slope": (("L", "px", "py", "qx", "qy"), lambda a, b, s: [(s, ("qy",)), (-1, ("py",)), (-1, ("L", "qx")), (1, ("L", "px"))]),
    "tangent": (("L", "px", "py"), lambda a, b, s: [(3, ("px", "px")), (a, ()), (-2, ("py", "L"))]),
    "lambda_squared": (("L", "x1", "x2", "x3"), lambda a, b, s: [(1, ("x1",)), (1, ("x2",)), (1, ("x3",)), (-1, ("L", "L"))]),
}
KIND_OF_NAME = {"is_on_curve": "on_curve", "lambda slope": "slope", "assert_tangent": "tangent", "assert_lambda_squared": "lambda_squared"}


def curve_ab(e):
    m = params(e)[0]
    return int(e.extra.get("curve_a", "0x0"), 16) % m, int(e.extra.get("curve_b", "0x0"), 16) % m


def identity_terms(e, kind, roles, s=1):
    """[(coef, residue atom)] , const of the textbook identity `kind` with val(role) := residue of the role's
    limb vector; products are Enc.MM terms"""
    m = params(e)[0]
    a, b = curve_ab(e)
    terms, const = [], 0
    for coef, rs in TEMPLATES[kind][1](a, b, s):
        if coef == 0:
            continue
        if len(rs) == 0:
            const += coef
        elif len(rs) == 1:
            terms.append((coef, res(e, roles[rs[0]])))
        else:
            terms.append((coef, e.MM(res(e, roles[rs[0]]), res(e, roles[rs[1]]), m)))
    # merge equal atoms (x1 = x2 in a doubling)
    merged = {}
    for c, t in terms:
        merged[t] = merged.get(t, 0) + c
    ints = sum(c * t for t, c in merged.items() if isinstance(t, int))
    terms = sorted(((c, t) for t, c in merged.items() if not isinstance(t, int) and c), key=lambda ct: str(ct[1]))
    return terms, const + ints


def identity(e, kind, roles, s=1):
    """SMT Bool: the textbook identity `kind` holds modulo the emulated modulus on the residues of the given
    limb vectors (roles: name -> list of atoms)"""
    terms, const = identity_terms(e, kind, {k: tuple(v) for k, v in roles.items()}, s)
    r = lincomb(e, terms, const)
    return f"(= {r if not isinstance(r, int) else I(r)} 0)"


def locate(e, kind, s=None, **known):
    """groups of `kind` (recognised by run_chain_ecc) one of whose role assignments agrees with the given
    vectors; returns [(group record, assignment dict)]"""
    out = []
    for g in getattr(e, "fecc_groups", []):
        if g["kind"] != kind or (s is not None and g["s"] != s):
            continue
        for asg in g["assignments"]:
            if all(tuple(asg[r]) == tuple(v) for r, v in known.items()):
                out.append((g, asg))
                break
    return out


# ---- recognition of the lifted polynomial ------------------------------------------------------------
def relift(R, base, n, m):
    """coefficient c of each monomial -> (signed small multiplier kk, exponent ex) with c == kk*base^ex (mod m),
    smallest |kk| first; None when there is no such pair with |kk| <= 12"""
    tab = {}
    for ex in range(0, 3 * n + 2):
        tab.setdefault(pow(base, ex, m), ex)
    out = {}
    for mono, c in R.items():
        got = None
        for k in range(1, 13):
            for sg in (1, -1):
                t = (sg * c * pow(k, -1, m)) % m
                if t in tab:
                    got = (sg * k, tab[t])
                    break
            if got:
                break
        out[mono] = got
    return out


def peel(R, base, n, m):
    """Multi-block generalisation of ffchain.find_block. The quadratic part of the (re-lifted) polynomial is
    decomposed into blocks coef * F_A * F_B, F = sum sign*base^ex * atom: take the smallest remaining
    monomial a0*b0, its neighbours through b0 / a0 define F_A / F_B, the expansion is checked against the
    remaining monomials and subtracted; repeat. Returns (blocks, linear part {atom: (kk, ex)}) or raises
    ChainFail. A block is (coef, FA, FB), F = {atom: (sign, ex)}."""
    L = relift(R, base, n, m)
    if any(len(k) > 2 for k in R):
        raise ChainFail("degree > 2 left after substituting the condition cell")
    quad = {k: v for k, v in L.items() if len(k) == 2}
    if any(v is None for v in quad.values()):
        raise ChainFail("a quadratic coefficient is not a small multiple of a power of the base modulo the emulated modulus")
    blocks = []
    guard = 0
    while quad:
        guard += 1
        if guard > 8:
            raise ChainFail("more than 8 product blocks")
        k0 = min(quad, key=lambda k: (quad[k][1], abs(quad[k][0]), k))
        a0, b0 = k0
        kk0, ex0 = quad[k0]
        if a0 == b0:
            coef = kk0
            F = {a0: (1, 0)}
            if ex0 % 2:
                raise ChainFail("odd exponent on a square monomial")
            sh = ex0 // 2
            for (x, y), (kk, ex) in quad.items():
                if x == y or a0 not in (x, y):
                    continue
                o = y if x == a0 else x
                if kk % (2 * coef):
                    raise ChainFail(f"square block: cross coefficient {kk} is not 2*{coef}*(+-1)")
                sg = kk // (2 * coef)
                if sg not in (1, -1):
                    raise ChainFail("square block: cross multiplier")
                F[o] = (sg, ex - sh - sh)
            F = {a: (sg, ex) for a, (sg, ex) in F.items()}
            FA, FB, square = F, F, True
            shiftA = sh
        else:
            coef = kk0
            FA, FB = {}, {}
            for (x, y), (kk, ex) in quad.items():
                if x == y:
                    continue
                if b0 in (x, y):
                    o = y if x == b0 else x
                    if o != b0 and kk % coef == 0 and kk // coef in (1, -1):
                        FA[o] = (kk // coef, ex)
                if a0 in (x, y):
                    o = y if x == a0 else x
                    if o != a0 and kk % coef == 0 and kk // coef in (1, -1):
                        FB[o] = (kk // coef, ex)
            # exponents: ex(x, b0) = exA[x] + exB[b0]; fix exA[a0] = ex0 - exB[b0] with exB[b0] minimal
            eb0 = 0
            FA = {x: (sg, ex - eb0) for x, (sg, ex) in FA.items()}
            ea0 = FA[a0][1]
            FB = {y: (sg, ex - ea0) for y, (sg, ex) in FB.items()}
            # keep only atoms whose full row/column is present (two blocks may share a vector)
            def consistent(x, y):
                k = tuple(sorted((x, y)))
                if k not in quad:
                    return False
                kk, ex = quad[k]
                return kk == coef * FA[x][0] * FB[y][0] and ex == FA[x][1] + FB[y][1]
            FB = {y: v for y, v in FB.items() if consistent(a0, y) and all(consistent(x, y) for x in FA)}
            FA = {x: v for x, v in FA.items() if all(consistent(x, y) for y in FB)}
            if set(FA) & set(FB):
                raise ChainFail("product block with partially shared operands")
            square = False
        # verify by expansion and subtract
        exp = {}
        if square:
            items = sorted(FA.items())
            for i, (x, (sx, ex_)) in enumerate(items):
                exp[(x, x)] = (coef, 2 * (ex_ + shiftA))
                for y, (sy, ey) in items[i + 1:]:
                    exp[tuple(sorted((x, y)))] = (2 * coef * sx * sy, ex_ + ey + 2 * shiftA)
        else:
            for x, (sx, ex_) in FA.items():
                for y, (sy, ey) in FB.items():
                    exp[tuple(sorted((x, y)))] = (coef * sx * sy, ex_ + ey)
        if not exp or any(quad.get(k) != v for k, v in exp.items()):
            bad = [k for k, v in exp.items() if quad.get(k) != v][:2]
            raise ChainFail(f"product block around {k0} does not expand to the remaining monomials (e.g. {bad})")
        for k in exp:
            del quad[k]
        blocks.append((coef, FA, FB))
    lin = {k[0]: v for k, v in L.items() if len(k) == 1}
    return blocks, lin


def vectors_of_form(F, n):
    """limb vectors (tuples of atoms by exponent) contained in a form: per sign, atoms with exponents 0..n-1"""
    out = []
    for sg in (1, -1):
        at = sorted((ex, a) for a, (s_, ex) in F.items() if s_ == sg)
        if len(at) == n and [ex for ex, _ in at] == list(range(n)):
            out.append(tuple(a for _, a in at))
    return out


def expand(e, kind, asg, s):
    """integer polynomial {mono: coef} of the textbook identity over limb vectors, val(v) = 1 + sum base^i v_i"""
    m, base, n = params(e)
    a, b = curve_ab(e)

    def val(v):
        d = {(): 1}
        for i, x in enumerate(v):
            d[(x,)] = d.get((x,), 0) + base ** i
        return d
    out = {}
    for coef, rs in TEMPLATES[kind][1](a, b, s):
        if coef == 0:
            continue
        p = {(): coef}
        for r in rs:
            q = {}
            for k1, c1 in p.items():
                for k2, c2 in val(asg[r]).items():
                    k = tuple(sorted(k1 + k2))
                    q[k] = q.get(k, 0) + c1 * c2
            p = q
        for k, c in p.items():
            out[k] = out.get(k, 0) + c
    return {k: c for k, c in out.items() if c}


def match_identity(e, kind, R, quad_cands, lin_cands, s):
    """all role assignments such that +-expand == R coefficient-wise modulo m. Roles occurring in a product of
    the identity range over the vectors of the group's own product blocks, the others over the vectors that
    occur (aligned) in its linear part."""
    m = params(e)[0]
    roles = TEMPLATES[kind][0]
    a, b = curve_ab(e)
    qroles = set(r for coef, rs in TEMPLATES[kind][1](a, b, s) if len(rs) == 2 for r in rs)
    Rm = {k: c % m for k, c in R.items() if c % m}
    found = []
    for combo in itertools.product(*[(quad_cands if r in qroles else lin_cands) for r in roles]):
        asg = dict(zip(roles, combo))
        X = expand(e, kind, asg, s)
        for sg in (1, -1):
            Xm = {k: (sg * c) % m for k, c in X.items() if (sg * c) % m}
            if Xm == Rm:
                found.append((asg, sg))
                break
    return found


def _mag(e, a):
    """bound on |centred representative| of atom a known statically to the Enc (None: unknown)"""
    if a in e.srange:
        lo, hi = e.srange[a]
        return max(abs(lo), abs(hi))
    b = e.bound(a)
    return b - 1 if b < e.P // 2 else None


def row_def(e, u):
    """(const, {atom: coef}) with  sv(u) = const + sum coef*sv(atom)  over the INTEGERS, sv = centred
    representative: taken from a purely linear row of the system all of whose coefficients are +-1 (limb-wise
    sums and differences) and whose magnitude, by interval arithmetic over the Enc's static range facts,
    stays below p (so the congruence mod p is an equation)."""
    rows = getattr(e, "_fecc_linrows", None)
    if rows is None:
        rows = e._fecc_linrows = {}
        for const, lin in e.linrows:
            for a in lin:
                rows.setdefault(a, []).append((const, lin))
    for const, lin in rows.get(u, []):
        if any(c not in (1, -1) for c in lin.values()) or len(lin) < 2:
            continue
        mags = [_mag(e, a) for a in lin]
        if any(x is None for x in mags) or abs(const) + sum(mags) >= e.P:
            continue
        cu = lin[u]
        return -cu * const, {a: -cu * c for a, c in lin.items() if a != u}
    return None


def decompose_linear(e, lin, const, pool, grow=True):
    """integer linear form const + sum coef*sv(atom)  ->  ([(kk, vector)], const') with the form equal to
    const' + sum kk*V(vector) modulo m for every assignment, V(v) = sum base^i v_i. Vectors are taken from
    `pool`; atoms left over are first rewritten through their defining +-1 rows (row_def), what is then
    left must form whole new vectors (appended to pool). None if that fails."""
    m, base, n = params(e)
    lin = {a: c for a, c in lin.items() if c % m}
    for _ in range(4):
        L = relift({(a,): c for a, c in lin.items()}, base, n, m)
        rest = {k[0]: v for k, v in L.items()}
        if any(v is None for v in rest.values()):
            return None
        taken = []
        for v in pool:
            if len(set(v)) == n and all(a in rest for a in v) and len({rest[a][0] for a in v}) == 1 and [rest[a][1] for a in v] == list(range(n)):
                taken.append((rest[v[0]][0], v))
                for a in v:
                    del rest[a]
        changed = False
        for a in list(rest):
            d = row_def(e, a)
            if d is None:
                continue
            c = lin.pop(a)
            const += c * d[0]
            for b, kb in d[1].items():
                lin[b] = lin.get(b, 0) + c * kb
            changed = True
        lin = {a: c for a, c in lin.items() if c % m}
        if not changed:
            break
    else:
        return None
    by = {}
    for a, (kk, ex) in rest.items():
        by.setdefault(kk, []).append((ex, a))
    out = list(taken)
    for kk, lst in by.items():
        lst.sort()
        if len(lst) != n or [ex for ex, _ in lst] != list(range(n)):
            return None
        v = tuple(a for _, a in lst)
        if grow and v not in pool:
            pool.append(v)
            e.__dict__.setdefault("_fecc_newvecs", set()).add(v)
        out.append((kk, v))
    # ground re-check against the (rewritten) form
    chk = {}
    for kk, v in out:
        for i, a in enumerate(v):
            chk[a] = chk.get(a, 0) + kk * base ** i
    if set(a for a, c in chk.items() if c % m) != set(lin) or any((chk[a] - lin[a]) % m for a in lin):
        return None
    return out, const


# ---- the chain for an extracted fecc system ------------------------------------------------------------
def _solve(e, ob, extra_lines, timeout):
    r = solvers.solve(e.text(extra_lines), timeout=timeout)
    ob.queries += 1
    ob.solver_s += r.time_s
    return r


ALT = {}    # (op, curve) -> alternative admissible inputs (set by the part module): their honest runs serve as
            # reachability witnesses for condition values the primary honest run does not exhibit


def _alt_honest(e, extra_info):
    """honest class assignments of the alternative inputs (lazy generator, cached on the Enc)"""
    from . import cengine
    cache = e.__dict__.setdefault("_fecc_alt", [])
    for h in cache:
        yield h
    alts = ALT.get((extra_info.get("op"), (extra_info.get("params") or {}).get("curve")), [])
    k = max(1, int(e.s.d["n"]).bit_length() - 1)
    while len(cache) < len(alts):
        ins = alts[len(cache)]
        try:
            s2 = cengine.extract("fecc", extra_info["op"], dict(extra_info.get("params") or {}), ins, k)
            h = s2.honest_assign() if s2.d.get("honest_verify") else {}
        except Exception:
            h = {}
        cache.append(h)
        yield h


def cond_values(e, ob, c, honest_c, timeout, extra_info):
    """non-zero values the condition atom c can take: subset of {1, P-1}; raises ChainFail when the system
    does not confine c to {0, 1, -1}. Returns {value: reachability witness seen}. What is proved about c is
    handed back to the Enc (static bound / signed range + an assertion), so later queries see it."""
    P = e.P
    cache = e.__dict__.setdefault("_fecc_cond", {})
    if c in cache:
        return cache[c]
    vals = {}
    if e.bound(c) <= 2:
        cand = [1]
    elif c in e.srange and e.srange[c][0] >= -1 and e.srange[c][1] <= 0:
        cand = [P - 1]
    else:
        e.fecc_ob = ob
        if prove_cuts(e, [(f"domain of condition cell {c}", f"(or (= {c} 0) (= {c} 1) (= {c} {P - 1}))")], timeout=timeout):
            raise ChainFail(f"the condition cell {c} of a conditional foreign-field gate is not confined to {{0, 1, -1}} by the system")
        cand = [1, P - 1]
    cls = next((cl for cl, nm in e.vars.items() if nm == c), None)
    for v in cand:
        if honest_c == v:
            vals[v] = True
            continue
        ff_ = f"(not (= {c} {v}))"
        r = solvers.solve(sliced_text(e, ff_, 8) + f"(assert (= {c} {v}))\n", timeout=10 if len(cand) > 1 else 5)
        ob.queries += 1
        ob.solver_s += r.time_s
        if r.status == "unsat":
            continue
        vals[v] = False     # a model of a slice is no witness; reachability comes from honest runs below
        if not vals[v]:
            for h in _alt_honest(e, extra_info):
                if h.get(cls) == v:
                    vals[v] = True
                    break
    if len(cand) == 2 and len(vals) <= 1:
        # proved: c in {0, 1} or c in {0, -1} (or c = 0)
        if 1 in vals or not vals:
            e.set_bound(c, 2)
            e.lines.append(f"(assert (or (= {c} 0) (= {c} 1)))")
        else:
            e.srange[c] = (-1, 0)
            e.sexpr[c] = f"(ite (= {c} 0) 0 (- 1))"
            e.lines.append(f"(assert (or (= {c} 0) (= {c} {P - 1})))")
    cache[c] = vals
    return vals


def run_chain_ecc(e, ob, extra_info, timeout=60):
    P = e.P
    m, base, n = params(e)
    moduli = [int(x) for x in extra_info["moduli"]]
    groups = ffchain.group_ff_gates(e.skipped, moduli, P)
    leftovers = [g for g in e.skipped if (g["gate"].rsplit(":", 1)[0], g["row"]) not in groups]
    if leftovers:
        raise ChainFail(f"skipped gates that are not foreign-field groups: {[g['gate'] for g in leftovers][:3]}")
    e.fecc_ob = ob
    honest = e.s.honest_assign()
    hon_of = {nm: honest.get(cl, 0) for cl, nm in e.vars.items()}
    records = []
    e.fecc_groups = []
    # classify: common factor atom of every monomial of every polynomial of the group
    plain, cond_groups = [], {}
    for key, polys in sorted(groups.items(), key=lambda kv: kv[0][1]):
        common = None
        for g in polys:
            for mono in ffchain.poly_of_gate(e, g).d:
                common = set(mono) if common is None else (common & set(mono))
        common = common or set()
        if len(common) > 1:
            raise ChainFail(f"{key}: more than one common factor cell {sorted(common)}")
        if common:
            cond_groups.setdefault(next(iter(common)), []).append(key)
        else:
            plain.append(key)

    link_stats = {}

    def run_view(keys, subst, guard, keep=lambda key: True):
        """original chain on the groups `keys` under substitution; returns {key: R}. The hypothesis lines the
        chain states (E = 0, R = m*t / single-block residue form) are kept for the groups selected by `keep`."""
        gates = [g for k in keys for g in groups[k]]
        view = View(e, gates, subst)
        _tls.collector = []
        try:
            recs = _orig_run_chain(view, ob, extra_info, timeout=timeout)
            col = _tls.collector
        finally:
            _tls.collector = None
        order = [r[1] for r in recs if r[0] == "E"]
        if len(order) != len(col) or len(col) != len(keys):
            raise ChainFail("internal: lifted polynomials and groups do not line up")
        Rs = {}
        for tag, R in zip(order, col):
            nm, row = tag.rsplit("@", 1)
            Rs[(nm, int(row))] = R
        if all(keep(k) for k in keys):
            for ln in view.lines:
                if not (ln.startswith("(assert ") and ln.endswith(")")):
                    raise ChainFail("internal: unexpected line from the chain")
                inner = ln[len("(assert "):-1]
                e.lines.append(f"(assert (=> {guard} {inner}))" if guard != "true" else ln)
        elif any(keep(k) for k in keys):
            raise ChainFail("internal: mixed keep/drop in one chain call")
        records.extend((a, b if guard == "true" else f"{b} [{guard}]", c_, d) for a, b, c_, d in recs)
        for a, b, c_, d in recs:
            if "@" in str(b) and a[0] in "AC" and isinstance(d, (int, float)):
                nm_, row_ = b.rsplit("@", 1)
                st = link_stats.setdefault(((nm_, int(row_)), guard), [0, 0.0, set()])
                st[0] += 1
                st[1] += d
                st[2].add(c_)
        return Rs

    def is_ec(key):
        return any(pat in key[0] for pat in KIND_OF_NAME)
    # candidate limb vectors: every window of n consecutive exposed cells that are limb-bounded (junk windows
    # are filtered per group: a vector must lie inside the group and be aligned with its coefficients)
    pool = []

    def add_vec(v):
        if v not in pool and not any(isinstance(x, int) for x in v):
            pool.append(v)
    for atoms in ([e.v(cc) for cc in e.s.ins], [e.v(cc) for cc in e.s.outs]):
        for i in range(0, len(atoms) - n + 1):
            v = tuple(atoms[i:i + n])
            if all(not isinstance(x, int) and e.bound(x) <= base for x in v):
                add_vec(v)

    def linear_lemmas(entries):
        # residue-level restatement of purely linear groups (normalisations): R == sum kk*val(vector) + const
        # (mod m) coefficient-wise (ground), hence the same congruence on residues. Saves the main query the
        # large-coefficient integer reasoning; R = m*t itself stays in place.
        for key, R, guard, s, vac in entries:
            if guard != "true" or any(len(k) > 1 for k in R):
                continue
            dd = decompose_linear(e, {k[0]: c for k, c in R.items() if k}, R.get((), 0), pool)
            if dd is None:
                continue
            dec, c0 = dd
            r = lincomb(e, sorted(((kk, res(e, v)) for kk, v in dec), key=lambda t: str(t[1])), c0 - sum(kk for kk, _ in dec))
            e.lines.append(f"(assert (= {r if not isinstance(r, int) else I(r)} 0))")
            records.append(("L", f"{key[0]}@{key[1]}", "linear group on residues: " + " ".join(f"{kk:+d}*res(v{pool.index(v)})" for kk, v in dec), 0))
            # lemma cut for zero tests of a well-formed vector z of the group (zero has a unique well-formed
            # representation):  z is limb-wise the representation of zero  <=>  the rest of the group sums to 0 mod m
            lb = int(e.extra["log2_base"])
            msl = m.bit_length() - (n - 1) * lb
            zl = [((m - 1) >> (lb * i)) & ((1 << lb) - 1) for i in range(n)]
            for kk, v in dec:
                if kk not in (1, -1) or v not in getattr(e, "_fecc_newvecs", ()) or not all(e.bound(a) <= (1 << (lb if i < n - 1 else msl)) for i, a in enumerate(v)):
                    continue
                others = sorted(((-kk * k2, res(e, v2)) for k2, v2 in dec if v2 != v), key=lambda t: str(t[1]))
                rr = lincomb(e, others, -kk * (c0 - sum(k2 for k2, _ in dec)))     # res(v) == rr (mod m)
                e.zero_rep_lemma(list(v))
                zeq = "(and " + " ".join(f"(= {a} {zl[i]})" for i, a in enumerate(v)) + ")"
                sem = f"(= {rr if not isinstance(rr, int) else I(rr)} 0)"
                miss = prove_cuts(e, [(f"zero-test of v{pool.index(v)} in {key[0]}@{key[1]}", f"(= {zeq} {sem})")], timeout=max(10, timeout // 3))
                records.append(("Z", f"{key[0]}@{key[1]}", f"zero-test cut for v{pool.index(v)}: {'not proved' if miss else 'proved'}", 0))
                if not miss:
                    b = discover_bit(e, ob, v, zl, zeq, sem, hon_of, extra_info, timeout)
                    records.append(("Z", f"{key[0]}@{key[1]}", f"bit cell deciding the zero test of v{pool.index(v)}: {b}", 0))


    todo = []      # (key, R, guard, s, vacuity)
    # for the EC groups the chain's own hypothesis lines (E = 0 over 256-bit coefficients, R = m*t) are not
    # handed on: the residue form below says the same modulo m (dropping hypotheses is sound)
    for sel in (lambda k: not is_ec(k), is_ec):
        ks = [k for k in plain if sel(k)]
        if ks:
            Rs = run_view(ks, {}, "true", keep=lambda k: not is_ec(k))
            for k in ks:
                todo.append((k, Rs[k], "true", 1, True))
            if not is_ec(ks[0]):
                # before the condition cells are analysed: their domain follows from the zero-test bits
                linear_lemmas([t_ for t_ in todo if t_[0] in ks])
    for c, keys in cond_groups.items():
        vals = cond_values(e, ob, c, hon_of.get(c), timeout, extra_info)
        if not vals:
            # solver: cond = 0 in every accepted assignment of THIS operation: the group states nothing here
            records.append(("G", f"{keys}", f"condition cell {c} is 0 in every accepted assignment: gate never enabled in this operation", 0))
            continue
        for v, vac in vals.items():
            s = 1 if v == 1 else -1
            guard = f"(= {c} {v})"
            for sel in (lambda k: not is_ec(k), is_ec):
                ks = [k for k in keys if sel(k)]
                if ks:
                    Rs = run_view(ks, {c: v}, guard, keep=lambda k: not is_ec(k))
                    for k in ks:
                        todo.append((k, Rs[k], guard, s, vac))
    # ---- (G): recognition. pass 1: vectors from product blocks of every group -----------------------
    peeled = {}
    fieldchip = ("Foreign-field multiplication", "Foreign-field normalization")
    for key, R, guard, s, vac in todo:
        nm = key[0]
        kind = next((kd for pat, kd in KIND_OF_NAME.items() if pat in nm), None)
        if kind is None:
            if nm in fieldchip or not any(len(k) == 2 for k in R):
                continue
            # a gate group of unknown name with products: try to recognise it as one of the four identities
            try:
                peeled[(key, guard)] = peel(R, base, n, m)
            except ChainFail:
                continue
        else:
            try:
                blocks, lin = peel(R, base, n, m)
            except ChainFail as cf:
                _gob(ob, key, guard, kind).set(core.INCONCLUSIVE, f"lifted polynomial not recognised: {cf}")
                raise ChainFail(f"{nm}@{key[1]} [{guard}]: {cf}")
            peeled[(key, guard)] = (blocks, lin)
        blocks, lin = peeled[(key, guard)]
        for coef, FA, FB in blocks:
            for F in (FA, FB):
                for v in vectors_of_form(F, n):
                    add_vec(v)
    # pass 2: vectors occurring only linearly: what is left after removing pool vectors, per multiplier
    for (key, guard), (blocks, lin) in peeled.items():
        rest = dict(lin)
        for v in pool:
            if all(a in rest and rest[a] is not None for a in v):
                kks = {rest[a][0] for a in v}
                if len(kks) == 1 and [rest[a][1] for a in v] == list(range(n)):
                    for a in v:
                        del rest[a]
        by = {}
        for a, ke in rest.items():
            if ke is not None:
                by.setdefault(ke[0], []).append((ke[1], a))
        for kk, lst in by.items():
            lst.sort()
            if len(lst) == n and [ex for ex, _ in lst] == list(range(n)):
                add_vec(tuple(a for _, a in lst))
    # pass 3: compare with the textbook identity, emit the residue-form hypothesis
    for key, R, guard, s, vac in todo:
        nm, row = key
        if (key, guard) not in peeled:
            continue
        kind = next((kd for pat, kd in KIND_OF_NAME.items() if pat in nm), None)
        blocks, lin = peeled[(key, guard)]
        qc = []
        for coef, FA, FB in blocks:
            for F in (FA, FB):
                for v in vectors_of_form(F, n):
                    if v not in qc:
                        qc.append(v)
        lc = [v for v in pool if all(a in lin and lin[a] is not None for a in v)
              and len({lin[a][0] for a in v}) == 1 and [lin[a][1] for a in v] == list(range(n))]
        cands = qc + [v for v in lc if v not in qc]
        t0 = time.time()
        if kind is None:
            # unknown gate name: whichever identity matches (none: the group is left to the plain chain)
            for kd in TEMPLATES:
                if match_identity(e, kd, R, qc, lc, s):
                    kind = kd
                    break
            if kind is None:
                continue
        gob = _gob(ob, key, guard, kind)
        found = match_identity(e, kind, R, qc, lc, s)
        if not found:
            det = (f"the lifted polynomial of {nm}@{row} [{guard}] is not +-(textbook {kind} identity) over any choice of its own limb vectors "
                   f"({len(cands)} candidate vectors, {len(R)} monomials)")
            gob.set(core.INCONCLUSIVE, det)
            raise ChainFail(det)
        asg0, sg0 = found[0]
        terms, const = identity_terms(e, kind, asg0, s)
        r = lincomb(e, terms, const)
        hyp = f"(= {r if not isinstance(r, int) else I(r)} 0)"
        e.lines.append(f"(assert (=> {guard} {hyp}))" if guard != "true" else f"(assert {hyp})")
        rec = dict(kind=kind, name=nm, row=row, guard=guard, s=s, assignments=[a for a, _ in found], blocks=len(peeled[(key, guard)][0]))
        e.fecc_groups.append(rec)
        records.append(("G", f"{nm}@{row} [{guard}]", f"textbook {kind} identity (s={s}), {len(found)} role assignment(s)", round(time.time() - t0, 2)))
        gob.vacuity = bool(vac)
        gob.sample = dict(kind=kind, s=s, guard=guard, blocks=rec["blocks"], candidates=len(cands), monomials=len(R),
                          roles={k_: list(v_)[:2] + ["..."] for k_, v_ in asg0.items()})
        st = link_stats.get((key, guard), [0, 0.0, set()])
        gob.queries, gob.solver_s = st[0], st[1]
        gob.set(core.HOLDS, solver="+".join(sorted(st[2])) or "ground")
    # ---- raw modular rows of the conditional groups, for the counterexample search of cengine.decide ----
    # decide() re-encodes every skipped gate with Enc.constraint and keeps those lines aside (they constrain
    # the private quotient cells; models must respect them). The generic encoding of cond*Q would create new
    # degree-3 product atoms; here the rows are emitted per reachable value of the condition cell over the
    # product atoms the chain already uses:  cond = v  =>  Q(v) == 0 (mod p).  (cond = 0: nothing to state.)
    cmap = {}
    for c, keys in cond_groups.items():
        for k in keys:
            for g in groups[k]:
                cmap[id(g["poly"])] = (c, list(e._fecc_cond[c]))
    orig_constraint = e.constraint

    def constraint(poly, monomial_mode=False):
        info = cmap.get(id(poly))
        if info is None:
            return orig_constraint(poly, monomial_mode)
        c, vals = info
        for v in vals:
            ip = ffchain.poly_of_gate(View(e, [], {c: v}), {"poly": poly})
            terms, const = [], 0
            for mono, k in ip.d.items():
                if not mono:
                    const += k
                elif len(mono) == 1:
                    terms.append((k, mono[0]))
                else:
                    terms.append((k, e.fmul(mono[0], mono[1])))
            f = e.modeq(terms, const, as_bool=True)
            e.lines.append(f"(assert (=> (= {c} {v}) {f}))")
    e.constraint = constraint
    e.fecc_chain_ok = True
    if os.environ.get("FECC_DEBUG"):
        for r_ in records:
            if r_[0] in ("G", "L", "H") or (isinstance(r_[3], float) and r_[3] > 2):
                print("   fecc", r_, flush=True)
    return records


_TOK = __import__("re").compile(r"[A-Za-z_][\w.]*")
_KW = {"assert", "and", "or", "not", "ite", "true", "false", "let", "mod", "div", "abs", "Int", "Bool", "xor", "distinct",
       "declare", "const", "define", "fun", "bvuge", "concat", "b0", "b1"}


def _syms(line):
    return set(_TOK.findall(line)) - _KW


def sliced_text(e, formula, depth, fanout=3):
    """A slice of the hypotheses relevant to `formula`: starting from its symbols, repeatedly (depth times)
    follow non-implication assertions that touch a kept symbol and bring in at most `fanout` new symbols
    (sum / product / quotient definitions, gadget rows, limb-wise sums; NOT a residue definition reached from
    the residue, nor a range-check decomposition reached from the limb it decomposes). Finally every assertion
    speaking only about kept symbols is included, plus all declarations. Dropping assertions only weakens the
    hypotheses: unsat of the slice implies unsat of the full query."""
    idx = getattr(e, "_fecc_idx", None)
    if idx is None or idx[0] != len(e.lines):
        per = [(_syms(l) if l.startswith("(assert") else None) for l in e.lines]
        small = {}
        for i, (l, sy) in enumerate(zip(e.lines, per)):
            if sy and len(sy) <= 40 and not l.startswith("(assert (=>"):
                for a in sy:
                    small.setdefault(a, []).append(i)
        idx = e._fecc_idx = (len(e.lines), per, small)
    _, per, small = idx
    keep = _syms(formula)
    chosen = set()
    frontier = set(keep)
    for _ in range(depth):
        new = set()
        for a in frontier:
            for j in small.get(a, ()):
                if j not in chosen and len(per[j] - keep - new) <= fanout:
                    chosen.add(j)
                    new |= per[j] - keep
        if not new:
            break
        keep |= new
        frontier = new
    out = []
    for i, (l, sy) in enumerate(zip(e.lines, per)):
        if sy is None:
            if not l.startswith(";"):
                out.append(l)
        elif not sy or i in chosen or sy <= keep:
            out.append(l)
    return "(set-logic ALL)\n" + "\n".join(out) + "\n"


def prove_cuts(e, cuts, timeout=60):
    """Lemma cuts: every formula of `cuts` [(label, SMT Bool)] that the solver proves from the current
    hypotheses (system, chain hypotheses, earlier cuts) is asserted, so that the operation's main query
    only has to combine them. A formula that is not proved is simply not asserted (the main query then has
    to find it out itself or produce the counterexample). Each cut is first tried on slices of the
    hypotheses (sound: fewer hypotheses), then on all of them. Returns the labels that were not proved."""
    ob = getattr(e, "fecc_ob", None)
    missing = []
    for label, f in cuts:
        if f in ("true",):
            continue
        st, t0 = "unknown", time.time()
        for depth, tmo in ((6, min(10, max(5, timeout // 6))), (16, min(20, max(5, timeout // 3))), (None, timeout)):
            q = e.text([]) if depth is None else sliced_text(e, f, depth)
            r = solvers.solve(q + f"(assert (not {f}))\n", timeout=tmo)
            if ob is not None:
                ob.queries += 1
                ob.solver_s += r.time_s
            if os.environ.get("FECC_DEBUG"):
                print(f"   fecc cut {label} [depth {depth}, {q.count(chr(10))} lines]: {r.status} {r.solver} {r.time_s:.1f}s", flush=True)
            if r.status == "unsat":
                st = "unsat"
                break
            if r.status == "sat" and depth is None:
                st = "sat"
        if st == "unsat":
            e.lines.append(f"(assert {f})")
        else:
            missing.append(label)
    return missing


def discover_bit(e, ob, vec, zl, zeq, sem, hon_of, extra_info, timeout):
    """Find the cell B of the system with  B = 1 <=> (vec is limb-wise the representation of zero)  — the
    output of the chip's zero test of `vec` — and assert  B = 1 <=> sem  once the solver has proved it.
    Candidates: 0/1 cells whose honest value agrees with the test on the primary and the alternative honest
    runs, nearest (in symbol-sharing distance from the limbs) first. Heuristic search, proved result."""
    runs = [hon_of]
    inv = {nm: cl for cl, nm in e.vars.items()}
    for h in _alt_honest(e, extra_info):
        runs.append({nm: h.get(cl) for nm, cl in inv.items()})
        if len(runs) >= 5:
            break
    want = [int(all(h.get(a) == zl[i] for i, a in enumerate(vec))) for h in runs]
    cands = [b for b in e.vars.values() if e.bound(b) <= 2 or b in e.bool_atoms]
    cands = [b for b in cands if all(h.get(b) == w for h, w in zip(runs, want))]
    # distance from the limbs
    per = [(_syms(l) if l.startswith("(assert") and not l.startswith("(assert (=>") else None) for l in e.lines]
    keep, level = set(vec), {a: 0 for a in vec}
    for d in range(1, 9):
        add = set()
        for sy in per:
            if sy and len(sy) <= 8 and (sy & keep):
                add |= sy - keep
        for a in add:
            level[a] = d
        keep |= add
        if not add:
            break
    cands.sort(key=lambda b: (level.get(b, 99), b))
    # structural first choice: the per-limb tests r_i = [vec_i = zl_i] (is-zero gadget on vec_i - zl_i, stated by
    # Enc.iszero_lemmas) and the cell the Enc knows to be the product of exactly those bits
    lineset = set(e.lines)
    bits = []
    isz = {}
    for l in e.lines:
        if l.startswith("(assert (= ") and l.endswith(" 0) 1 0)))") and "(ite (= " in l:
            parts = l.split()
            isz[parts[5]] = parts[2]        # (assert (= r (ite (= Lv 0) 1 0)))  ->  Lv: r
    for i, a in enumerate(vec):
        got = None
        for it in e.order:
            if it[0] == "mod" and len(it[2]) == 1 and tuple(it[2][0]) == (1, a) and (it[3] + zl[i]) % e.P == 0 and it[1] in isz:
                got = isz[it[1]]
                break
        if got:
            bits.append(got)
    first = []
    if len(bits) == len(vec):
        mk = tuple(sorted(bits))
        cells = set(e.vars.values())
        first = [t for t, mo in e.monos_of.items() if tuple(sorted(mo)) == mk and t in cells
                 and all(h.get(t) == w for h, w in zip(runs, want))]
    ob_ = getattr(e, "fecc_ob", None)
    for b in (first or cands[:4]):
        f = f"(and (or (= {b} 0) (= {b} 1)) (= (= {b} 1) {zeq}))"
        for depth, tmo in ((5, 5), (9, max(5, timeout // 6)), (16, max(5, timeout // 3))) if first else ((9, 5),):
            r = solvers.solve(sliced_text(e, f, depth) + f"(assert (not {f}))\n", timeout=tmo)
            if ob_ is not None:
                ob_.queries += 1
                ob_.solver_s += r.time_s
            if os.environ.get("FECC_DEBUG"):
                print(f"   fecc zero-test bit candidate {b} [depth {depth}]: {r.status} {r.time_s:.1f}s", flush=True)
            if r.status == "unsat":
                e.lines.append(f"(assert (or (= {b} 0) (= {b} 1)))")
                e.lines.append(f"(assert (= (= {b} 1) {zeq}))")
                e.lines.append(f"(assert (= (= {b} 1) {sem}))")
                e.set_bound(b, 2)
                return b
    return None


def search_forged(e, f, label="", timeout=40):
    """Counterexample search for a part `f` of the specification the solver did not prove: every cell is
    pinned to its value in the honest run except the exposed OUTPUT cells mentioned by `f` and the cells that
    share, through up to six steps, an ordinary gate row or a lookup with them (range-check digits, gadget
    intermediates, flags computed from them). Cells of foreign-field gate groups stay pinned, so an output a gate group constrains cannot move.
    Products with one pinned operand are stated exactly. A model is re-checked with exact arithmetic on the
    real constraints and replayed on the real MockProver; only an ACCEPTED forged assignment whose instance
    violates `f` (ground solver query) is returned: dict(overrides, instance) or None."""
    from . import cengine
    S = e.s
    d = S.d
    P = e.P
    ob = getattr(e, "fecc_ob", None)
    honest = S.honest_assign()
    names = {cl: nm for cl, nm in e.vars.items()}
    hon = e.exact_atoms({nm: honest.get(cl, 0) for cl, nm in names.items()})
    outs = [e.v(c) for c in S.outs]
    ins_ = set(a for a in (e.v(c) for c in S.ins) if not isinstance(a, int))
    fs = _syms(f)
    # the formula speaks of residues / sums: unfold derived atoms to the cells they are computed from
    opsof = {}
    for it in e.order:
        if it[0] in ("mul", "mm", "addm"):
            opsof[it[1]] = [a for a in (it[2], it[3]) if not isinstance(a, int)]
        elif it[0] in ("mod", "res"):
            opsof[it[1]] = [a for _, a in it[2] if not isinstance(a, int)]
    todo_, seen = list(fs), set()
    while todo_:
        a = todo_.pop()
        if a in seen:
            continue
        seen.add(a)
        todo_ += opsof.get(a, [])
    F0 = set(a for a in outs if not isinstance(a, int) and a in seen) or set(a for a in outs if not isinstance(a, int))
    skipped = set(id(g) for g in e.skipped)
    rows = []
    for g in d["gates"]:
        if id(g) in skipped or (e.skip_gate is not None and e.skip_gate(g)):
            continue
        rows.append(set(a for _, cells in g["poly"] for a in (e.v(c) for c in cells) if not isinstance(a, int)))
    for lk in d["lookups"]:
        for inp in lk["inputs"]:
            rows.append(set(a for poly in inp["exprs"] for _, cells in poly for a in (e.v(c) for c in cells) if not isinstance(a, int)))
    F = set(F0)
    for _ in range(6):
        add = set()
        for r_ in rows:
            if r_ & F:
                add |= r_
        if not (add - ins_ - F):
            break
        F |= add - ins_
    # pins: class atoms outside F, derived atoms all of whose operands are pinned
    pinned = {nm: hon[nm] for nm in names.values() if nm not in F and nm in hon}
    exact = []
    nq = [0]

    def fq():
        nq[0] += 1
        return f"fq{len(e.lines)}_{nq[0]}"
    decl = []
    for it in e.order:
        kind, t = it[0], it[1]
        if kind == "mul":
            ops = [it[2], it[3]]
        elif kind == "mm":
            ops = [it[2], it[3]]
        elif kind == "mod" or kind == "res":
            ops = [a for _, a in it[2]]
        elif kind == "addm":
            ops = [it[2], it[3]]
        else:
            ops = []
        free_ops = [a for a in ops if not isinstance(a, int) and a not in pinned]
        if not free_ops:
            if t in hon:
                pinned[t] = hon[t]
            continue
        if kind in ("mul", "mm") and len(free_ops) == 1 and ops[0] != ops[1]:
            other = ops[0] if ops[1] == free_ops[0] else ops[1]
            v = other if isinstance(other, int) else pinned[other]
            mod_ = P if kind == "mul" else it[4]
            q = fq()
            decl.append(f"(declare-const {q} Int)")
            exact.append(f"(assert (= (* {I(v)} {free_ops[0]}) (+ {t} (* {mod_} {q}))))")
    pins = [f"(assert (= {n_} {I(v_)}))" for n_, v_ in pinned.items()]
    raw = list(getattr(e, "raw_ff_lines", []))
    atoms = sorted(F)
    free_derived = [it[1] for it in e.order if it[1] not in pinned]
    assign = cls_assign = None
    for rnd in range(5):
        r = solvers.solve(e.text(decl + raw + pins + exact + [f"(assert (not {f}))"]), timeout=timeout, get_values=atoms + free_derived)
        if ob is not None:
            ob.queries += 1
            ob.solver_s += r.time_s
        if os.environ.get("FECC_DEBUG"):
            print(f"   fecc forged-assignment search for '{label}' (round {rnd}): {len(F)} free cells, {r.status} {r.solver} {r.time_s:.1f}s", flush=True)
        if r.status != "sat":
            return None
        assign = {nm: (r.model[nm] % P if nm in F and nm in r.model else hon[nm]) for nm in names.values()}
        assign = e.repair_model(assign)
        cls_assign = {cl: assign[nm] for cl, nm in names.items()}
        for c in S.used_classes():
            cls_assign.setdefault(c, honest.get(c, 0))
        bad = S.check_exact(cls_assign)
        if not bad:
            break
        # exact values of the products the abstract model got wrong: state them (linear in each operand)
        exm = e.exact_atoms(dict(assign))
        wrong = [it for it in e.order if it[0] in ("mul", "mm") and it[1] in r.model and r.model[it[1]] != exm[it[1]]]
        if os.environ.get("FECC_DEBUG"):
            print(f"   fecc forged-assignment search: model violates real constraints {bad[:2]}; {len(wrong)} abstract products wrong", flush=True)
        if not wrong:
            return None
        for it in wrong[:60]:
            t, a, b = it[1], it[2], it[3]
            mod_ = P if it[0] == "mul" else it[4]
            for x, y in ((a, b), (b, a)):
                if isinstance(x, int):
                    continue
                vx = exm[x]
                q = fq()
                decl.append(f"(declare-const {q} Int)")
                yy = I(y) if isinstance(y, int) else y
                exact.append(f"(assert (=> (= {x} {I(vx)}) (= (* {I(vx)} {yy}) (+ {t} (* {mod_} {q})))))")
    else:
        return None
    ex = e.exact_atoms(assign)
    r2 = solvers.solve(e.text([f"(assert (= {n_} {I(v_)}))" for n_, v_ in ex.items()] + [f"(assert {f})"]), timeout=timeout)
    if r2.status != "unsat":
        return None
    ov = {}
    for cell in set(S.honest) | set(S.uf.p):
        if cell[0] in "ai":
            cl = S.cls(cell)
            if cl in names and assign[names[cl]] != hon[names[cl]]:
                ov[cell] = hex(assign[names[cl]] % P)
    xi = e.extra
    k = max(1, int(d["n"]).bit_length() - 1)
    ins = [int(x, 16) for x in xi.get("ins", [])]
    res_, err = cengine.replay("fecc", xi["op"], dict(xi.get("params") or {}), ins, k, ov)
    if os.environ.get("FECC_DEBUG"):
        print(f"   fecc forged-assignment replay on the real MockProver: {res_} {err[:200] if err else ''}", flush=True)
    if not (res_ and res_.get("accepted")):
        return None
    iv = {c: hex(cls_assign.get(S.cls(c), S.const.get(S.cls(c), 0))) for c in S.ins + S.outs}
    return dict(overrides=ov, instance=iv, cx=cengine.cx_args("fecc", xi["op"], dict(xi.get("params") or {}), ins, k), part=label)


def guard_of(e, kind, s=None, **known):
    """SMT Bool: the condition cell of the located group has its enabling value"""
    hits = locate(e, kind, s=s, **known)
    return hits[0][0]["guard"] if hits else None


def _gob(ob, key, guard, kind):
    """the (G) obligation of one gate group (registered on the current run when there is one)"""
    reg = ob.__dict__.setdefault("_fecc_gobs", {})
    k = (key, guard)
    if k in reg:
        return reg[k]
    nm, row = key
    g = core.Ob(f"{ob.id}:G:{kind}@{row}" + ("" if guard == "true" else ":" + ("pos" if guard.endswith(" 1)") else "neg")), "C",
                f"gate group {nm} at row {row}: chain links A-E hold under {guard} and the lifted polynomial is the textbook {kind} identity over the group's own limb vectors",
                functions=[f"ecc::foreign::gates::{kind}"], bound=ob.bound, key=f"{ob.key}:gate:{kind}")
    reg[k] = g
    if RUN is not None:
        RUN.add(g)
    return g
