"""Common bookkeeping for every check: obligations, evidence, known findings, exit codes.

Vocabulary (DESIGN.md section 0):
  HOLDS         solver answered unsat for the negated assertion within the stated bound
                (or a Kani harness came back SUCCESSFUL with unwinding assertions on)
  VIOLATION     the solver's counterexample was replayed against the real code and reproduced
  KNOWN         a VIOLATION whose key is listed in /verif/known_findings.txt
  INCONCLUSIVE  timeout / unknown / solver error / counterexample that does not replay / untranslatable
"""
import json, os, sys, time, threading, hashlib, re

VERIF = os.path.abspath(os.path.join(os.path.dirname(__file__), "..", "..", ".."))
REPO = os.environ.get("VERIF_REPO", "/repo")
BUILD = os.path.join(VERIF, "build")
# runs against another tree (VERIF_REPO) must not overwrite the evidence of the registered checks
EVID = os.path.join(VERIF, "evidence") if os.path.abspath(REPO) == "/repo" else os.path.join(
    BUILD, "shadow", hashlib.sha256(os.path.abspath(REPO).encode()).hexdigest()[:12], "evidence")
REPLAYS = os.path.join(EVID, "replays")

HOLDS, VIOLATION, KNOWN, INCONCLUSIVE = "HOLDS", "VIOLATION", "KNOWN", "INCONCLUSIVE"


def tier():
    return os.environ.get("VERIF_TIER", "quick")


def seed():
    try:
        return int(os.environ.get("VERIF_SEED", "0"))
    except ValueError:
        return 0


class Ob:
    """One obligation (a solver query family with a single verdict)."""

    def __init__(self, oid, engine, what, functions=(), bound="", key=None):
        self.id = oid
        self.engine = engine
        self.what = what
        self.functions = list(functions)
        self.bound = bound
        self.key = key or oid          # role key used to match known findings
        self.status = None
        self.solver = None
        self.solver_s = 0.0
        self.queries = 0
        self.detail = ""
        self.replay = None
        self.vacuity = None            # True when the reachability twin came back sat / cover satisfied
        self.nontrivial = True         # False for ground (variable-free) obligations
        self.sample = None

    def set(self, status, detail="", solver=None, solver_s=None, replay=None):
        self.status = status
        if detail:
            self.detail = detail
        if solver:
            self.solver = solver
        if solver_s is not None:
            self.solver_s = solver_s
        if replay:
            self.replay = replay
        return self

    def to_json(self):
        d = dict(id=self.id, engine=self.engine, what=self.what, functions=self.functions,
                 bound=self.bound, status=self.status, solver=self.solver,
                 solver_s=round(self.solver_s, 3), queries=self.queries, vacuity_witness=self.vacuity)
        if self.detail:
            d["detail"] = self.detail[:600]
        if self.replay:
            d["replay"] = self.replay
        return d


def load_known():
    """known_findings.txt: lines `property=<id> key=<role key> <free text>`; lines starting with
    `fixed:` are historical records and suppress nothing."""
    out = {}
    p = os.path.join(VERIF, "known_findings.txt")
    if not os.path.exists(p):
        return out
    for line in open(p):
        line = line.strip()
        if not line or line.startswith("#") or line.startswith("fixed:"):
            continue
        m = re.match(r"property=(\S+)\s+key=(\S+)\s*(.*)", line)
        if m:
            out[(m.group(1), m.group(2))] = m.group(3)
    return out


class Run:
    def __init__(self, pid, level="model_checking"):
        self.pid = pid
        self.level = level
        self.t0 = time.time()
        self.obs = []
        self.assumptions = []
        self.outside = []
        self.functions = set()
        self.bounds = []
        self.notes = []
        self.translator_validation = []
        self.lock = threading.Lock()
        self.extra = {}
        os.makedirs(REPLAYS, exist_ok=True)

    def add(self, ob):
        with self.lock:
            self.obs.append(ob)
            for f in ob.functions:
                self.functions.add(f)
        return ob

    def log(self, msg):
        print(f"[{self.pid} {time.time() - self.t0:7.1f}s] {msg}", flush=True)

    def write_replay(self, ob, payload):
        name = f"{self.pid}_{re.sub(r'[^A-Za-z0-9_.-]', '_', ob.id)}.json"
        path = os.path.join(REPLAYS, name)
        payload = dict(payload)
        payload.setdefault("property", self.pid)
        payload.setdefault("obligation", ob.id)
        payload.setdefault("key", ob.key)
        with open(path, "w") as f:
            json.dump(payload, f, indent=1)
        return path

    def finish(self):
        known = load_known()
        viol, inconc, kn = [], [], []
        for ob in self.obs:
            if ob.status is None:
                ob.status = INCONCLUSIVE
                ob.detail = ob.detail or "never decided"
            if ob.status == VIOLATION and (self.pid, ob.key) in known:
                ob.status = KNOWN
            if ob.status == KNOWN and (self.pid, ob.key) not in known:
                ob.status = VIOLATION
            if ob.status == VIOLATION:
                viol.append(ob)
            elif ob.status == KNOWN:
                kn.append(ob)
            elif ob.status == INCONCLUSIVE:
                inconc.append(ob)
        holds = [o for o in self.obs if o.status == HOLDS]
        nontriv = {o.id for o in self.obs if o.nontrivial and o.status in (HOLDS, KNOWN, VIOLATION)}
        by_engine, by_solver, solver_s = {}, {}, 0.0
        for o in self.obs:
            by_engine[o.engine] = by_engine.get(o.engine, 0) + 1
            if o.solver:
                by_solver[o.solver] = by_solver.get(o.solver, 0) + 1
            solver_s += o.solver_s
        samples = [o.to_json() for o in (viol + kn + inconc)[:6]]
        import random
        rnd = random.Random(seed())
        pool = [o for o in holds]
        rnd.shuffle(pool)
        samples += [o.to_json() for o in pool[: max(3, 8 - len(samples))]]
        cov = dict(
            evaluations=len(self.obs),
            distinct_nontrivial=len(nontriv),
            rule=("one evaluation = one obligation: a negated assertion over symbolic inputs sent to the "
                  "solver(s) (or one Kani harness). distinct = distinct obligation ids; non-trivial = the "
                  "encoding contains at least one symbolic variable (ground constant checks are counted as "
                  "trivial) and the obligation was decided"),
            samples=samples,
            obligations=len(self.obs),
            discharged=len(holds),
            inconclusive=len(inconc),
            known_findings=len(kn),
            queries=sum(o.queries for o in self.obs),
            solver_time_s=round(solver_s, 2),
            by_engine=by_engine,
            by_solver=by_solver,
            functions_encoded=sorted(self.functions),
            bounds=self.bounds,
            outside_the_claim=self.outside,
            vacuity_witnesses=sum(1 for o in self.obs if o.vacuity),
            translator_validation=self.translator_validation,
            all_obligations=[dict(id=o.id, status=o.status, solver=o.solver, s=round(o.solver_s, 2)) for o in self.obs],
            explanation=(f"{len(holds)} of {len(self.obs)} obligations decided HOLDS ({len(kn)} known findings, {len(viol)} violations, "
                         f"{len(inconc)} inconclusive) by {', '.join(sorted(by_solver)) or 'no solver'}; deciding step = solver verdict over all values "
                         f"within the stated bounds, never sampling. " + " ".join(self.notes)
                         + (" OUTSIDE THE CLAIM: " + "; ".join(self.outside) if self.outside else "")),
            exhaustive=False,
        )
        cov.update(self.extra)
        ev = dict(property_id=self.pid, tier=tier(), seed=seed(), level=self.level, coverage=cov,
                  assumptions=self.assumptions, wall_s=round(time.time() - self.t0, 2),
                  violations=len(viol))
        os.makedirs(EVID, exist_ok=True)
        with open(os.path.join(EVID, f"{self.pid}.json"), "w") as f:
            json.dump(ev, f, indent=1)
        for o in kn:
            print(f"KNOWN-FINDING: property={self.pid} {o.key} {known.get((self.pid, o.key), '')} [{o.id}]")
        for o in inconc:
            print(f"INCONCLUSIVE property={self.pid} obligation={o.id}: {o.detail[:300]}")
        for o in viol:
            print(f"VIOLATION property={self.pid} replay={o.replay or 'none'}")
            print(f"  obligation={o.id} key={o.key}: {o.detail[:400]}")
        print(f"[{self.pid}] obligations={len(self.obs)} holds={len(holds)} known={len(kn)} "
              f"violations={len(viol)} inconclusive={len(inconc)} wall={time.time() - self.t0:.1f}s")
        if viol:
            return 1
        if inconc:
            return 2
        return 0


def stable_hash(s):
    return hashlib.sha256(s.encode()).hexdigest()[:12]


def crate_dirs(rel_crate_dir, name=None):
    """(crate_dir, target_dir) for an out-of-tree engine crate whose Cargo.toml has path deps on /repo.

    Default: the crate as committed and /verif/build/<name>. When VERIF_REPO points somewhere else
    (a scratch worktree with a candidate change applied) a shadow copy of the crate is made under
    /verif/build/shadow/<tag>/ with every `/repo/` in Cargo.toml rewritten, and its own target dir, so
    several trees can be checked concurrently without touching /repo."""
    src = os.path.join(VERIF, rel_crate_dir)
    name = name or os.path.basename(rel_crate_dir.rstrip("/"))
    if os.path.abspath(REPO) == "/repo":
        return src, os.path.join(BUILD, name)
    tag = stable_hash(os.path.abspath(REPO))
    dst = os.path.join(BUILD, "shadow", tag, name)
    os.makedirs(dst, exist_ok=True)
    for f in os.listdir(src):
        s, d = os.path.join(src, f), os.path.join(dst, f)
        if f in ("target",):
            continue
        if f == "Cargo.toml":
            txt = open(s).read().replace('"/repo/', '"' + os.path.abspath(REPO) + '/')
            if not os.path.exists(d) or open(d).read() != txt:
                open(d, "w").write(txt)
        elif f == "Cargo.lock":
            import shutil
            shutil.copyfile(s, d)
        elif not os.path.lexists(d):
            os.symlink(s, d)
    return dst, os.path.join(BUILD, "shadow", tag, name + "-target")
