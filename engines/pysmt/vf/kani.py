"""Engine K driver: run Kani harnesses of an out-of-tree harness crate and turn each into one obligation.

INTERFACE (stable; used by the C10/C11/C12 parts and by other builders' harness crates)
=====================================================================================

    from vf import kani
    kani.run_harnesses(run, "engines/kani/<crate>", SPECS, jobs=None, kani_flags=("-Z", "stubbing"),
                       name=None, replay_bin="replay", mem_kb=12*1024*1024)

`SPECS` is a list of dicts (or `kani.H(...)` which builds the dict), one per `#[kani::proof]` harness:

    harness    fully qualified harness name as `cargo kani --exact` wants it, e.g. "c10::jfr_from_repr"
    oid        obligation id                      what   one-sentence statement of the obligation
    functions  list of repo functions exercised   bound  the bound string printed in evidence
    key        stable role key (known findings are matched on (property, key))
    timeout    seconds, int or {"quick": n, "thorough": m}   (default 300 / 1800)
    tiers      tuple of tiers in which the harness runs      (default ("quick", "thorough"))
    flags      extra `cargo kani` flags for this harness (list)
    est        estimated seconds (scheduling only: longest first)
    min_covers minimum number of `kani::cover!` properties that must exist (default 1); ALL covers of
               the harness must be SATISFIED, otherwise the harness is INCONCLUSIVE (vacuity)
    stubs      informational list of stubbed functions; the list Kani prints is recorded as well
    replay     False => a FAILED harness is reported INCONCLUSIVE (no native replay exists for it)
    replay_bin (optional, set on the dict) name of another replay binary of the crate for this harness (the curves
               crate has `replay_real`: same protocol, real FFI instead of scripted oracles)

Verdicts (brief, section "The one technique allowed"):
    HOLDS         `VERIFICATION:- SUCCESSFUL`, 0 failed checks, unwinding assertions on (Kani default;
                  `--no-unwinding-checks` in flags is refused), every cover SATISFIED (ob.vacuity = True)
    VIOLATION     `VERIFICATION:- FAILED` with at least one failed check that is not an unwinding
                  assertion / unsupported construct, AND the concrete counterexample obtained with
                  `-Z concrete-playback --concrete-playback=print` reproduces in the native replay
                  binary of the crate (dev or release profile). The replay file stores harness name,
                  crate, the concrete values, the failed checks and the generated playback test.
    INCONCLUSIVE  timeout, memory limit, `Status: ERROR`, CBMC crash, unwinding assertion failure, unsupported
                  construct reached, cover not satisfied, no counterexample printed, counterexample that
                  does not reproduce natively, build failure.

Process model (measured on the curves crate, Kani 0.68): the crate is built ONCE
(`cargo kani --only-codegen`, ~25 s cold, target dir `<target>/base`), the target dir (~120 MB) is cloned
per worker slot (0.2 s) and each worker runs `cargo kani --harness <h> --exact` in its own slot
(`--target-dir <target>/slot-<pid>-<k>`; `base` is protected by a file lock so that several checks can share a crate; selecting another harness recompiles only the harness crate, 1-3 s).
One `cargo kani -j N` invocation is equally fast but gives no per-harness timeout/memory limit and
interleaves output, so it is not used. Every process runs under `ulimit -v <mem_kb>` and `timeout`.

NATIVE REPLAY PROTOCOL (what a harness crate must provide so that FAILED can become VIOLATION)
    a binary target `<replay_bin>` built by plain `cargo build [--release] --bin <replay_bin>` in the crate
    dir, called as    <replay_bin> <harness> <v0,v1,...>     where v_i is the hex of the i-th concrete value
    (little-endian bytes exactly as in Kani's `concrete_vals`; empty string if there are none). It must run
    the SAME harness body with `any()` popping those values (and FFI stubs, if any, answering from them) and
    exit with    1 = an assertion/panic of the harness fired (reproduced)    0 = ran to completion
    3 = an assumption was violated / values desynchronised    4 = unknown harness.
    See /verif/engines/kani/curves/src/vk.rs + src/bin/replay.rs for a reference implementation.

`kani.native_tool(crate_rel_dir, bin, args)` builds and runs any other native binary of the crate (real-FFI witnesses).
`kani.replay(payload)` re-executes a stored replay file (used by `check <ID> --replay`), returns 1 if it reproduces.
"""
import os, re, json, time, shutil, subprocess, threading, queue, fcntl

from . import core

DEFAULT_TIMEOUT = {"quick": 300, "thorough": 1800}
TOOL_FAILURE_PAT = re.compile(
    r"unwinding assertion|is not currently supported by Kani|not currently supported|foreign function|"
    r"Unsupported|unsupported|recursion unwinding|reachability|call to foreign", re.I)


def H(harness, oid, what, functions=(), bound="", key=None, timeout=None, tiers=("quick", "thorough"),
      flags=(), est=10, min_covers=1, stubs=(), replay=True, oracle_scenario=None, oracle_fallback=None, scenario_bin=None):
    """Build a harness spec dict (see module docstring)."""
    return dict(harness=harness, oid=oid, what=what, functions=list(functions), bound=bound, key=key or oid,
                timeout=timeout, tiers=tuple(tiers), flags=list(flags), est=est, min_covers=min_covers,
                stubs=list(stubs), replay=replay, oracle_scenario=oracle_scenario, oracle_fallback=oracle_fallback,
                scenario_bin=scenario_bin)


def _timeout_of(spec):
    t = spec.get("timeout")
    if t is None:
        return DEFAULT_TIMEOUT[core.tier()] if core.tier() in DEFAULT_TIMEOUT else 300
    if isinstance(t, dict):
        return t.get(core.tier(), t.get("quick", 300))
    return int(t)


def _env():
    e = dict(os.environ)
    e["CARGO_NET_OFFLINE"] = "true"
    e["CARGO_INCREMENTAL"] = "0"   # cloned target dirs + incremental caches race ("failed to move dependency graph")
    e.pop("RUSTFLAGS", None)
    return e


def _sh(cmd, cwd, timeout, mem_kb, log_path=None):
    """Run `cmd` (list) under ulimit -v and timeout(1); returns (rc, output, seconds). rc 124 = timeout."""
    quoted = " ".join("'" + c.replace("'", "'\\''") + "'" for c in cmd)
    script = f"ulimit -v {int(mem_kb)}; exec timeout -k 10 {int(timeout)} {quoted}"
    t0 = time.time()
    p = subprocess.run(["bash", "-c", script], cwd=cwd, env=_env(), stdout=subprocess.PIPE,
                       stderr=subprocess.STDOUT, text=True, errors="replace")
    dt = time.time() - t0
    if log_path:
        try:
            with open(log_path, "w") as f:
                f.write(p.stdout)
        except OSError:
            pass
    return p.returncode, p.stdout, dt


def parse_output(out):
    """Parse the output of ONE `cargo kani --harness h --exact --output-format terse` run."""
    r = dict(successful="VERIFICATION:- SUCCESSFUL" in out, failed="VERIFICATION:- FAILED" in out,
             n_failed=None, n_checks=None, covers_sat=None, covers_total=None, failed_checks=[],
             unwinding=False, unsupported=False, status_error=("Status: ERROR" in out), stubs=[],
             verification_time=None, undetermined=0, compile_error=False)
    m = re.search(r"\*\* (\d+) of (\d+) failed(?: \(([^)]*)\))?", out)
    if m:
        r["n_failed"], r["n_checks"] = int(m.group(1)), int(m.group(2))
        mu = re.search(r"(\d+) undetermined", m.group(3) or "")
        if mu:
            r["undetermined"] = int(mu.group(1))
    m = re.search(r"\*\* (\d+) of (\d+) cover properties satisfied", out)
    if m:
        r["covers_sat"], r["covers_total"] = int(m.group(1)), int(m.group(2))
    for m in re.finditer(r"^Failed Checks: (.*)\n(?:\s*File: \"([^\"]*)\", line (\d+), in (.*)\n)?", out, re.M):
        r["failed_checks"].append(dict(description=m.group(1).strip(), file=m.group(2), line=m.group(3),
                                       function=(m.group(4) or "").strip()))
    r["unwinding"] = bool(re.search(r"unwinding assertion|unwinding failures", out))
    r["unsupported"] = bool(re.search(r"is not currently supported by Kani|reached unsupported|call to foreign \"C\" function", out))
    r["stubs"] = sorted(set(re.findall(r"- Stub: (.*)", out)))
    m = re.search(r"Verification Time: ([0-9.]+)s", out)
    if m:
        r["verification_time"] = float(m.group(1))
    if re.search(r"^error(\[E\d+\])?:", out, re.M) and not (r["successful"] or r["failed"]):
        r["compile_error"] = True
    return r


def parse_playback(out):
    """All concrete playback tests Kani printed: list of dict(check_kind, check, vals=[[bytes]], text)."""
    tests = []
    for m in re.finditer(r"```\n(.*?)```", out, re.S):
        text = m.group(1)
        if "concrete_vals" not in text:
            continue
        km = re.search(r"Check for `([^`]*)`: (.*)", text)
        body = re.search(r"vec!\[\n(.*?)\n\s*\];", text, re.S)
        vals = []
        if body:
            for vm in re.finditer(r"^\s*vec!\[([^\]]*)\],?\s*$", body.group(1), re.M):
                s = vm.group(1).strip()
                vals.append([int(x) for x in s.split(",") if x.strip()] if s else [])
        tests.append(dict(check_kind=km.group(1) if km else "", check=km.group(2).strip() if km else "",
                          vals=vals, text=text))
    return tests


def vals_to_arg(vals):
    return ",".join("".join(f"{b:02x}" for b in v) for v in vals)


class _Crate:
    def __init__(self, rel_dir, name, kani_flags, replay_bin, mem_kb):
        self.rel_dir = rel_dir
        self.crate_dir, self.target_dir = core.crate_dirs(rel_dir, name)
        self.kani_flags = list(kani_flags)
        self.replay_bin = replay_bin
        self.mem_kb = mem_kb
        self.logs = os.path.join(self.target_dir, "logs")
        os.makedirs(self.logs, exist_ok=True)
        self._native_lock = threading.Lock()
        self._native = {}

    def base(self):
        return os.path.join(self.target_dir, "base")

    def slot(self, k):
        # per-process names: several checks (C10, C11, C12 ...) may run concurrently on the same crate
        return os.path.join(self.target_dir, f"slot-{os.getpid()}-{k}")

    def locked(self):
        """Exclusive lock on the shared `base` target dir (codegen + cloning)."""
        os.makedirs(self.target_dir, exist_ok=True)
        f = open(os.path.join(self.target_dir, ".base.lock"), "w")
        fcntl.flock(f, fcntl.LOCK_EX)
        return f

    def codegen(self, harnesses, timeout=1200):
        cmd = ["cargo", "kani", "--target-dir", self.base()] + self.kani_flags + ["--only-codegen", "--exact"]
        for h in harnesses:
            cmd += ["--harness", h]
        return _sh(cmd, self.crate_dir, timeout, self.mem_kb, os.path.join(self.logs, "_codegen.log"))

    def clone_slots(self, n):
        for k in range(n):
            s = self.slot(k)
            shutil.rmtree(s, ignore_errors=True)
            subprocess.run(["cp", "-a", self.base(), s], check=True)

    def kani(self, slot, harness, flags, timeout, tag=""):
        cmd = ["cargo", "kani", "--target-dir", self.slot(slot)] + self.kani_flags + [
            "--harness", harness, "--exact", "--output-format", "terse"] + list(flags)
        log = os.path.join(self.logs, re.sub(r"[^A-Za-z0-9_.-]", "_", harness) + tag + ".log")
        return _sh(cmd, self.crate_dir, timeout, self.mem_kb, log)

    def native_bin(self, profile, replay_bin=None):
        """Build (once per run) and return the path of the native replay binary for `profile`."""
        replay_bin = replay_bin or self.replay_bin
        with self._native_lock:
            if (profile, replay_bin) in self._native:
                return self._native[(profile, replay_bin)]
            tdir = os.path.join(self.target_dir, "native")
            cmd = ["cargo", "build", "--offline", "--bin", replay_bin, "--target-dir", tdir]
            if profile == "release":
                cmd.append("--release")
            rc, out, dt = _sh(cmd, self.crate_dir, 1200, 32 * 1024 * 1024,
                              os.path.join(self.logs, f"_native_{profile}.log"))
            path = os.path.join(tdir, "release" if profile == "release" else "debug", replay_bin)
            res = (path if rc == 0 and os.path.exists(path) else None, out[-1500:] if rc else "")
            self._native[(profile, replay_bin)] = res
            return res

    def run_scenario(self, args, profiles=("debug", "release"), replay_bin=None):
        per = {}
        for prof in profiles:
            path, err = self.native_bin(prof, replay_bin)
            if not path:
                per[prof] = dict(rc=None, out="native build failed: " + err[-400:])
                continue
            try:
                p = subprocess.run([path, "--scenario"] + list(args), stdout=subprocess.PIPE, stderr=subprocess.STDOUT,
                                   text=True, errors="replace", timeout=120, env=_env())
                per[prof] = dict(rc=p.returncode, out=p.stdout[-1200:])
            except subprocess.TimeoutExpired:
                per[prof] = dict(rc=None, out="native replay timed out")
        return per

    def run_native(self, harness, vals, profiles=("debug", "release"), replay_bin=None):
        """-> (reproduced: bool, detail: str, per_profile: dict)"""
        per = {}
        for prof in profiles:
            path, err = self.native_bin(prof, replay_bin)
            if not path:
                per[prof] = dict(rc=None, out="native build failed: " + err[-400:])
                continue
            try:
                p = subprocess.run([path, harness, vals_to_arg(vals)], stdout=subprocess.PIPE, stderr=subprocess.STDOUT,
                                   text=True, errors="replace", timeout=120, env=_env())
                per[prof] = dict(rc=p.returncode, out=p.stdout[-1200:])
            except subprocess.TimeoutExpired:
                per[prof] = dict(rc=None, out="native replay timed out")
        rep = [k for k, v in per.items() if v["rc"] == 1]
        detail = "; ".join(f"{k}: rc={v['rc']} {v['out'].strip().splitlines()[-1] if v['out'].strip() else ''}"
                           for k, v in per.items())
        return bool(rep), detail, per


def _decide(run, crate, spec, ob, slot):
    if any("no-unwinding-checks" in f for f in spec.get("flags", [])):
        return ob.set(core.INCONCLUSIVE, "harness spec disables unwinding assertions; refused")
    tmo = _timeout_of(spec)
    rc, out, dt = crate.kani(slot, spec["harness"], spec.get("flags", []), tmo)
    ob.queries += 1
    r = parse_output(out)
    if r["compile_error"]:          # transient cargo/rustc failures (file locks, stale caches): one retry
        rc, out, dt = crate.kani(slot, spec["harness"], spec.get("flags", []), tmo, tag=".retry")
        ob.queries += 1
        r = parse_output(out)
    vt = r["verification_time"] if r["verification_time"] is not None else dt
    stubs = r["stubs"]
    ob.kani = dict(wall_s=round(dt, 2), verification_s=r["verification_time"], checks=r["n_checks"],
                   covers=[r["covers_sat"], r["covers_total"]], stubs=stubs)
    if rc == 124 or rc == 137:
        return ob.set(core.INCONCLUSIVE, f"timeout/kill after {dt:.0f}s (cap {tmo}s, rc={rc})", solver="cbmc+cadical", solver_s=dt)
    if r["compile_error"]:
        tail = "\n".join(l for l in out.splitlines() if l.startswith("error"))[:300]
        return ob.set(core.INCONCLUSIVE, f"harness crate does not compile: {tail}", solver="kani", solver_s=dt)
    if r["successful"] and not r["failed"]:
        if r["n_failed"] not in (0,) or r["status_error"]:
            return ob.set(core.INCONCLUSIVE, f"SUCCESSFUL but inconsistent summary (failed={r['n_failed']}, status_error={r['status_error']})",
                          solver="cbmc+cadical", solver_s=vt)
        ct, cs = r["covers_total"] or 0, r["covers_sat"] or 0
        if ct < spec.get("min_covers", 1) or cs != ct:
            return ob.set(core.INCONCLUSIVE, f"vacuity: {cs} of {ct} cover properties satisfied (need all, at least {spec.get('min_covers', 1)})",
                          solver="cbmc+cadical", solver_s=vt)
        ob.vacuity = True
        return ob.set(core.HOLDS, f"{r['n_checks']} checks, {cs}/{ct} covers, stubs: {len(stubs)}", solver="cbmc+cadical", solver_s=vt)
    if not r["failed"]:
        why = "Status: ERROR" if r["status_error"] else f"no verdict (rc={rc})"
        tail = " | ".join(out.strip().splitlines()[-4:])[-300:]
        return ob.set(core.INCONCLUSIVE, f"{why}: {tail}", solver="cbmc+cadical", solver_s=dt)
    # FAILED: tool limitation or property failure?
    genuine = [c for c in r["failed_checks"] if not TOOL_FAILURE_PAT.search(c["description"])]
    if r["unwinding"] or r["unsupported"] or not genuine:
        d = "; ".join(c["description"] for c in r["failed_checks"])[:300]
        return ob.set(core.INCONCLUSIVE, f"FAILED for tool reasons (unwinding={r['unwinding']}, unsupported={r['unsupported']}): {d}",
                      solver="cbmc+cadical", solver_s=vt)
    fdesc = "; ".join(f"{c['description']} @ {c['file']}:{c['line']}" for c in genuine)[:400]
    if not spec.get("replay", True):
        return ob.set(core.INCONCLUSIVE, f"FAILED ({fdesc}) but no native replay exists for this harness", solver="cbmc+cadical", solver_s=vt)
    if spec.get("oracle_scenario"):
        # the counterexample is a path through nondeterministic FFI oracles: its concrete witness is searched
        # natively by the named scenario, which then runs the REAL decoder on it (rc 1 = the real code accepts)
        per = crate.run_scenario(spec["oracle_scenario"])
        payload = dict(engine="K", engine_part="K", crate=crate.rel_dir, harness=spec["harness"], scenario=spec["oracle_scenario"],
                       failed_checks=genuine, stubs=stubs, native=per, replay_bin=spec.get("replay_bin") or crate.replay_bin,
                       how="check <ID> --replay <this file>: native run of `replay --scenario ...` (witness search + real decoder)")
        rep = [k for k, v in per.items() if v["rc"] == 1]
        detail = "; ".join(f"{k}: rc={v['rc']} {v['out'].strip().splitlines()[-1] if v['out'].strip() else ''}" for k, v in per.items())
        if rep:
            path = run.write_replay(ob, payload)
            return ob.set(core.VIOLATION, f"{fdesc}; oracle path concretised natively ({detail})", solver="cbmc+cadical", solver_s=vt, replay=path)
        return ob.set(core.INCONCLUSIVE, f"FAILED ({fdesc}) but the oracle path could not be concretised natively ({detail})",
                      solver="cbmc+cadical", solver_s=vt)
    # obtain the concrete counterexample
    rc2, out2, dt2 = crate.kani(slot, spec["harness"], list(spec.get("flags", [])) + [
        "-Z", "concrete-playback", "--concrete-playback=print"], max(tmo, 300) * 2, tag=".playback")
    ob.queries += 1
    tests = [t for t in parse_playback(out2) if t["check_kind"] != "cover"]
    if not tests and spec.get("oracle_fallback"):
        # no concrete values from Kani's playback run: concretise the oracle path natively (see oracle_scenario above)
        per = crate.run_scenario(spec["oracle_fallback"], replay_bin=spec.get("scenario_bin"))
        payload = dict(engine="K", engine_part="K", crate=crate.rel_dir, harness=spec["harness"], scenario=spec["oracle_fallback"],
                       failed_checks=genuine, stubs=stubs, native=per, replay_bin=spec.get("scenario_bin") or crate.replay_bin,
                       how="check <ID> --replay <this file>: native run of `<replay bin> --scenario ...` (witness search + real decoder)")
        rep = [k for k, v in per.items() if v["rc"] == 1]
        detail = "; ".join(f"{k}: rc={v['rc']} {v['out'].strip().splitlines()[-1] if v['out'].strip() else ''}" for k, v in per.items())
        if rep:
            path = run.write_replay(ob, payload)
            return ob.set(core.VIOLATION, f"{fdesc}; Kani's playback gave no values (rc={rc2}); oracle path concretised natively ({detail})",
                          solver="cbmc+cadical", solver_s=vt + dt2, replay=path)
        return ob.set(core.INCONCLUSIVE, f"FAILED ({fdesc}); no playback values (rc={rc2}) and the oracle path could not be concretised natively ({detail})",
                      solver="cbmc+cadical", solver_s=vt + dt2)
    if not tests:
        why = "the playback run timed out" if rc2 in (124, 137) else f"Kani printed no concrete counterexample (rc={rc2})"
        return ob.set(core.INCONCLUSIVE, f"FAILED ({fdesc}) but {why}", solver="cbmc+cadical", solver_s=vt + dt2)
    last = None
    for t in tests[:4]:
        payload = dict(engine="K", engine_part="K", crate=crate.rel_dir, harness=spec["harness"], concrete_vals=t["vals"],
                       failed_checks=genuine, kani_check=t["check"], kani_test=t["text"], stubs=stubs,
                       replay_bin=spec.get("replay_bin") or crate.replay_bin, how="check <ID> --replay <this file>: native run of the same harness body "
                       "with kani::any() fed from concrete_vals (FFI stubs answer from the same values)")
        reproduced, detail, per = crate.run_native(spec["harness"], t["vals"], replay_bin=spec.get("replay_bin"))
        payload["native"] = per
        last = (payload, detail)
        if reproduced:
            path = run.write_replay(ob, payload)
            return ob.set(core.VIOLATION, f"{fdesc}; native replay reproduces ({detail})", solver="cbmc+cadical",
                          solver_s=vt + dt2, replay=path)
    path = run.write_replay(ob, last[0])
    return ob.set(core.INCONCLUSIVE, f"FAILED ({fdesc}) but the counterexample does not reproduce natively ({last[1]}); see {path}",
                  solver="cbmc+cadical", solver_s=vt + dt2)


def run_harnesses(run, crate_rel_dir, harness_specs, jobs=None, kani_flags=("-Z", "stubbing"), name=None,
                  replay_bin="replay", mem_kb=12 * 1024 * 1024):
    """Register one obligation per harness spec (of the current tier) and decide it. See module docstring."""
    tier = core.tier()
    only = getattr(run, "only", None)
    specs = [s for s in harness_specs if tier in s.get("tiers", ("quick", "thorough"))]
    if only:
        specs = [s for s in specs if only in s["oid"] or only in s["harness"]]
    obs = []
    for s in specs:
        ob = core.Ob(s["oid"], "K", s["what"], functions=s.get("functions", []), bound=s.get("bound", ""), key=s.get("key"))
        run.add(ob)
        obs.append(ob)
    if not specs:
        return obs
    jobs = jobs or int(os.environ.get("VERIF_KANI_JOBS", "8"))
    jobs = max(1, min(jobs, len(specs)))
    crate = _Crate(crate_rel_dir, name, kani_flags, replay_bin, mem_kb)
    t0 = time.time()
    lock = crate.locked()
    try:
        rc, out, dt = crate.codegen([s["harness"] for s in specs])
        if rc != 0:
            errs = "\n".join(l for l in out.splitlines() if re.match(r"error", l))[:400] or out[-400:]
            for ob in obs:
                ob.set(core.INCONCLUSIVE, f"kani codegen failed (rc={rc}): {errs}")
            run.log(f"K: codegen of {crate_rel_dir} FAILED in {dt:.0f}s")
            return obs
        crate.clone_slots(jobs)
    finally:
        lock.close()
    run.log(f"K: {crate_rel_dir}: codegen {dt:.0f}s, {len(specs)} harnesses, {jobs} workers, target {crate.target_dir}")
    order = sorted(range(len(specs)), key=lambda i: -float(specs[i].get("est", 10)))
    q = queue.Queue()
    for i in order:
        q.put(i)

    def worker(slot):
        while True:
            try:
                i = q.get_nowait()
            except queue.Empty:
                return
            s, ob = specs[i], obs[i]
            try:
                _decide(run, crate, s, ob, slot)
            except Exception as ex:  # noqa
                ob.set(core.INCONCLUSIVE, f"driver error: {ex!r}")
            run.log(f"K {ob.status:12s} {ob.id} [{s['harness']}] {ob.solver_s:.1f}s {ob.detail[:110]}")

    ths = [threading.Thread(target=worker, args=(k,)) for k in range(jobs)]
    for t in ths:
        t.start()
    for t in ths:
        t.join()
    allstubs = sorted({st for ob in obs for st in getattr(ob, "kani", {}).get("stubs", [])})
    if allstubs:
        run.assumptions.append(f"K ({crate_rel_dir}): FFI functions replaced by nondeterministic oracle stubs "
                               f"(their C/assembly bodies are outside every K claim): " + ", ".join(allstubs))
    run.extra.setdefault("kani", []).append(dict(
        crate=crate_rel_dir, wall_s=round(time.time() - t0, 1), codegen_s=round(dt, 1), workers=jobs,
        harnesses=[dict(oid=ob.id, harness=s["harness"], status=ob.status, **getattr(ob, "kani", {})) for s, ob in zip(specs, obs)]))
    # slots are per-run scratch
    for k in range(jobs):
        shutil.rmtree(crate.slot(k), ignore_errors=True)
    return obs


def native_tool(crate_rel_dir, bin_name, args, profile="debug", name=None, timeout=120):
    """Build (plain cargo) and run another native binary of a harness crate; returns (rc, output). Used for
    hand-constructed real-FFI witnesses that accompany oracle-level findings."""
    crate = _Crate(crate_rel_dir, name, (), bin_name, 12 * 1024 * 1024)
    path, err = crate.native_bin(profile, bin_name)
    if not path:
        return None, "native build failed: " + err[-400:]
    try:
        p = subprocess.run([path] + list(args), stdout=subprocess.PIPE, stderr=subprocess.STDOUT, text=True,
                           errors="replace", timeout=timeout, env=_env())
        return p.returncode, p.stdout
    except subprocess.TimeoutExpired:
        return None, "timed out"


def replay(payload):
    """Re-execute a stored K replay file against the current tree. Returns 1 if the failure reproduces
    (None if the payload is not a K replay, so that an aggregator can try the next part)."""
    if payload.get("engine") != "K" or "harness" not in payload:
        return None
    crate = _Crate(payload["crate"], None, (), payload.get("replay_bin", "replay"), 12 * 1024 * 1024)
    if payload.get("scenario"):
        per = crate.run_scenario(payload["scenario"], replay_bin=payload.get("replay_bin"))
        reproduced = any(v["rc"] == 1 for v in per.values())
        detail = "scenario " + " ".join(payload["scenario"])
    else:
        reproduced, detail, per = crate.run_native(payload["harness"], payload["concrete_vals"], replay_bin=payload.get("replay_bin"))
    for k, v in per.items():
        print(f"--- native {k}: rc={v['rc']}\n{v['out']}")
    print("reproduced" if reproduced else "NOT reproduced", "-", detail)
    return 1 if reproduced else 0
