"""Small SMT-building helpers for operation specifications (integers mod p).

A spec is a function (e, I, O) -> SMT Bool string; I and O are the atoms (SMT names or python ints) of
the input and output instance cells. Helper atoms introduced here are *definitional* (they exist and
are unique for every value of the other variables), so they may appear under the negation."""
from .solvers import I as lit


def A(x):
    return lit(x) if isinstance(x, int) else x


def eq(a, b):
    return f"(= {A(a)} {A(b)})"


def ne(a, b):
    return f"(not (= {A(a)} {A(b)}))"


def lt(a, b):
    return f"(< {A(a)} {A(b)})"


def le(a, b):
    return f"(<= {A(a)} {A(b)})"


def AND(*xs):
    xs = [x for x in xs if x != "true"]
    if not xs:
        return "true"
    return "(and " + " ".join(xs) + ")" if len(xs) > 1 else xs[0]


def OR(*xs):
    if not xs:
        return "false"
    return "(or " + " ".join(xs) + ")" if len(xs) > 1 else xs[0]


def NOT(x):
    return f"(not {x})"


def IMP(a, b):
    return f"(=> {a} {b})"


def ITE(c, a, b):
    return f"(ite {c} {A(a)} {A(b)})"


def isbit(a):
    return OR(eq(a, 0), eq(a, 1))


def b2i(cond):
    return f"(ite {cond} 1 0)"


def wsum(atoms, base=2):
    """integer value sum_i atoms[i] * base^i (little endian)."""
    if not atoms:
        return "0"
    parts = []
    for i, a in enumerate(atoms):
        parts.append(A(a) if i == 0 else f"(* {base ** i} {A(a)})")
    return "(+ " + " ".join(parts) + ")" if len(parts) > 1 else parts[0]


def bits_of(e, x, n, guard="true"):
    """Definitional bits of x under `guard` (guard must imply 0 <= x < 2^n): returns list of fresh 0/1
    atoms with guard => x = sum b_i 2^i. Conservative: when the guard is false nothing is constrained."""
    bs = [e.fresh("sb", 0, 1) for _ in range(n)]
    e.lines.append(f"(assert (=> {guard} (= {A(x)} {wsum(bs)})))")
    # uniqueness of binary representation, instantiated against the system's own decomposition of x
    # (a valid theorem with its premises kept inside the formula; only a hint for the solver)
    e.radix_hint(x, bs)
    return bs


def bv_of_bits(bits):
    """bit-vector whose bit i is (bits[i] = 1); little endian list -> concat msb..lsb"""
    parts = [f"(ite (= {A(b)} 1) #b1 #b0)" for b in reversed(bits)]
    return "(concat " + " ".join(parts) + ")" if len(parts) > 1 else parts[0]


def bvlit(v, n):
    return "#b" + format(v, f"0{n}b")


def geq_chain(e, bits, bound):
    """Returns a 0/1 atom G with G = [ (integer represented by bits, little endian) >= bound ], stated as an
    unsigned bit-vector comparison, after handing the solver the bit-serial characterisation:
        G_i = bvuge(x[i:0], bound[i:0])                       (each G_i DEFINED in the main query)
        G_i = (b_i and G_{i-1}) if bit i of bound is set else (b_i or G_{i-1})   (step lemma)
    The step lemma is generic in (v, b) and is registered as a side obligation the solver must prove
    valid before it is used."""
    n = len(bits)
    if bound >= (1 << n):
        return 0
    if bound == 0:
        return 1
    G = []
    for i in range(n):
        Bi = bound % (1 << (i + 1))
        g = e.fresh("sg", 0, 1)
        e.lines.append(f"(assert (= {g} (ite (bvuge {bv_of_bits(bits[:i + 1])} {bvlit(Bi, i + 1)}) 1 0)))")
        G.append(g)
        if i > 0:
            prev = G[i - 1]
            bi = A(bits[i])
            if (bound >> i) & 1:
                e.lines.append(f"(assert (= {g} (ite (and (= {bi} 1) (= {prev} 1)) 1 0)))")
            else:
                e.lines.append(f"(assert (= {g} (ite (or (= {bi} 1) (= {prev} 1)) 1 0)))")
            Bp = bound % (1 << i)
            body = (f"(= (bvuge (concat b v) {bvlit(Bi, i + 1)}) " +
                    (f"(and (= b #b1) (bvuge v {bvlit(Bp, i)}))" if (bound >> i) & 1 else f"(or (= b #b1) (bvuge v {bvlit(Bp, i)}))") + ")")
            e.side.append((f"geq-step-{i}", [f"(declare-const v (_ BitVec {i}))", "(declare-const b (_ BitVec 1))"], body))
    return G[-1]


def lex_lt(digits_le, bound, base):
    """`the integer with these little-endian digits (each already known to be in [0, base)) is < bound`, written
    as the lexicographic comparison of the digit strings (positional notation: the same mathematical statement as
    `sum base^i d_i < bound`, without any wide arithmetic)."""
    n = len(digits_le)
    if bound >= base ** n:
        return "true"
    bd = [(bound // base ** i) % base for i in range(n)]
    cases = []
    for i in range(n - 1, -1, -1):
        if bd[i] == 0:
            continue
        hi_eq = [eq(digits_le[j], bd[j]) for j in range(i + 1, n)]
        cases.append(AND(*hi_eq, lt(digits_le[i], bd[i])))
    return OR(*cases) if cases else "false"


def canonical_digits(e, x, digits_le, base, P, timeout=120):
    """Specification of a CANONICAL full-width digit decomposition of the field element x (base^n > P), as two
    conjuncts proved one at a time (cut rule vecmap.prove_then_assume): (A) the digits are in range and their
    integer value is x + k*P for some k with base^n > k*P; (B) the digit string is lexicographically below
    P's. Together: value < P, hence k = 0 and value = x. The one-piece statement `x = sum` makes the solver
    link 255-bit linear arithmetic with the comparison and does not finish in 600 s."""
    from .vecmap import prove_then_assume
    n = len(digits_le)
    v = e.named_sum([(base ** i, d) for i, d in enumerate(digits_le)])
    rng = AND(*[(isbit(d) if base == 2 else lt(d, base)) for d in digits_le])
    kmax = (base ** n - 1) // P
    alts = [eq(x, v)] + [eq(f"(+ {A(x)} {k * P})", v) for k in range(1, kmax + 1)]
    A_ = AND(rng, OR(*alts))
    # base 2: the chip's own comparison is a chain of Boolean rows, which pairs with the unsigned bit-vector
    # reading (measured: bvult 286 s, lexicographic form > 600 s); wider digits: lexicographic form (0.5 s)
    B_ = f"(bvult {bv_of_bits(digits_le)} {bvlit(P, n)})" if base == 2 else lex_lt(digits_le, P, base)
    prove_then_assume(e, [("decomposition", A_), ("below-p", B_)], timeout=timeout)
    return AND(A_, B_)
