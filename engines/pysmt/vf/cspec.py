"""Small SMT-building helpers for operation specifications (integers mod p).

A spec is a function (e, I, O) -> SMT Bool string; I and O are the atoms (SMT names or python ints) of
the input and output instance cells. Helper atoms introduced here are *definitional* (they exist and
are unique for every value of the other variables), so they may appear under the negation."""
from .solvers import I as lit


def A(x):
    return lit(x) if isinstance(x, int) else x


def eq(a, b):
    return f"(= {A(a)} {A(b)})"


def ne(a, b):
    return f"(not (= {A(a)} {A(b)}))"


def lt(a, b):
    return f"(< {A(a)} {A(b)})"


def le(a, b):
    return f"(<= {A(a)} {A(b)})"


def AND(*xs):
    xs = [x for x in xs if x != "true"]
    if not xs:
        return "true"
    return "(and " + " ".join(xs) + ")" if len(xs) > 1 else xs[0]


def OR(*xs):
    if not xs:
        return "false"
    return "(or " + " ".join(xs) + ")" if len(xs) > 1 else xs[0]


def NOT(x):
    return f"(not {x})"


def IMP(a, b):
    return f"(=> {a} {b})"


def ITE(c, a, b):
    return f"(ite {c} {A(a)} {A(b)})"


def isbit(a):
    return OR(eq(a, 0), eq(a, 1))


def b2i(cond):
    return f"(ite {cond} 1 0)"


def wsum(atoms, base=2):
    """integer value sum_i atoms[i] * base^i (little endian)."""
    if not atoms:
        return "0"
    parts = []
    for i, a in enumerate(atoms):
        parts.append(A(a) if i == 0 else f"(* {base ** i} {A(a)})")
    return "(+ " + " ".join(parts) + ")" if len(parts) > 1 else parts[0]


def bits_of(e, x, n, guard="true"):
    """Definitional bits of x under `guard` (guard must imply 0 <= x < 2^n): returns list of fresh 0/1
    atoms with guard => x = sum b_i 2^i. Conservative: when the guard is false nothing is constrained."""
    bs = [e.fresh("sb", 0, 1) for _ in range(n)]
    e.lines.append(f"(assert (=> {guard} (= {A(x)} {wsum(bs)})))")
    # uniqueness of binary representation, instantiated against the system's own decomposition of x
    # (a valid theorem with its premises kept inside the formula; only a hint for the solver)
    e.radix_hint(x, bs)
    return bs
