"""Engine M: obligations for 4x64 (n x 64) Montgomery field kernels, generated from MIR bodies.

Everything here is driven by a small descriptor per field type (paths of the constants and functions in
the MIR dump); all VALUES (modulus, INV, R, R2, R3, ...) are read from the MIR const bodies of the current
tree by the interpreter, and every encoding is regenerated from the MIR of the current tree."""
import re, json, os, random, subprocess, time

from vf import core, solvers
from vf import mir_parse as mp
from vf import mir2smt as M
from vf.mir2smt import I, S, Agg, Ref, Cell, Untranslatable

W = 1 << 64


def sum_term(ip, limbs, bits=64):
    parts = []
    for i, x in enumerate(limbs):
        t = ip.term(x)
        parts.append(t if i == 0 else f"(* {1 << (bits * i)} {t})")
    return "(+ " + " ".join(parts) + " 0)"


class MontField:
    def __init__(self, P, d):
        self.P, self.d = P, d
        self.key = d["key"]
        self.n = d.get("limbs", 4)
        self.R = 1 << (64 * self.n)
        ip = M.Interp(P)
        fr = M.Frame(P.items[0])
        self._cip, self._cfr = ip, fr
        self.p = self.const_int(d["consts"]["MODULUS"])
        if d["consts"].get("INV"):
            self.INV = self.const_int(d["consts"]["INV"])
            self.inv_source = "const " + d["consts"]["INV"]
        else:
            # macro-generated field: INV is a literal inside montgomery_reduce; read it from the body
            ip2, _, _, it = self.run_op("reduce")
            ks = {k[3] if isinstance(k[3], int) else k[2] for k in self.wrapping_muls(ip2)}
            ks = {k for k in ks if isinstance(k, int)}
            if len(ks) != 1:
                raise Untranslatable(f"{self.key}: cannot identify INV in montgomery_reduce ({ks})")
            self.INV = ks.pop()
            self.inv_source = "literal operand of wrapping_mul in " + it.path
        self.raw = {}
        for k in ("R", "R2", "R3"):
            if d["consts"].get(k):
                self.raw[k] = self.const_int(d["consts"][k])

    # ------------------------------------------------------------------ constants from MIR
    def const_val(self, path):
        return self._cip.named_const(self._cfr, path)

    def const_int(self, path):
        v = self.const_val(path)
        if isinstance(v, int):
            return v
        return sum(x << (64 * i) for i, x in enumerate(self.flat(self._cip, v)))

    def flat(self, ip, v):
        """flatten a value (newtype nest / array / ref) to its list of integer leaves"""
        if isinstance(v, Ref):
            v = ip.read_path(v.cell, v.path)
        v = ip.force(v)
        if isinstance(v, (int, S)):
            return [v]
        if isinstance(v, Agg):
            keys = sorted(v.f)
            out = []
            for k in keys:
                out += self.flat(ip, v.f[k])
            return out
        raise Untranslatable("flatten " + repr(v))

    # ------------------------------------------------------------------ functions
    def item(self, op):
        spec = self.d["fns"][op]
        rx = spec if isinstance(spec, str) else spec[0]
        sig = None if isinstance(spec, str) else spec[1]
        return self.P.fn(rx, sig=sig, inherent=True)

    def has(self, op):
        if op not in self.d["fns"]:
            return False
        try:
            self.item(op)
            return True
        except KeyError:
            return False

    def mk_arg(self, ip, ty, leaves):
        """build a value of MIR type `ty` consuming integer leaves (list, popped from the front)"""
        if ty.kind == "ref":
            return Ref(Cell(self.mk_arg(ip, ty.args[0], leaves)))
        if ty.kind == "int":
            return leaves.pop(0)
        if ty.kind == "array":
            return Agg({i: self.mk_arg(ip, ty.args[0], leaves) for i in range(ty.n)}, ty.s)
        if ty.kind == "adt" and ty.s == self.d["ty"]:
            v = None
            layers = self.d["layers"]
            inner = self.mk_arg(ip, mp.parse_ty(layers[-1]), leaves)
            names = [self.d["ty"]] + layers[:-1]
            for nm in reversed(names):
                inner = Agg({0: inner}, nm)
            return inner
        raise Untranslatable("argument of type " + ty.s)

    def leaf_ty(self, ty):
        if ty.kind in ("ref", "array"):
            return self.leaf_ty(ty.args[0])
        if ty.kind == "int":
            return ty.name
        return "u64"

    def n_leaves(self, ty):
        if ty.kind == "ref":
            return self.n_leaves(ty.args[0])
        if ty.kind == "int":
            return 1
        if ty.kind == "array":
            return ty.n * self.n_leaves(ty.args[0])
        if ty.kind == "adt" and ty.s == self.d["ty"]:
            return self.n_leaves(mp.parse_ty(self.d["layers"][-1]))
        raise Untranslatable("argument of type " + ty.s)

    def wrap_elem(self, limbs):
        inner = Agg({i: x for i, x in enumerate(limbs)}, self.d["layers"][-1])
        names = [self.d["ty"]] + self.d["layers"][:-1]
        for nm in reversed(names):
            inner = Agg({0: inner}, nm)
        return inner

    # ------------------------------------------------------------------ symbolic run of one op
    def run_op(self, op, product="nonlinear", summaries=(), concrete=None, ret_ty=None, cut=None):
        """returns (ip, input_leaf_lists, output_leaves, item). concrete: list of ints (flat leaves)"""
        it = self.item(op)
        handlers = []
        for s in summaries:
            handlers.append(self.summary_handler(s))
        ip = M.Interp(self.P, M.Ctx(product), handlers)
        ip.summ = []
        if cut is not None:
            rx, maxcalls = re.compile(cut[0]), cut[1]
            state = {"n": 0}

            def hook(ip_, func, cargs, tys, state=state):
                if ip_.depth != cut[2] or not rx.match(func) or state["n"] >= maxcalls:
                    return
                state["n"] += 1
                cargs[0] = M.havoc_leaves(ip_, cargs[0])
            ip.pre_call_hooks.append(hook)
        args, leaves_in = [], []
        flat = list(concrete) if concrete is not None else None
        for k, (l, ty) in enumerate(it.params):
            cnt = self.n_leaves(ty)
            lt = self.leaf_ty(ty)
            if flat is not None:
                lv = [flat.pop(0) for _ in range(cnt)]
            else:
                lv = [S(ip.ctx.fresh(0, (1 << mp.INT_TYPES[lt][0]) - 1, f"x{k}_{i}"), lt) for i in range(cnt)]
            leaves_in.append(list(lv))
            args.append(self.mk_arg(ip, ty, list(lv)))
        r = ip.run_item(it, args)
        if ip.taken:
            raise Untranslatable(f"{it.path}: data-dependent branch (kernel expected to be straight-line)")
        return ip, leaves_in, r, it

    # ------------------------------------------------------------------ summaries (modular contracts)
    def summary_handler(self, op):
        """replace calls of `op` by its contract: fresh outputs constrained by the post-condition; the
        pre-condition becomes a side obligation of the caller. The contract itself is a separate obligation
        on the callee's body (same formula generator, see goal_reduce)."""
        it = self.item(op)
        rx = re.compile(".*")
        fld = self

        def h(ip, fr, func, args, tys, dty, m):
            try:
                tgt = ip.resolve_fn(func, tys)
            except Untranslatable:
                return NotImplemented
            if tgt is not it:
                return NotImplemented
            c = ip.ctx
            if op in ("reduce", "reduce_const"):
                leaves = []
                for a in args:
                    leaves += fld.flat(ip, a)
                T = c.define(sum_term(ip, leaves), "Targ")
                pre = f"(< {T} {fld.p * fld.R})"
                c.side = getattr(c, "side", [])
                c.side.append((list(c.pathcond), pre, "precondition of montgomery_reduce (T < p*2^%d)" % (64 * fld.n)))
                out = [S(c.fresh(0, W - 1, "red"), "u64") for _ in range(fld.n)]
                O = c.define(sum_term(ip, out), "Ored")
                mq = c.fresh(-fld.R, fld.R, "mq")
                c.fact(f"(< {O} {fld.p})")
                c.fact(f"(= (* {fld.R} {O}) (+ {T} (* {fld.p} {mq})))")
                ip.summ.append(dict(op=op, T=T, O=O, m=mq, out=out, leaves=leaves))
                rt = it.ret
                if rt.kind == "array":
                    return Agg({i: x for i, x in enumerate(out)}, rt.s)
                return fld.wrap_elem(out)
            if op in ("add", "sub"):
                la, lb = fld.flat(ip, args[0]), fld.flat(ip, args[1])
                A = c.define(sum_term(ip, la), "Aarg")
                Bv = c.define(sum_term(ip, lb), "Barg")
                c.side = getattr(c, "side", [])
                c.side.append((list(c.pathcond), f"(and (< {A} {fld.p}) (< {Bv} {fld.p}))",
                               f"precondition of {op} (canonical operands)"))
                out = [S(c.fresh(0, W - 1, op), "u64") for _ in range(fld.n)]
                O = c.define(sum_term(ip, out), "O" + op)
                c.fact(f"(< {O} {fld.p})")
                if op == "add":
                    c.fact(f"(or (= {O} (+ {A} {Bv})) (= {O} (- (+ {A} {Bv}) {fld.p})))")
                else:
                    c.fact(f"(or (= {O} (- {A} {Bv})) (= {O} (+ (- {A} {Bv}) {fld.p})))")
                ip.summ.append(dict(op=op, A=A, B=Bv, O=O, out=out))
                return fld.wrap_elem(out)
            raise Untranslatable("no summary for " + op)
        return (rx, h)

    # ------------------------------------------------------------------ goal formulas
    def canon(self, ip, leaves):
        return f"(< {sum_term(ip, leaves)} {self.p})"

    def goal_linear(self, ip, kind, ins, out):
        p = self.p
        O = sum_term(ip, out)
        A = sum_term(ip, ins[0])
        if kind == "add":
            Bv = sum_term(ip, ins[1])
            return f"(and (< {O} {p}) (or (= {O} (+ {A} {Bv})) (= {O} (- (+ {A} {Bv}) {p}))))"
        if kind == "sub":
            Bv = sum_term(ip, ins[1])
            return f"(and (< {O} {p}) (or (= {O} (- {A} {Bv})) (= {O} (+ (- {A} {Bv}) {p}))))"
        if kind == "double":
            return f"(and (< {O} {p}) (or (= {O} (* 2 {A})) (= {O} (- (* 2 {A}) {p}))))"
        if kind == "neg":
            return f"(and (< {O} {p}) (ite (= {A} 0) (= {O} 0) (= {O} (- {p} {A}))))"
        raise KeyError(kind)

    def py_linear(self, kind, vals):
        p = self.p
        if kind == "add":
            return (vals[0] + vals[1]) % p
        if kind == "sub":
            return (vals[0] - vals[1]) % p
        if kind == "double":
            return (2 * vals[0]) % p
        if kind == "neg":
            return (-vals[0]) % p

    def wrapping_muls(self, ip):
        return [n for n in ip.ctx.notes if n[0] == "wrapping_mul"]

    def goal_reduce(self, ip, T, out, ks):
        """white-box: K = sum k_i 2^(64 i) from the wrapping_mul(_, INV) results, in order"""
        if len(ks) != self.n:
            raise Untranslatable(f"expected {self.n} wrapping_mul(_, INV) calls in the body, found {len(ks)} "
                                 f"(white-box Montgomery goal not applicable)")
        for k in ks:
            if k[3] != self.INV and k[2] != self.INV:
                raise Untranslatable("wrapping_mul by something else than INV")
        K = "(+ " + " ".join(f"(* {1 << (64 * i)} {ip.term(k[1])})" for i, k in enumerate(ks)) + ")"
        O = sum_term(ip, out)
        R, p = self.R, self.p
        return (f"(and (< {O} {p}) (or (= (* {R} {O}) (+ {T} (* {p} {K}))) "
                f"(= (* {R} {O}) (- (+ {T} (* {p} {K})) {p * R}))))")

    def py_reduce(self, T):
        return (T * pow(self.R, -1, self.p)) % self.p

    # ------------------------------------------------------------------ query assembly
    def q_goal(self, ip, pre, goal):
        c = ip.ctx
        return c.text() + f"(assert {pre})\n(assert {c.path_term()})\n(assert (not {goal}))\n"

    def q_nopanic(self, ip, pre):
        c = ip.ctx
        bad = [f"(and {c.path_term(pc)} {b})" for pc, b, msg, w in c.panics]
        bad += [f"(and {c.path_term(pc)} (not {cond}))" for pc, cond, msg in getattr(c, "side", [])]
        if not bad:
            return None
        return c.text() + f"(assert {pre})\n(assert (or " + " ".join(bad) + "))\n"

    def q_vacuity(self, ip, pre, goal):
        c = ip.ctx
        return c.text() + f"(assert {pre})\n(assert {c.path_term()})\n(assert {goal})\n"


# ------------------------------------------------------------------------------------------------
# native replay
# ------------------------------------------------------------------------------------------------
class Replayer:
    """builds /verif/engines/mirreplay (dev + release) against core.REPO and runs its binaries"""

    def __init__(self, log=print):
        self.log = log
        self.bins = {}
        self.err = None
        import threading
        self.finished = threading.Event()      # set when every requested profile is built (or the build failed)

    def build(self, profiles=("dev", "release")):
        try:
            return self._build(profiles)
        finally:
            self.finished.set()

    def _build(self, profiles):
        crate, target = core.crate_dirs("engines/mirreplay")
        lock_src = os.path.join(core.REPO, "Cargo.lock")
        for prof in profiles:
            cmd = ["cargo", "build", "--offline", "--target-dir", target]
            if prof == "release":
                cmd.append("--release")
            t0 = time.time()
            p = subprocess.run(cmd, cwd=crate, capture_output=True, text=True,
                               env=dict(os.environ, CARGO_NET_OFFLINE="true"))
            if p.returncode != 0:
                self.err = f"cargo build ({prof}) failed: " + p.stderr[-1200:]
                return False
            self.bins[prof] = os.path.join(target, "debug" if prof == "dev" else "release")
            self.log(f"mirreplay {prof} build {time.time() - t0:.1f}s")
        return True

    def field_batch(self, lines, profile="dev"):
        exe = os.path.join(self.bins[profile], "replay-field")
        p = subprocess.run([exe, "--batch"], input="\n".join(lines) + "\n", capture_output=True, text=True, timeout=120)
        out = [l for l in p.stdout.split("\n") if l.strip()]
        if len(out) != len(lines):
            raise RuntimeError(f"replay-field returned {len(out)} lines for {len(lines)} commands: {p.stderr[-300:]}")
        return out

    def run(self, binary, args, profile="dev", timeout=120):
        exe = os.path.join(self.bins[profile], binary)
        p = subprocess.run([exe] + list(args), capture_output=True, text=True, timeout=timeout)
        return p.returncode, p.stdout, p.stderr


def parse_replay(line):
    """'ok <hex>' | 'some <hex>' | 'none' | 'panic msg' | 'err msg' -> (tag, int or str)"""
    parts = line.strip().split(" ", 1)
    tag = parts[0]
    if tag in ("ok", "some"):
        return tag, int(parts[1], 16)
    return tag, parts[1] if len(parts) > 1 else ""


def hexs(v):
    return format(v, "x")
